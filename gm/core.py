"""Core of the Garden monitors: build, process runners, exit taxonomy, batch hook client.

Everything here is python3 stdlib only.
"""
import fcntl
import hashlib
import json
import os
import re
import resource
import shutil
import signal
import subprocess
import sys
import tempfile
import time

VERIF = os.path.dirname(os.path.dirname(os.path.abspath(__file__)))
REPO = os.environ.get("VERIF_REPO", "/repo")
BUILD_DIR = os.environ.get("VERIF_BUILD_DIR") or os.path.join(VERIF, ".build")
TARGET_DIR = os.path.join(BUILD_DIR, "target")
GARDEN = os.path.join(TARGET_DIR, "debug", "garden")
GUARD = "wilfred_garden_verif"
NCPU = int(os.environ.get("VERIF_JOBS", "0")) or min(16, os.cpu_count() or 4)


class HarnessError(Exception):
    pass


# --------------------------------------------------------------------------- build

def build(verbose=True):
    """Build /repo's current working tree with the hooks on. Serialised by flock."""
    os.makedirs(BUILD_DIR, exist_ok=True)
    lock = open(os.path.join(BUILD_DIR, "lock"), "w")
    fcntl.flock(lock, fcntl.LOCK_EX)
    try:
        env = dict(os.environ)
        env.update({"CARGO_NET_OFFLINE": "true", "CARGO_TARGET_DIR": TARGET_DIR})
        cmd = ["cargo", "rustc", "--offline", "--bin", "garden", "--",
               "--cfg", GUARD, "--check-cfg", "cfg(%s)" % GUARD]
        t0 = time.time()
        p = subprocess.run(cmd, cwd=REPO, env=env, stdout=subprocess.PIPE,
                           stderr=subprocess.STDOUT, text=True)
        if p.returncode != 0 or not os.path.exists(GARDEN):
            sys.stderr.write(p.stdout[-6000:])
            raise HarnessError("hooked build of %s failed" % REPO)
        if verbose:
            sys.stderr.write("[build] ok in %.1fs\n" % (time.time() - t0))
    finally:
        fcntl.flock(lock, fcntl.LOCK_UN)
        lock.close()
    return GARDEN


# --------------------------------------------------------------------------- running

def _preexec():
    resource.setrlimit(resource.RLIMIT_CORE, (0, 0))
    lim = 8 << 30
    try:
        resource.setrlimit(resource.RLIMIT_AS, (lim, lim))
    except Exception:
        pass
    os.setsid()


BASE_ENV = {
    "PATH": os.environ.get("PATH", "/usr/bin:/bin"),
    "RUST_BACKTRACE": "0",
    "NO_COLOR": "1",
    "HOME": "/nonexistent",
    "LANG": "C.UTF-8",
}


class Run:
    __slots__ = ("rc", "out", "err", "timed_out", "wall")

    def __init__(self, rc, out, err, timed_out, wall):
        self.rc, self.out, self.err, self.timed_out, self.wall = rc, out, err, timed_out, wall

    @property
    def cls(self):
        return classify(self)

    def brief(self):
        return {"rc": self.rc, "cls": self.cls, "out": self.out[-600:], "err": self.err[-900:]}


def run_garden(args, stdin=None, timeout=20, cwd=None, env=None, binary=None):
    """Run the hooked garden binary as a user would. stdin: None -> /dev/null, str -> piped."""
    e = dict(BASE_ENV)
    if env:
        e.update(env)
    t0 = time.time()
    try:
        p = subprocess.Popen([binary or GARDEN] + list(args), cwd=cwd, env=e,
                             stdin=subprocess.PIPE if stdin is not None else subprocess.DEVNULL,
                             stdout=subprocess.PIPE, stderr=subprocess.PIPE, preexec_fn=_preexec)
    except OSError as ex:
        raise HarnessError("cannot start garden: %s" % ex)
    timed_out = False
    try:
        out, err = p.communicate(stdin.encode("utf-8") if isinstance(stdin, str) else stdin, timeout=timeout)
    except subprocess.TimeoutExpired:
        timed_out = True
        try:
            os.killpg(p.pid, signal.SIGKILL)
        except ProcessLookupError:
            pass
        out, err = p.communicate()
    return Run(p.returncode, out.decode("utf-8", "replace"), err.decode("utf-8", "replace"),
               timed_out, time.time() - t0)


PANIC_RE = re.compile(r"thread '([^']*)' (?:\(\d+\) )?panicked at ([^:\n]+):(\d+):(\d+):\n([^\n]*)")


def classify(r):
    """Exit taxonomy (DESIGN 3.3)."""
    if r.timed_out:
        return "timeout"
    if r.rc is not None and r.rc < 0:
        s = -r.rc
        if s == signal.SIGABRT:
            return "abort"
        if s == signal.SIGSEGV:
            return "segv"
        return "signal%d" % s
    if r.rc == 101 or "panicked at" in r.err:
        return "panic"
    if "has overflowed its stack" in r.err:
        return "abort"
    if r.rc == 0:
        return "ok"
    if r.rc == 1:
        return "diag"
    if r.rc == 10:
        return "badreq"
    return "rc%d" % r.rc


CRASH = ("panic", "abort", "segv")


def norm_msg(msg):
    """Strip literals from a panic message so signatures survive input changes."""
    # slice-index panics quote the source text: keep only the stable head
    for cut in (" is not a char boundary", " is out of bounds of", " out of range for "):
        i = msg.find(cut)
        if i >= 0:
            msg = msg[:i + len(cut)]
    msg = re.sub(r"`[^`]*`", "`_`", msg)
    msg = re.sub(r"'[^']*'", "'_'", msg)
    msg = re.sub(r"\"[^\"]*\"", "\"_\"", msg)
    msg = re.sub(r"\d+", "N", msg)
    return msg[:160]


def panic_sig(text):
    """Signature of a panic: source file (no line) + normalised message."""
    m = PANIC_RE.search(text)
    if m:
        return "panic:%s:%s" % (m.group(2), norm_msg(m.group(5)))
    # verif-batch style: "src/parser/lex.rs:121: message"
    m = re.match(r"([^:\s]+\.rs):(\d+): (.*)", text, re.S)
    if m:
        return "panic:%s:%s" % (m.group(1), norm_msg(m.group(3).split("\n")[0]))
    if "has overflowed its stack" in text:
        return "abort:stack-overflow"
    return "panic:?:" + norm_msg(text.strip().split("\n")[0] if text.strip() else "")


def crash_sig(r):
    c = r.cls
    if c == "panic":
        return panic_sig(r.err)
    if c == "abort":
        if "has overflowed its stack" in r.err:
            return "abort:stack-overflow"
        if "memory allocation" in r.err:
            return "abort:alloc"
        return "abort:?"
    return c


# --------------------------------------------------------------------------- scratch

class Scratch:
    """mkdtemp directory removed on exit."""

    def __init__(self, prefix="gm-"):
        self.dir = tempfile.mkdtemp(prefix=prefix, dir=os.environ.get("TMPDIR") or None)
        self.n = 0

    def file(self, text, name=None, suffix=".gdn"):
        if name is None:
            self.n += 1
            name = "f%d%s" % (self.n, suffix)
        p = os.path.join(self.dir, name)
        os.makedirs(os.path.dirname(p), exist_ok=True)
        with open(p, "wb") as f:
            f.write(text.encode("utf-8") if isinstance(text, str) else text)
        return p

    def close(self):
        shutil.rmtree(self.dir, ignore_errors=True)

    def __enter__(self):
        return self

    def __exit__(self, *a):
        self.close()


# --------------------------------------------------------------------------- verif-batch client

def batch(requests, timeout=120, cwd=None):
    """Send requests to `garden verif-batch`. Returns list of responses (same order).

    A request that kills the process (stack overflow, abort) gets
    {"crash": <cls>, "stderr": ...} and the remaining requests are re-submitted to a new process.
    A watchdog gets {"crash": "timeout"} for the request in flight.
    """
    out = [None] * len(requests)
    start = 0
    while start < len(requests):
        chunk = requests[start:]
        payload = "".join(json.dumps(dict(r, id=start + i)) + "\n" for i, r in enumerate(chunk))
        r = run_garden(["verif-batch"], stdin=payload, timeout=timeout, cwd=cwd)
        last_begin = None
        done = start
        for line in r.out.split("\n"):
            if not line:
                continue
            try:
                j = json.loads(line)
            except ValueError:
                continue
            if "begin" in j and len(j) == 1:
                last_begin = j["begin"]
                continue
            i = j.get("id")
            if isinstance(i, int) and 0 <= i < len(out):
                out[i] = j
                done = max(done, i + 1)
        if done >= len(requests):
            break
        # process died or timed out on request `done`
        culprit = last_begin if isinstance(last_begin, int) and last_begin >= done else done
        out[culprit] = {"id": culprit, "crash": r.cls, "stderr": r.err[-2000:], "rc": r.rc}
        for k in range(done, culprit):
            if out[k] is None:
                out[k] = {"id": k, "crash": "lost", "stderr": ""}
        start = culprit + 1
    return out


# --------------------------------------------------------------------------- JSON session

def json_session_file(requests, timeout=60, cwd=None, env=None, scratch=None):
    """Run requests through `garden reftest-json-session` (pretty JSON out). Returns (Run, [responses])."""
    own = scratch is None
    sc = scratch or Scratch()
    try:
        path = sc.file("".join(json.dumps(r) + "\n" for r in requests), suffix=".jsonl")
        r = run_garden(["reftest-json-session", path], timeout=timeout, cwd=cwd or sc.dir, env=env)
        return r, parse_concat_json(r.out)
    finally:
        if own:
            sc.close()


def parse_concat_json(text):
    """Parse a stream of concatenated (possibly pretty-printed) JSON values."""
    dec = json.JSONDecoder()
    i, n, out = 0, len(text), []
    while i < n:
        while i < n and text[i] in " \t\r\n":
            i += 1
        if i >= n:
            break
        try:
            v, j = dec.raw_decode(text, i)
        except ValueError:
            # skip a line of non-JSON noise
            k = text.find("\n", i)
            if k < 0:
                break
            i = k + 1
            continue
        out.append(v)
        i = j
    return out


def run_req(src, rid=None, path=None):
    d = {"method": "run", "input": src}
    if rid is not None:
        d["id"] = rid
    if path:
        d["path"] = path
    return d


def sha(x):
    return hashlib.sha1(json.dumps(x, sort_keys=True, default=str).encode()).hexdigest()[:16]
