"""Minimal LSP client for the real `garden lsp` (stdio, Content-Length framing).

Non-blocking reads, watchdogs, and nothing that interprets the payloads: callers get the decoded
JSON bodies in arrival order.
"""
import json
import os
import select
import signal
import subprocess
import time

from . import core


def frame(body):
    if isinstance(body, (dict, list)):
        body = json.dumps(body, ensure_ascii=False)
    if isinstance(body, str):
        body = body.encode("utf-8")
    return b"Content-Length: %d\r\n\r\n" % len(body) + body


class LspServer:
    def __init__(self, cwd, tmpdir=None, env=None, args=("lsp",)):
        e = dict(core.BASE_ENV)
        e["TMPDIR"] = tmpdir or cwd          # the server writes built-in files under temp_dir()
        e["GARDEN_LOG"] = "error"
        if env:
            e.update(env)
        self.p = subprocess.Popen([core.GARDEN] + list(args), cwd=cwd, env=e, stdin=subprocess.PIPE,
                                  stdout=subprocess.PIPE, stderr=subprocess.PIPE, preexec_fn=core._preexec)
        self.buf = b""
        self.err = b""
        self.eof = False
        os.set_blocking(self.p.stdout.fileno(), False)
        os.set_blocking(self.p.stderr.fileno(), False)
        os.set_blocking(self.p.stdin.fileno(), False)
        self.framing_errors = []

    # ------------------------------------------------------------------ writing
    def send_raw(self, data, timeout=20.0):
        """Write all of data, pumping the output pipes meanwhile (no deadlock on big messages)."""
        view = memoryview(data)
        deadline = time.time() + timeout
        while len(view):
            if time.time() > deadline:
                return False
            try:
                _, w, _ = select.select([], [self.p.stdin], [], 0.05)
            except (ValueError, OSError):
                return False
            if w:
                try:
                    n = os.write(self.p.stdin.fileno(), view[:1 << 16])
                    view = view[n:]
                except BlockingIOError:
                    pass
                except (BrokenPipeError, OSError):
                    return False
            self._pump(0)
        return True

    def send(self, msg):
        return self.send_raw(frame(msg))

    # ------------------------------------------------------------------ reading
    def _pump(self, wait):
        fds = [f for f in (self.p.stdout, self.p.stderr) if not f.closed]
        try:
            r, _, _ = select.select(fds, [], [], wait)
        except (ValueError, OSError):
            return False
        got = False
        for f in r:
            try:
                d = os.read(f.fileno(), 1 << 16)
            except BlockingIOError:
                continue
            except OSError:
                d = b""
            if d:
                got = True
                if f is self.p.stdout:
                    self.buf += d
                else:
                    self.err += d
            elif f is self.p.stdout:
                self.eof = True
        return got

    def _next_frame(self):
        """Pop one framed message from the buffer. None if incomplete."""
        i = self.buf.find(b"\r\n\r\n")
        if i < 0:
            if len(self.buf) > 4096:
                self.framing_errors.append("no header terminator in %r" % self.buf[:80])
                self.buf = b""
            return None
        head = self.buf[:i].decode("ascii", "replace")
        n = None
        for line in head.split("\r\n"):
            k, _, v = line.partition(":")
            if k.strip().lower() == "content-length":
                try:
                    n = int(v.strip())
                except ValueError:
                    pass
        if n is None:
            self.framing_errors.append("bad header %r" % head[:120])
            self.buf = self.buf[i + 4:]
            return None
        if len(self.buf) < i + 4 + n:
            return None
        body = self.buf[i + 4:i + 4 + n]
        self.buf = self.buf[i + 4 + n:]
        try:
            return json.loads(body.decode("utf-8"))
        except (ValueError, UnicodeDecodeError) as ex:
            self.framing_errors.append("bad body (%s): %r" % (ex, body[:120]))
            return {"_bad_body": body[:200].decode("utf-8", "replace")}

    def read_until(self, pred, timeout=20.0):
        """Collect messages until pred(msg). -> (messages, "ok" | "dead" | "timeout")."""
        out = []
        deadline = time.time() + timeout
        while True:
            while True:
                m = self._next_frame()
                if m is None:
                    break
                out.append(m)
                if pred(m):
                    return out, "ok"
            if self.p.poll() is not None or self.eof:
                while self._pump(0.05):
                    pass
                m = self._next_frame()
                if m is not None:
                    out.append(m)
                    if pred(m):
                        return out, "ok"
                    continue
                return out, "dead"
            left = deadline - time.time()
            if left <= 0:
                return out, "timeout"
            self._pump(min(left, 0.25))

    def wait_exit(self, timeout=10.0):
        """Wait for the process to end. -> return code or None."""
        deadline = time.time() + timeout
        while time.time() < deadline:
            rc = self.p.poll()
            if rc is not None:
                while self._pump(0.02):
                    pass
                return rc
            self._pump(0.05)
        return self.p.poll()

    def close_stdin(self):
        try:
            self.p.stdin.close()
        except Exception:
            pass

    def alive(self):
        return self.p.poll() is None

    def stderr_text(self):
        self._pump(0)
        return self.err.decode("utf-8", "replace")

    def close(self):
        try:
            os.killpg(self.p.pid, signal.SIGKILL)
        except (ProcessLookupError, PermissionError):
            pass
        try:
            self.p.wait(timeout=5)
        except Exception:
            pass
        for f in (self.p.stdin, self.p.stdout, self.p.stderr):
            try:
                f.close()
            except Exception:
                pass


class Probe:
    """A server plus the sentinel discipline: after every client message an unknown-method request is sent;
    its MethodNotFound answer marks the end of everything the server had to say about the message."""

    SENTINEL = "verif/ping"

    def __init__(self, cwd, tmpdir=None):
        self.srv = LspServer(cwd, tmpdir=tmpdir)
        self.k = 0

    def exchange(self, msg, timeout=20.0):
        """Send msg (dict/list -> framed JSON, bytes -> as is) and the sentinel.
        -> (messages before the sentinel's answer, sentinel answer | None, "ok" | "dead" | "timeout")."""
        self.k += 1
        sid = "verif-ping-%d" % self.k
        raw = msg if isinstance(msg, (bytes, bytearray)) else frame(msg)
        self.srv.send_raw(raw)
        self.srv.send({"jsonrpc": "2.0", "id": sid, "method": self.SENTINEL})
        msgs, st = self.srv.read_until(lambda m: isinstance(m, dict) and m.get("id") == sid, timeout)
        if st == "ok":
            return msgs[:-1], msgs[-1], "ok"
        return msgs, None, st

    def request(self, rid, method, params, timeout=20.0):
        """-> (response | None, other messages, status)."""
        before, sent, st = self.exchange({"jsonrpc": "2.0", "id": rid, "method": method, "params": params}, timeout)
        resp = [m for m in before if isinstance(m, dict) and m.get("id") == rid and "method" not in m]
        other = [m for m in before if not (isinstance(m, dict) and m.get("id") == rid and "method" not in m)]
        return (resp[0] if len(resp) == 1 else (resp or None)), other, st

    def notify(self, method, params, timeout=20.0):
        return self.exchange({"jsonrpc": "2.0", "method": method, "params": params}, timeout)

    def close(self):
        self.srv.close()
