"""Helpers on top of the JSON session (`garden reftest-json-session` and the real `garden json`)."""
import json
import os
import select
import signal
import subprocess
import time

from . import core


def resp_kind(resp):
    k = resp.get("kind")
    if isinstance(k, dict) and k:
        return next(iter(k))
    return None


def resp_body(resp):
    k = resp.get("kind")
    if isinstance(k, dict) and k:
        return next(iter(k.values()))
    return {}


def summarize(resp):
    """-> ("ok", value_str|None) | ("err", message, position|None, stack) | ("cmd", message)
          | ("interrupted",) | ("malformed", msg) | ("printed", s) | ("printed_stderr", s) | ("other", kind)"""
    kind = resp_kind(resp)
    b = resp_body(resp)
    if kind == "evaluate":
        v = b.get("value", {})
        if "Ok" in v:
            return ("ok", v["Ok"])
        errs = v.get("Err") or [{}]
        e = errs[0]
        return ("err", e.get("message"), e.get("position"), e.get("stack"))
    if kind == "run_command":
        return ("cmd", b.get("message"))
    if kind == "interrupted":
        return ("interrupted",)
    if kind == "malformed_request":
        return ("malformed", b.get("message"))
    if kind == "printed":
        return ("printed", b.get("s"))
    if kind == "printed_stderr":
        return ("printed_stderr", b.get("s"))
    return ("other", kind)


def eval_many(inputs, timeout=60, per=None, env=None, abort_between=True):
    """Evaluate independent inputs in as few session processes as possible.

    Returns a list (same order) of dicts:
      {"out": printed stdout, "res": ("ok", v) | ("err", msg, pos, stack) | ("crash", sig, stderr) | ("timeout",) | ("lost",)}
    A crash is attributed to the first request without a response; the rest restart in a new process.
    """
    results = [None] * len(inputs)
    start = 0
    with core.Scratch("gm-sess-") as sc:
        while start < len(inputs):
            reqs = []
            for i in range(start, len(inputs)):
                reqs.append({"method": "run", "input": inputs[i], "id": 2 * i})
                if abort_between:
                    reqs.append({"method": "run", "input": ":abort", "id": 2 * i + 1})
            r, resps = core.json_session_file(reqs, timeout=timeout, scratch=sc, env=env)
            out_acc = []
            answered = start - 1
            cur = start
            for resp in resps:
                s = summarize(resp)
                if s[0] == "printed":
                    out_acc.append(s[1] or "")
                    continue
                if s[0] == "printed_stderr":
                    continue
                rid = resp.get("id")
                if s[0] in ("ok", "err") and (rid is None or rid % 2 == 0):
                    idx = rid // 2 if rid is not None else cur
                    if results[idx] is None:
                        results[idx] = {"out": "".join(out_acc), "res": s}
                        out_acc = []
                        answered = idx
                        cur = idx + 1
                elif s[0] == "cmd":
                    out_acc = []
                    if rid is not None and not abort_between:
                        pass
            if answered >= len(inputs) - 1 and r.cls in ("ok", "diag"):
                break
            # died (or timed out) on request answered+1
            culprit = answered + 1
            if culprit >= len(inputs):
                break
            if r.timed_out:
                results[culprit] = {"out": "".join(out_acc), "res": ("timeout",)}
            elif r.cls in core.CRASH or r.cls.startswith("signal"):
                results[culprit] = {"out": "".join(out_acc), "res": ("crash", core.crash_sig(r), r.err[-1500:])}
            else:
                results[culprit] = {"out": "".join(out_acc), "res": ("lost", r.cls, r.err[-500:])}
            start = culprit + 1
    for i, x in enumerate(results):
        if x is None:
            results[i] = {"out": "", "res": ("lost", "?", "")}
    return results


class LiveSession:
    """The real `garden json` over pipes with Content-Length framing."""

    def __init__(self, cwd=None, env=None):
        e = dict(core.BASE_ENV)
        if env:
            e.update(env)
        self.p = subprocess.Popen([core.GARDEN, "json"], cwd=cwd, env=e, stdin=subprocess.PIPE,
                                  stdout=subprocess.PIPE, stderr=subprocess.PIPE, preexec_fn=core._preexec)
        self.buf = b""
        self.err = b""
        os.set_blocking(self.p.stdout.fileno(), False)
        os.set_blocking(self.p.stderr.fileno(), False)

    def send(self, obj):
        body = obj if isinstance(obj, (bytes, bytearray)) else json.dumps(obj).encode("utf-8")
        try:
            self.p.stdin.write(b"Content-Length: %d\n" % len(body) + body)
            self.p.stdin.flush()
            return True
        except (BrokenPipeError, OSError):
            return False

    def send_raw(self, data):
        try:
            self.p.stdin.write(data)
            self.p.stdin.flush()
            return True
        except (BrokenPipeError, OSError):
            return False

    def _pump(self, wait):
        fds = [self.p.stdout, self.p.stderr]
        r, _, _ = select.select(fds, [], [], wait)
        got = False
        for f in r:
            try:
                d = os.read(f.fileno(), 1 << 16)
            except BlockingIOError:
                d = b""
            if d:
                got = True
                if f is self.p.stdout:
                    self.buf += d
                else:
                    self.err += d
        return got

    def read_until(self, pred, timeout=20.0):
        """Collect responses (one JSON per line) until pred(resp) is true. Returns (list, status)
        status: "ok" | "dead" | "timeout"."""
        out = []
        deadline = time.time() + timeout
        while True:
            while b"\n" in self.buf:
                line, self.buf = self.buf.split(b"\n", 1)
                line = line.strip()
                if not line:
                    continue
                try:
                    v = json.loads(line.decode("utf-8", "replace"))
                except ValueError:
                    v = {"_raw": line.decode("utf-8", "replace")}
                out.append(v)
                if pred(v):
                    return out, "ok"
            if self.p.poll() is not None:
                # drain what is left
                while self._pump(0.05):
                    pass
                if b"\n" in self.buf:
                    continue
                return out, "dead"
            left = deadline - time.time()
            if left <= 0:
                return out, "timeout"
            self._pump(min(left, 0.5))

    def alive(self):
        return self.p.poll() is None

    def stderr_text(self):
        self._pump(0)
        return self.err.decode("utf-8", "replace")

    def close(self):
        try:
            os.killpg(self.p.pid, signal.SIGKILL)
        except (ProcessLookupError, PermissionError):
            pass
        try:
            self.p.wait(timeout=5)
        except Exception:
            pass
        for f in (self.p.stdin, self.p.stdout, self.p.stderr):
            try:
                f.close()
            except Exception:
                pass
