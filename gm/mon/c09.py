"""C09 The JSON session answers every request and never dies.

Runs the real `garden json` over pipes (Content-Length framing), lock-step: after every request a sentinel
`{"method":"run","input":":verif_nosuch_<i>","id":<i>}` is sent, which the session answers with a run_command
"No such command" response carrying the id and which changes no state. Conservation law over the transcript:
between two consecutive sentinel responses there is exactly one response that is not `printed`/`printed_stderr`
and not the reader thread's interrupt acknowledgement; every `interrupt` gets exactly one acknowledgement; a response
that carries an id carries the id of the request it answers; the process is alive (and has not panicked) at the end.
A violation is re-run from a fresh session with ever shorter suffixes of the history to report a small reproducer.
"""
import os
import random
import time

from .. import core
from .. import findings
from .. import session
from ..gen import c_history as H

ID = "C09"
LEVEL = "exploration"
RULE = ("case = request history against the real `garden json`: scripted histories for every command in the states the "
        "property names (nothing pending, after errors at depth 0/1/3, after abort, repeated), then seeded random histories "
        "over run/load/eval_up_to/malformed bodies/header-less lines/interrupt and all REPL commands except :quit and :trace, "
        "with and without arguments, non-ASCII input. distinct key = (request label, session state before it, response kind)")
ASSUME = ["an unknown `:command` changes no session state (it is used as the sentinel)",
          "`:quit` (exits by design) and `:trace` (switches stdout to a non-JSON expression trace by design) are excluded"]
BATCH = 3
FLOOR = {"quick": 60, "thorough": 200}
BUDGET = {"quick": 30, "thorough": 780}

STEP_TIMEOUT = 20.0
QUIET = 5.0    # silence after which a live session is nudged with an interrupt


def gen_cases(tier, seed):
    for i in range(len(H.SCRIPTED)):
        yield {"t": "scripted", "i": i}
    yield {"_marker": "scripted-states", "histories": len(H.SCRIPTED),
           "space": ":skip/:replace/:resume/:abort and friends with nothing pending, after errors, after abort, repeated"}
    n = 0
    length = 12 if tier == "quick" else 40
    while True:
        n += 1
        yield {"t": "random", "seed": seed * 1000003 + n, "len": length}


def steps_of(case):
    if "steps" in case:
        return case["steps"]
    if case["t"] == "scripted":
        return H.scripted_history(case["i"])
    return H.random_history(case["seed"], case["len"])


def _sub(x, d):
    if isinstance(x, str):
        return x.replace("@S@", d)
    if isinstance(x, dict):
        return {k: _sub(v, d) for k, v in x.items()}
    return x


def frame_class(name):
    if name is None:
        return "-"
    for p in ("fun ", "method ", "test ", "closure"):
        if name.startswith(p):
            return p.strip()
    return "toplevel"


def describe(resp):
    k = session.resp_kind(resp)
    b = session.resp_body(resp)
    if k == "evaluate":
        return "evaluate:" + ("ok" if "Ok" in (b.get("value") or {}) else "err")
    return str(k)


def run_history(steps, sc):
    """-> dict(status=held|violated|inconclusive, sig, detail, keys, failed_at)"""
    for name, content in H.scratch_files().items():
        sc.file(content, name=name)
    s = session.LiveSession(cwd=sc.dir)
    keys = set()
    try:
        got, st = s.read_until(lambda v: session.resp_kind(v) == "ready", timeout=STEP_TIMEOUT)
        if st != "ok":
            return {"status": "inconclusive", "detail": {"note": "no ready message", "st": st, "stderr": s.stderr_text()[-400:]}, "keys": keys}
        state = "fresh"
        # the definitions at the front are pipelined: all of them, then one sentinel
        nsetup = 0
        while nsetup < len(steps) and steps[nsetup].get("setup"):
            nsetup += 1
        if nsetup:
            ok = all(s.send(_sub(st["body"], sc.dir)) for st in steps[:nsetup])
            ok = ok and s.send({"method": "run", "input": ":verif_nosuch_setup", "id": 899999})
            got, st = s.read_until(lambda v: v.get("id") == 899999 and session.resp_kind(v) == "run_command", timeout=STEP_TIMEOUT) if ok else ([], "dead")
            nresp = len([g for g in got[:-1] if session.resp_kind(g) not in ("printed", "printed_stderr")])
            if st != "ok" or nresp != nsetup:
                err = s.stderr_text()
                detail = {"step": "setup", "responses": nresp, "wanted": nsetup, "stderr": err[-800:]}
                if st == "dead" or "panicked at" in err:
                    return {"status": "violated", "sig": "session-died:%s" % core.panic_sig(err.replace(sc.dir, "@S@")), "detail": detail, "keys": keys, "failed_at": nsetup - 1}
                if st == "ok":
                    return {"status": "violated", "sig": "response-count:setup:%d" % nresp, "detail": detail, "keys": keys, "failed_at": nsetup - 1}
                return {"status": "inconclusive", "detail": detail, "keys": keys}
            state = "idle@toplevel"
        for i, step in enumerate(steps):
            if i < nsetup:
                continue
            k = step["k"]
            sent_id = 900000 + i
            ok = True
            if k in ("req", "busy"):
                ok = s.send(_sub(step["body"], sc.dir))
            elif k == "raw":
                ok = s.send(_sub(step["body"], sc.dir).encode("utf-8"))
            elif k == "rawbytes":
                ok = s.send(bytes.fromhex(step["hex"]))
            elif k == "junk":
                ok = s.send_raw((step["line"] + "\n").encode("utf-8"))
            if ok and k in ("busy", "interrupt"):
                ok = s.send({"method": "interrupt"})
            if ok:
                ok = s.send({"method": "run", "input": ":verif_nosuch_%d" % i, "id": sent_id})

            def is_sentinel(v, sid=sent_id, i=i):
                return v.get("id") == sid and session.resp_kind(v) == "run_command" and \
                    (":verif_nosuch_%d" % i) in (session.resp_body(v).get("message") or "")

            got = []
            st = "dead"
            if ok:
                deadline = time.time() + (QUIET if k in ("req", "raw", "rawbytes") else STEP_TIMEOUT)
                while True:
                    part, st = s.read_until(is_sentinel, timeout=0.3)
                    got += part
                    if st != "timeout":
                        break
                    if "panicked at" in s.stderr_text() or time.time() > deadline or not s.alive():
                        break
            nudged = False
            if st == "timeout" and s.alive() and "panicked at" not in s.stderr_text() and k in ("req", "raw", "rawbytes"):
                # Silent but alive: is the session evaluating (an earlier interrupted loop resumed by this request)?
                # Logical test: an interrupt must then produce the missing response.
                nudged = True
                if s.send({"method": "interrupt"}):
                    part, st = s.read_until(is_sentinel, timeout=STEP_TIMEOUT)
                    got += part
            if st != "ok":
                err = s.stderr_text()
                detail = {"step": i, "label": step["label"], "state_before": state, "stderr": err[-1200:],
                          "responses_before_silence": [describe(g) for g in got][-6:]}
                if st == "dead" or "panicked at" in err or not s.alive():
                    return {"status": "violated", "sig": "session-died:%s" % core.panic_sig(err.replace(sc.dir, "@S@")), "detail": detail, "keys": keys, "failed_at": i}
                if nudged:
                    return {"status": "violated", "sig": "no-response:%s" % step["label"], "detail": dict(detail, note="silent, alive, and an interrupt did not produce the response"), "keys": keys, "failed_at": i}
                return {"status": "inconclusive", "detail": dict(detail, note="silent but alive"), "keys": keys, "failed_at": i}
            workers, acks = [], 0
            for g in got[:-1]:
                kind = session.resp_kind(g)
                if kind in ("printed", "printed_stderr"):
                    continue
                if kind == "interrupted" and session.resp_body(g).get("stack_frame_name") is None:
                    acks += 1
                    continue
                workers.append(g)
            want_workers = 0 if k == "interrupt" else 1
            want_acks = (1 if k in ("busy", "interrupt") else 0) + (1 if nudged else 0)
            detail = {"step": i, "label": step["label"], "state_before": state,
                      "responses": [describe(g) for g in workers], "acks": acks}
            if nudged and acks == want_acks - 1 and len(workers) == want_workers:
                # The wall-clock nudge can race with a response that was merely slow: the reader thread then acks the
                # interrupt AFTER the sentinel's answer and leaves a stale interrupt flag behind. That is an artefact of
                # the harness, not of the session: the case is abandoned as inconclusive, never judged.
                part, _st = s.read_until(lambda v: session.resp_kind(v) == "interrupted" and
                                         session.resp_body(v).get("stack_frame_name") is None, timeout=5.0)
                return {"status": "inconclusive", "detail": dict(detail, note="nudge raced with a slow response",
                                                                 trailing=[describe(g) for g in part][-3:]), "keys": keys}
            if len(workers) != want_workers:
                return {"status": "violated", "sig": "response-count:%s:%d" % (step["label"], len(workers)), "detail": detail, "keys": keys, "failed_at": i}
            if acks != want_acks:
                return {"status": "violated", "sig": "interrupt-ack-count:%s:%d" % (step["label"], acks), "detail": detail, "keys": keys, "failed_at": i}
            if workers:
                w = workers[0]
                rid = w.get("id")
                body_id = step["body"].get("id") if isinstance(step.get("body"), dict) else None
                if rid is not None and rid != body_id:
                    return {"status": "violated", "sig": "wrong-id:%s" % step["label"], "detail": dict(detail, got_id=rid, want_id=body_id), "keys": keys, "failed_at": i}
                d = describe(w)
                keys.add("%s | %s | %s" % (step["label"], state, d))
                fr = frame_class(session.resp_body(w).get("stack_frame_name"))
                if d == "evaluate:err":
                    state = "err@" + fr
                elif d == "interrupted":
                    state = "interrupted@" + fr
                elif step["label"].startswith("cmd::abort"):
                    state = "aborted"
                elif d == "evaluate:ok":
                    state = "ok@" + fr
                elif d == "run_command":
                    state = state if state.startswith(("err@", "interrupted@")) and fr != "toplevel" else "idle@" + fr
                else:
                    state = "other@" + fr
            else:
                keys.add("%s | %s | ack" % (step["label"], state))
                state = "flag-set"
        # liveness at the end
        time.sleep(0.01)
        if not s.alive() or "panicked at" in s.stderr_text():
            return {"status": "violated", "sig": "session-died-at-end:%s" % core.panic_sig(s.stderr_text().replace(sc.dir, "@S@")), "detail": {"stderr": s.stderr_text()[-800:]}, "keys": keys, "failed_at": len(steps) - 1}
        return {"status": "held", "keys": keys}
    finally:
        s.close()


def minimise(steps, res, sc_factory):
    """Shortest suffix (plus the definitions at the front) that still gives the same signature."""
    upto = res.get("failed_at", len(steps) - 1)
    steps = steps[:upto + 1]
    ndefs = 0
    for st in steps:
        if st.get("setup"):
            ndefs += 1
        else:
            break
    best = steps
    for k in (1, 2, 3, 4, 6, 8, 12):
        if k >= len(steps) - ndefs:
            break
        cand = steps[:ndefs] + steps[-k:]
        with sc_factory() as sc:
            r = run_history(cand, sc)
        if r["status"] == "violated" and r.get("sig") == res.get("sig"):
            best = cand
            break
    return best


def run_batch(cases):
    out = []
    for c in cases:
        steps = steps_of(c)
        with core.Scratch("gm-c09-") as sc:
            r = run_history(steps, sc)
        keys = sorted(r.get("keys") or [])
        if r["status"] == "held":
            out.append({"status": "held", "key": keys[0] if keys else None, "_keys": keys})
        elif r["status"] == "violated":
            # a signature that is already listed as an open finding is not minimised again
            listed = findings.match(findings.load(ID), r.get("sig")) is not None
            small = steps[:r.get("failed_at", len(steps) - 1) + 1] if listed else minimise(steps, r, lambda: core.Scratch("gm-c09m-"))
            shown = [s.get("body", s.get("line", s.get("hex", s["k"]))) if s["k"] != "busy" else {"busy": s["body"]} for s in small if not s.get("setup")]
            out.append({"status": "violated", "key": keys[0] if keys else None, "_keys": keys, "sig": r["sig"],
                        "case": {"steps": small},
                        "detail": dict(r["detail"], reproducer_after_defs=shown[-14:])})
        else:
            out.append({"status": "inconclusive", "key": None, "_keys": keys, "detail": r.get("detail")})
    # the framework counts one key per case: pick one step key per history (rotating), and log all of them to
    # the coverage file that extra_evidence() merges.
    allk = set()
    for n, o in enumerate(out):
        ks = o.pop("_keys", [])
        allk.update(ks)
        if ks and o["status"] != "inconclusive":
            o["key"] = ks[(int(core.sha(ks), 16) + n) % len(ks)]
    path = os.environ.get("GM_C09_COVERAGE")
    if path and allk:
        try:
            with open(path, "a", encoding="utf-8") as f:
                f.write("".join(k + "\n" for k in sorted(allk)))
        except OSError:
            pass
    return out


_COV = {}


def prepare(tier, seed):
    sc = core.Scratch("gm-c09cov-")
    _COV["sc"] = sc
    os.environ["GM_C09_COVERAGE"] = os.path.join(sc.dir, "keys.txt")


def extra_evidence():
    path = os.environ.get("GM_C09_COVERAGE")
    keys = set()
    try:
        for line in open(path, encoding="utf-8"):
            if line.strip():
                keys.add(line.rstrip("\n"))
    except OSError:
        pass
    if _COV.get("sc"):
        _COV["sc"].close()
    labels = sorted(set(k.split(" | ")[0] for k in keys))
    return {"distinct_step_keys": len(keys), "step_key_rule": "(request label, session state before, response kind)",
            "request_labels_seen": labels, "step_key_samples": sorted(keys)[:60]}
