"""C32 Prelude string and list functions match their specification.

Oracle: gm.ref.blib (Python, written from the doc comments of src/__prelude.gdn). Where the doc comments
determine the result the printed Garden value must read back (gm.ref.bval.read) as exactly that value;
where they are silent (empty needle of replace/split/split_once, negative or reversed indexes,
white space other than " ", "\\r" in lines) the call only has to end with a value or a Garden error.
Termination is judged in logical time: a call that does not answer within the watchdog is re-run alone
under `garden playground-run` (tick limit 100000); "Reached the tick limit" on these tiny inputs is
non-termination.

A case is a row: one function, one receiver / first argument, and a list of remaining-argument
tuples, evaluated as one list expression (and call by call when the row does not evaluate).
"""
import itertools
import random

from ..gen import b_sess
from ..gen import b_values as gv
from ..ref import blib
from ..ref import bval

ID = "C32"
LEVEL = "exploration"
RULE = ("case = one function x one receiver x a row of argument tuples; exhaustive part: strings up to length 3 "
        "(thorough: 4) over {a, b, space, ',', e-acute, emoji} x needles up to length 2 incl. empty for the two-string "
        "methods, lists of length <= 4 over {-1,0,1,2}, indexes -2..6 and i64 extremes; random part: longer strings "
        "over a wider alphabet with needles cut out of the string, random int lists incl. extremes; "
        "distinct key = (function, receiver class, argument class, expected outcome class)")
ASSUME = ["gm/ref/blib.py is a faithful reading of the doc comments in src/__prelude.gdn; cases the comments do not "
          "determine are only required to terminate with a value or a Garden error",
          "100000 interpreter ticks are far more than any terminating call on inputs of <= 6 characters needs"]
BATCH = 24
FLOOR = {"quick": 250, "thorough": 500}
BUDGET = {"quick": 32, "thorough": 700}

ALPHA = ["a", "b", " ", ",", "\u00e9", "\U0001F600"]
MIN, MAX = bval.MIN, bval.MAX
IDX = [-2, -1, 0, 1, 2, 3, 4, 5, 6, MIN, MAX]
INTS4 = [-1, 0, 1, 2]


def strings(maxlen, alpha=ALPHA):
    return list(gv.strings_exhaustive(maxlen, alpha))


def int_lists(maxlen, alpha=INTS4):
    out = []
    for n in range(maxlen + 1):
        for t in itertools.product(alpha, repeat=n):
            out.append(list(t))
    return out


def ssrc(s):
    return bval.str_src(s, safe=False)


def lsrc(items):
    return "[" + ", ".join(str(x) for x in items) + "]"


def slsrc(items):
    return "[" + ", ".join(ssrc(x) for x in items) + "]"


IL = lambda xs: [["int", x] for x in xs]

# name -> (source builder(recv, args), reference(recv, args), receiver kind)
FUNCS = {
    "starts_with": (lambda r, a: "%s.starts_with(%s)" % (ssrc(r), ssrc(a[0])), lambda r, a: blib.starts_with(r, a[0])),
    "ends_with": (lambda r, a: "%s.ends_with(%s)" % (ssrc(r), ssrc(a[0])), lambda r, a: blib.ends_with(r, a[0])),
    "contains": (lambda r, a: "%s.contains(%s)" % (ssrc(r), ssrc(a[0])), lambda r, a: blib.contains(r, a[0])),
    "index_of": (lambda r, a: "%s.index_of(%s)" % (ssrc(r), ssrc(a[0])), lambda r, a: blib.str_index_of(r, a[0])),
    "split": (lambda r, a: "%s.split(%s)" % (ssrc(r), ssrc(a[0])), lambda r, a: blib.split(r, a[0])),
    "split_once": (lambda r, a: "%s.split_once(%s)" % (ssrc(r), ssrc(a[0])), lambda r, a: blib.split_once(r, a[0])),
    "strip_prefix": (lambda r, a: "%s.strip_prefix(%s)" % (ssrc(r), ssrc(a[0])), lambda r, a: blib.strip_prefix(r, a[0])),
    "strip_suffix": (lambda r, a: "%s.strip_suffix(%s)" % (ssrc(r), ssrc(a[0])), lambda r, a: blib.strip_suffix(r, a[0])),
    "replace": (lambda r, a: "%s.replace(%s, %s)" % (ssrc(r), ssrc(a[0]), ssrc(a[1])), lambda r, a: blib.replace(r, a[0], a[1])),
    "join": (lambda r, a: "%s.join(%s)" % (ssrc(r), slsrc(a[0])), lambda r, a: blib.join(r, a[0])),
    "trim_left": (lambda r, a: "%s.trim_left()" % ssrc(r), lambda r, a: blib.trim_left(r)),
    "trim_right": (lambda r, a: "%s.trim_right()" % ssrc(r), lambda r, a: blib.trim_right(r)),
    "trim": (lambda r, a: "%s.trim()" % ssrc(r), lambda r, a: blib.trim(r)),
    "chars": (lambda r, a: "%s.chars()" % ssrc(r), lambda r, a: blib.chars(r)),
    "len": (lambda r, a: "%s.len()" % ssrc(r), lambda r, a: blib.str_len(r)),
    "lines": (lambda r, a: "%s.lines()" % ssrc(r), lambda r, a: blib.lines(r)),
    "substring": (lambda r, a: "%s.substring(%d, %d)" % (ssrc(r), a[0], a[1]), lambda r, a: blib.substring(r, a[0], a[1])),
    "list.get": (lambda r, a: "%s.get(%d)" % (lsrc(r), a[0]), lambda r, a: blib.list_get(IL(r), a[0])),
    "list.len": (lambda r, a: "%s.len()" % lsrc(r), lambda r, a: blib.list_len(IL(r))),
    "list.first": (lambda r, a: "%s.first()" % lsrc(r), lambda r, a: blib.first(IL(r))),
    "list.last": (lambda r, a: "%s.last()" % lsrc(r), lambda r, a: blib.last(IL(r))),
    "list.enumerate": (lambda r, a: "%s.enumerate()" % lsrc(r), lambda r, a: blib.enumerate_(IL(r))),
    "list.is_empty": (lambda r, a: "%s.is_empty()" % lsrc(r), lambda r, a: blib.is_empty(IL(r))),
    "list.is_non_empty": (lambda r, a: "%s.is_non_empty()" % lsrc(r), lambda r, a: blib.is_non_empty(IL(r))),
    "list.slice": (lambda r, a: "%s.slice(%d, %d)" % (lsrc(r), a[0], a[1]), lambda r, a: blib.list_slice(IL(r), a[0], a[1])),
    "list.concat": (lambda r, a: "%s.concat(%s)" % (lsrc(r), lsrc(a[0])), lambda r, a: blib.concat(IL(r), IL(a[0]))),
    "list.append": (lambda r, a: "%s.append(%d)" % (lsrc(r), a[0]), lambda r, a: blib.append(IL(r), ["int", a[0]])),
    "list.contains": (lambda r, a: "%s.contains(%d)" % (lsrc(r), a[0]), lambda r, a: blib.list_contains(IL(r), ["int", a[0]])),
    "list.index_of": (lambda r, a: "%s.index_of(%d)" % (lsrc(r), a[0]), lambda r, a: blib.list_index_of(IL(r), ["int", a[0]])),
    "list.map": (lambda r, a: "%s.map(%s)" % (lsrc(r), blib.MAP_FUNS[a[0]][0]), lambda r, a: blib.list_map(r, a[0])),
    "list.filter": (lambda r, a: "%s.filter(%s)" % (lsrc(r), blib.FILTER_FUNS[a[0]][0]), lambda r, a: blib.list_filter(r, a[0])),
    "sort_nums": (lambda r, a: "sort_nums(%s)" % lsrc(r), lambda r, a: blib.sort_nums(r)),
    "range": (lambda r, a: "range(%d, %d)" % (r, a[0]), lambda r, a: blib.range_(r, a[0])),
    "max": (lambda r, a: "max(%d, %d)" % (r, a[0]), lambda r, a: blib.max_(r, a[0])),
    "min": (lambda r, a: "min(%d, %d)" % (r, a[0]), lambda r, a: blib.min_(r, a[0])),
    # values other than ints (== on items)
    "slist.index_of": (lambda r, a: "%s.index_of(%s)" % (slsrc(r), ssrc(a[0])),
                       lambda r, a: blib.list_index_of([["str", x] for x in r], ["str", a[0]])),
    "slist.contains": (lambda r, a: "%s.contains(%s)" % (slsrc(r), ssrc(a[0])),
                       lambda r, a: blib.list_contains([["str", x] for x in r], ["str", a[0]])),
    # elements that are compound values containing empty lists built in different ways: [abstract value, source]
    "vlist.contains": (lambda r, a: "[%s].contains(%s)" % (", ".join(x[1] for x in r), a[0][1]),
                       lambda r, a: blib.list_contains([x[0] for x in r], a[0][0])),
    "vlist.index_of": (lambda r, a: "[%s].index_of(%s)" % (", ".join(x[1] for x in r), a[0][1]),
                       lambda r, a: blib.list_index_of([x[0] for x in r], a[0][0])),
}
TWO_STRING = ["starts_with", "ends_with", "contains", "index_of", "split", "split_once", "strip_prefix", "strip_suffix"]
UNARY_STR = ["trim_left", "trim_right", "trim", "chars", "len"]
UNARY_LIST = ["list.len", "list.first", "list.last", "list.enumerate", "list.is_empty", "list.is_non_empty", "sort_nums"]


ROW = 60


# the empty list, built in ways that give it different inferred element types
EMPTIES = ["[]", "[7].slice(1, 1)", "[].append(1).slice(0, 0)", "range(0, 0)", "[1].filter(fun(_: Int) { False })",
           "[\"a\"].slice(1, 1)", "\"\".split(\",\")", "[1.5].slice(0, 0)", "[[1]].slice(1, 1)"]
EMPTY = ["list", []]
WRAPS = [
    ("tuple2", lambda v: ["tuple", [["int", 1], v]], "(1, %s)"),
    ("tuple1", lambda v: ["tuple", [v]], "(%s,)"),
    ("tuple-nested", lambda v: ["tuple", [["tuple", [v, ["str", "a"]]], ["int", 2]]], "((%s, \"a\"), 2)"),
    ("list", lambda v: ["list", [v]], "[%s]"),
    ("list2", lambda v: ["list", [v, v]], "[%s, %s]"),
    ("some", lambda v: ["enum", "Some", v], "Some(%s)"),
    ("ok", lambda v: ["enum", "Ok", v], "Ok(%s)"),
    ("some-tuple", lambda v: ["enum", "Some", ["tuple", [v, ["int", 0]]]], "Some((%s, 0))"),
    ("dict", lambda v: ["dict", [["k", v]]], "Dict[\"k\" => %s]"),
    ("bare", lambda v: v, "%s"),
]


def empties_rows(n=ROW):
    """contains / index_of where the needle equals an element but its empty lists were built differently,
    plus near misses (a non-empty list in the same place)."""
    cur = {"vlist.contains": [], "vlist.index_of": []}
    for wname, wabs, wsrc in WRAPS:
        k = wsrc.count("%s")
        for e1 in EMPTIES:
            for e2 in EMPTIES:
                el = [wabs(EMPTY), wsrc % ((e1,) * k)]
                miss = [wabs(["list", [["int", 7]]]), wsrc % (("[7]",) * k)]
                needle = [wabs(EMPTY), wsrc % ((e2,) * k)]
                for f in cur:
                    cur[f].append([[miss, el], [needle]])
                    cur[f].append([[el, miss], [miss]])
                    if len(cur[f]) >= n:
                        yield {"f": f, "calls": cur[f]}
                        cur[f] = []
    for f in cur:
        if cur[f]:
            yield {"f": f, "calls": cur[f]}


def rows(f, recvs, argtuples, n=ROW):
    """Rows of up to n calls of f over recvs x argtuples (receiver-major order)."""
    cur = []
    for r in recvs:
        for t in argtuples:
            cur.append([r, list(t)])
            if len(cur) >= n:
                yield {"f": f, "calls": cur}
                cur = []
    if cur:
        yield {"f": f, "calls": cur}


def gen_cases(tier, seed):
    slen = 3 if tier == "quick" else 4
    needles = strings(2)
    S = strings(slen)
    # a deterministic interleaving keeps every function represented when the budget cuts the run short
    gens = []

    def G(f, recvs, argtuples, n=ROW):
        gens.append(rows(f, list(recvs), list(argtuples), n))

    gens.append(empties_rows(120))
    for f in TWO_STRING:
        G(f, S, [(n,) for n in needles])
    G("replace", strings(slen - 1), [(n, a) for n in needles for a in ("", "x", "\u00e9,")])
    items = [list(t) for k in range(4) for t in itertools.product(["", "a", ",", "\u00e9"], repeat=k)]
    G("join", needles, [(it,) for it in items])
    for f in UNARY_STR:
        G(f, strings(slen + 1 if tier != "quick" else slen), [()])
    G("lines", strings(4 if tier == "quick" else 5, ["a", "\n", " ", "\u00e9"]), [()])
    for f in ("trim", "trim_left", "trim_right"):
        G(f, strings(3, ["a", " ", "\t", "\n"]), [()])
    G("substring", strings(3, ["a", "\u00e9", "\U0001F600"]), [(i, j) for i in IDX for j in IDX])
    lists4 = int_lists(4)
    for f in UNARY_LIST:
        G(f, lists4, [()])
    G("list.get", lists4, [(i,) for i in IDX])
    G("list.slice", int_lists(3 if tier == "quick" else 4), [(i, j) for i in IDX for j in IDX])
    G("list.concat", int_lists(2), [(m,) for m in int_lists(2)])
    for f in ("list.append", "list.contains", "list.index_of"):
        G(f, int_lists(3), [(x,) for x in (-1, 0, 1, 2, 3, MIN, MAX)])
    G("list.map", int_lists(3) + [[MAX, MIN, 0]], [(k,) for k in sorted(blib.MAP_FUNS)])
    G("list.filter", int_lists(3) + [[MAX, MIN, 0]], [(k,) for k in sorted(blib.FILTER_FUNS)])
    small = list(range(-2, 7))
    G("range", small, [(j,) for j in small])
    G("range", [MAX - 2], [(MAX,), (MAX - 1,), (MIN,), (0,)])
    G("range", [MIN], [(MIN + 3,), (MIN,)])
    G("range", [MAX], [(MAX,), (MIN,)])
    edge = [0, 1, -1, 2, MIN, MIN + 1, MAX, MAX - 1]
    for f in ("max", "min"):
        G(f, edge, [(j,) for j in edge])
    sl = [list(t) for k in range(4) for t in itertools.product(["", "a", "A", "\u00e9"], repeat=k)]
    for f in ("slist.index_of", "slist.contains"):
        G(f, sl, [(x,) for x in ("", "a", "A", "\u00e9", "b")])
    live = list(gens)
    while live:
        nxt = []
        for g in live:
            c = next(g, None)
            if c is not None:
                yield c
                nxt.append(g)
        live = nxt
    yield {"_marker": "small-scope", "string_len": slen, "needle_len": 2, "alphabet": ["a", "b", " ", ",", "e-acute", "emoji"],
           "list_len": 4, "list_items": INTS4, "indexes": IDX, "functions": len(FUNCS)}

    rng = random.Random(seed * 104729 + 32)
    wide = ["a", "b", "c", " ", " ", ",", ".", "/", "\n", "\t", "\r", "\u00e9", "\U0001F600", "\u0301", "\u00a0", "\\", "\"", "ab", "aa"]
    while True:
        k = rng.random()
        if k < 0.45:
            f = rng.choice(TWO_STRING + ["replace"])
            s = "".join(rng.choice(wide) for _ in range(rng.randint(0, 12)))
            args = []
            for _ in range(12):
                if s and rng.random() < 0.6:
                    i = rng.randrange(len(s))
                    n = s[i:i + rng.randint(1, 3)]
                else:
                    n = "".join(rng.choice(wide) for _ in range(rng.randint(0, 3)))
                args.append((n, rng.choice(["", "x", n + n, "é"])) if f == "replace" else (n,))
            yield {"f": f, "calls": [[s, list(t)] for t in args]}
        elif k < 0.6:
            f = rng.choice(UNARY_STR + ["lines", "lines"])
            yield {"f": f, "calls": [["".join(rng.choice(wide) for _ in range(rng.randint(0, 14))), []] for _ in range(10)]}
        elif k < 0.7:
            s = "".join(rng.choice(wide) for _ in range(rng.randint(0, 10)))
            yield {"f": "substring", "calls": [[s, [rng.choice(IDX + [7, 8, 9]), rng.choice(IDX + [7, 8, 9, 10])]] for _ in range(12)]}
        elif k < 0.85:
            l = [gv.rand_int(rng) if rng.random() < 0.3 else rng.randint(-3, 6) for _ in range(rng.randint(0, 12))]
            f = rng.choice(UNARY_LIST + ["sort_nums", "sort_nums", "list.get", "list.slice", "list.contains", "list.index_of"])
            if f == "list.get":
                args = [[rng.choice(IDX + [7, 11, 12])] for _ in range(8)]
            elif f == "list.slice":
                args = [[rng.choice(IDX + [7, 11, 12]), rng.choice(IDX + [-3, -12, 12, 13])] for _ in range(10)]
            elif f in ("list.contains", "list.index_of"):
                args = [[rng.choice(l + [7])] for _ in range(6)]
            else:
                args = [[]]
            yield {"f": f, "calls": [[l, a] for a in args]}
        elif k < 0.93:
            l = [gv.rand_int(rng) if rng.random() < 0.3 else rng.randint(-3, 6) for _ in range(rng.randint(0, 8))]
            f = rng.choice(["list.map", "list.filter"])
            yield {"f": f, "calls": [[l, [k2]] for k2 in sorted(blib.MAP_FUNS if f == "list.map" else blib.FILTER_FUNS)]}
        else:
            i = rng.choice([rng.randint(-50, 50), MAX - rng.randint(0, 40), MIN + rng.randint(0, 40)])
            js = [max(MIN, min(MAX, i + rng.randint(-5, 60))) for _ in range(4)]
            yield {"f": "range", "calls": [[i, [j]] for j in js]}


# ----------------------------------------------------------------------------- coverage classes

def _scls(s):
    if not isinstance(s, str):
        return "x"
    return "%d%s" % (min(len(s), 5), "u" if any(ord(c) > 127 for c in s) else "")


def arg_class(f, r, a):
    if f.startswith("vlist."):
        return "%s@%d" % (bval.shape(a[0][0], 2), [bval.equal(x[0], a[0][0]) for x in r].index(True) if any(bval.equal(x[0], a[0][0]) for x in r) else -1)
    if isinstance(r, str):
        rc = _scls(r)
        if a and isinstance(a[0], str):
            n = a[0]
            rel = "empty" if n == "" else ("longer" if len(n) > len(r) else
                                          ("at0" if r.startswith(n) else ("end" if r.endswith(n) else ("in" if n in r else "absent"))))
            return "%s/%s%s" % (rc, rel, "+multi" if n and r.count(n) > 1 else "")
        if a and isinstance(a[0], int):
            return "%s/%s" % (rc, ",".join(_icls(x, len(r)) for x in a))
        if a and isinstance(a[0], list):
            return "%s/items%d" % (rc, min(len(a[0]), 3))
        return rc
    if isinstance(r, list):
        rc = "n%d" % min(len(r), 5)
        if a and isinstance(a[0], int):
            return "%s/%s" % (rc, ",".join(_icls(x, len(r)) for x in a))
        if a and isinstance(a[0], list):
            return "%s/n%d" % (rc, min(len(a[0]), 3))
        if a:
            return "%s/%s" % (rc, a[0])
        return rc
    return "%s/%s" % (_icls(r, 0), ",".join(_icls(x, 0) for x in a))


def _icls(x, n):
    if x in (MIN, MAX) or abs(x) > (1 << 62):
        return "edge"
    if x < 0:
        return "neg"
    if x == 0:
        return "0"
    if x < n:
        return "in"
    if x == n:
        return "len"
    return "past"


def out_class(exp):
    if exp[0] == "weak":
        return "weak"
    v = exp[1]
    if v[0] == "list":
        return "list%d" % min(len(v[1]), 4)
    if v[0] == "enum":
        return v[1]
    if v[0] == "str":
        return "str%d" % min(len(v[1]), 4)
    return v[0]


# ----------------------------------------------------------------------------- running

def _judge_call(f, r, a, exp, res, src):
    """res: ("ok", text) | ("err", msg) | ("tick",) ... -> result dict"""
    key = "%s %s -> %s" % (f, arg_class(f, r, a), out_class(exp))
    if res[0] == "crash":
        return {"status": "violated", "key": key, "sig": "crash:" + res[1], "detail": {"src": src, "stderr": res[2]}}
    if res[0] == "tick":
        return {"status": "violated", "key": key, "sig": "does-not-terminate:%s" % f,
                "detail": {"src": src, "observed": "Reached the tick limit (100000) under playground-run"}}
    if res[0] not in ("ok", "okv", "err"):
        return {"status": "inconclusive", "key": None, "detail": {"src": src, "observed": list(res[:2])}}
    if exp[0] == "weak":
        return {"status": "held", "key": key + (" error" if res[0] == "err" else " value")}
    if res[0] == "err":
        return {"status": "violated", "key": key, "sig": "unexpected-error:%s" % f,
                "detail": {"src": src, "expected": bval.src(exp[1], safe=False), "observed": list(res[:2])}}
    try:
        got = res[1] if res[0] == "okv" else bval.read(res[1])
        ok = bval.equal(got, exp[1])
    except bval.ReadError:
        ok = False
    if ok:
        return {"status": "held", "key": key}
    return {"status": "violated", "key": key, "sig": "wrong-result:%s" % f,
            "detail": {"src": src, "expected": bval.src(exp[1], safe=False),
                       "observed": (bval.src(res[1], safe=False) if res[0] == "okv" else res[1])[:600]}}


def _isolate(src):
    """Run one call alone under the sandbox's tick limit."""
    p = b_sess.playground(src, timeout=60)
    if p[0] == "value":
        return ("ok", p[1])
    if p[0] == "error":
        if "tick limit" in (p[1] or ""):
            return ("tick",)
        return ("err", p[1])
    if p[0] == "crash":
        return p
    return ("timeout",)


ROW_TIMEOUT = 6
MAX_ISOLATED = 8


def _row_play(calls, k):
    return _isolate("[" + ", ".join(x[2] for x in calls[:k]) + "]")


def _lazy_isolated(calls):
    """A row that did not answer in the shared session: find, in logical time, the first call that
    exhausts the sandbox tick limit (binary search over prefixes of the row), else judge what the
    sandbox computed."""
    n = len(calls)
    whole = _row_play(calls, n)
    if whole[0] == "ok":
        try:
            v = bval.read(whole[1])
            if v[0] == "list" and len(v[1]) == n:
                for x in v[1]:
                    yield ("okv", x)
                return
        except bval.ReadError:
            pass
    if whole[0] == "tick":
        lo, hi = 0, n          # prefix(lo) finishes, prefix(hi) does not
        while hi - lo > 1:
            mid = (lo + hi) // 2
            if _row_play(calls, mid)[0] == "tick":
                hi = mid
            else:
                lo = mid
        alone = _isolate(calls[hi - 1][2])
        for k in range(n):
            if k == hi - 1:
                yield alone if alone[0] == "tick" else ("timeout",)
                return
            yield ("timeout",) if k >= hi else ("skip",)
        return
    # an error or a crash inside the row: call by call, bounded
    for k, x in enumerate(calls):
        yield _isolate(x[2]) if k < MAX_ISOLATED else ("timeout",)


def run_batch(cases):
    plan = []
    for c in cases:
        build, ref = FUNCS[c["f"]]
        calls = []
        for r, a in c["calls"]:
            exp = ref(r, a)
            if exp is None:
                continue
            calls.append((r, a, build(r, a), exp))
        plan.append(calls)
    row_srcs = ["[" + ", ".join(x[2] for x in calls) + "]" for calls in plan]
    outs = [None] * len(cases)
    todo = list(range(len(cases)))
    suspects = set()
    for _ in range(3):
        if not todo:
            break
        got = b_sess.eval_many([row_srcs[i] for i in todo], timeout=ROW_TIMEOUT, max_timeouts=1)
        nxt = []
        for i, o in zip(todo, got):
            if o["res"][0] == "timeout":
                suspects.add(cases[i]["f"])
                outs[i] = o
            elif o["res"][0] == "skipped":
                nxt.append(i)
            else:
                outs[i] = o
        # rows of a function that already hung are not sent to a shared session again
        todo = []
        for i in nxt:
            if cases[i]["f"] in suspects:
                outs[i] = {"res": ("timeout",), "out": "", "err": ""}
            else:
                todo.append(i)
    for i in todo:
        outs[i] = {"res": ("skipped",), "out": "", "err": ""}
    results = []
    for c, calls, o in zip(cases, plan, outs):
        r = o["res"]
        per_call = None
        if r[0] == "ok":
            try:
                v = bval.read(r[1])
                if v[0] == "list" and len(v[1]) == len(calls):
                    per_call = [("okv", x) for x in v[1]]
            except bval.ReadError:
                per_call = None
        if per_call is None:
            # an error, a crash or a watchdog somewhere in the row: decide call by call
            if r[0] in ("timeout", "skipped"):
                per_call = _lazy_isolated(calls)
            else:
                so = b_sess.eval_many([x[2] for x in calls], timeout=ROW_TIMEOUT, max_timeouts=1)
                per_call = []
                for x, y in zip(calls, so):
                    rr = y["res"]
                    if rr[0] == "timeout":
                        rr = _isolate(x[2])
                    per_call.append(rr)
        verdict = None
        keys = []
        for (rv, a, src, e), rr in zip(calls, per_call):
            if rr[0] == "skip":
                continue
            j = _judge_call(c["f"], rv, a, e, rr, src)
            if j["status"] == "violated":
                verdict = j
                break
            if j["status"] == "inconclusive":
                verdict = verdict or j
            elif j.get("key"):
                keys.append(j["key"])
        if verdict is None:
            ks = sorted(set(keys))
            n = len(row_srcs[0]) + len(str(c["calls"][0]))
            verdict = {"status": "held", "key": ks[n % len(ks)] if ks else None}
        results.append(verdict)
    return results
