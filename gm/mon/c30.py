"""C30 nREPL delivers one final `done` per request, after all its output.

Real server (`garden nrepl --port 0`, one process per case), 1..4 connections x 1..4 sessions, pipelined and
interleaved requests, pseudo-random delays injected at every hand-off point of the server threads.
Oracle = rules R1..R5 of DESIGN.md Appendix B over each connection's client-side transcript
(gm/gen/g_nrepl.py: judge).  The server's event log only explains and supplies the coverage key.
"""
import json
import os
import random

from .. import core
from .. import findings
from ..gen import g_nrepl as G

ID = "C30"
LEVEL = "exploration"
RULE = ("case = one history (1..4 connections x 1..4 sessions; eval / load-file / completions / lookup / interrupt / "
        "close / describe / ls-sessions / unknown ops; evals printing 0, 1, many tagged lines around the 100 ms "
        "flusher period, print-then-fail, print-then-interrupted) run against a fresh `garden nrepl` with seeded "
        "delays (0..60 ms) at the server's hand-off points; non-trivial = at least one eval was answered; distinct = "
        "distinct set of hand-off windows observed in the server's event log (where each interrupt/close store "
        "landed in the worker cycle, flusher ticks/flushes per eval, empty or non-empty final drain)")
ASSUME = ["the client-side transcript is faithful: gm/nreplclient.py decodes bencode correctly and TCP preserves order",
          "delays are injected only at hand-off points (between critical sections), so every observed schedule is "
          "one the unmodified server can produce",
          "a request is called unanswered only with a logical proof (a later request of the same FIFO worker / of "
          "the reader thread was answered, or the worker is dead); a bare watchdog is inconclusive"]
BATCH = 1
FLOOR = {"quick": 25, "thorough": 150}
BUDGET = {"quick": 40, "thorough": 780}
PROFILE = "c30"
MINE = "c30"

CORPUS = os.path.join(core.VERIF, "corpus", ID)


def corpus_cases(prop):
    d = os.path.join(core.VERIF, "corpus", prop)
    out = []
    if os.path.isdir(d):
        for fn in sorted(os.listdir(d)):
            if fn.endswith(".json"):
                try:
                    c = json.load(open(os.path.join(d, fn)))
                    c["corpus"] = fn
                    out.append(c)
                except ValueError:
                    pass
    return out


def gen_cases(tier, seed):
    for c in corpus_cases(ID):
        yield c
    rng = random.Random(seed * 1000003 + 30)
    n = 0
    while True:
        c = G.gen_case(rng, PROFILE)
        c["n"] = n
        n += 1
        yield c


def result_for(case, obs, verdict, mine, prop):
    sig_set = G.coverage_signature(obs) if not obs.get("harness") else set()
    facts = verdict["facts"]
    key = None
    if facts["evals"] > 0:
        key = " ".join(sorted(sig_set)) or "no-event-log"
    viol = verdict[mine]
    if viol:
        known = findings.load(prop)
        # report a violation that is not a known finding first
        viol = sorted(viol, key=lambda v: findings.match(known, v[0]) is not None)
        sig, detail = viol[0]
        detail = dict(detail, other_violations=sorted(set(v[0] for v in viol[1:]))[:8],
                      delays=case.get("delays"), events_tail=G.explain(obs, 40))
        return {"status": "violated", "key": key, "sig": sig, "detail": detail}
    if verdict["inconclusive"]:
        return {"status": "inconclusive", "key": None,
                "detail": {"why": verdict["inconclusive"][:5], "delays": case.get("delays"),
                           "stderr": obs.get("stderr", "")[-500:]}}
    return {"status": "held", "key": key}


def run_case(case, mine, prop):
    obs = G.execute(case)
    verdict = G.judge(case, obs)
    return result_for(case, obs, verdict, mine, prop)


def run_batch(cases):
    return [run_case(c, MINE, ID) for c in cases]
