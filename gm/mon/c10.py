"""C10 `:abort` returns the session to a clean top level.

Twin sessions (both `garden reftest-json-session`):
  A: definitions + top-level lets, then per history: setup definitions, a failing input that stops inside nested
     calls / loops / blocks / match arms / closures / methods / tests, optional extra inputs in the error context,
     `:abort`, probes.
  B: the same definitions, lets and setup definitions, no failing input, no abort; the same probes.
Oracle: every probe gets the same response in A and B (whole response except `id`): locals of the aborted computation
are unknown again, top-level variables intact, `:locals`/`:stack`/`:fvalues`/`:fstmts` show a clean top level,
`:resume` has nothing to resume, fresh evaluations (including a loop and a call) behave as in the fresh session.
Differences found in the batch are confirmed with a fresh pair of sessions running that history alone.
"""
import json
import random
import re

from .. import core
from .. import session
from ..gen import c_errsites as sites
from ..gen import c_sess
from ..gen import c_vocab

ID = "C10"
LEVEL = "exploration"
RULE = ("case = (error site from C07's catalogue, nesting context, extra inputs issued in the error context, probe set); "
        "core sites x every nesting context first, then a seeded random stream. distinct key = (site class, construct, "
        "context, frame the error stopped in, extras); trivial if the failing input does not fail")
ASSUME = ["probes are issued identically to both sessions, so a probe that fails leaves the same pending state in both",
          "definitions made by a history are definitions of the session (made in both twins)"]
BATCH = 40
FLOOR = {"quick": 150, "thorough": 600}
BUDGET = {"quick": 30, "thorough": 780}

LETS = ["let vtopa = 11", 'let vtopb = "top"', "let vtopc = [1, 2, 3]"]
# contexts in which the failing site sits below the top-level scope (its locals are not top-level variables)
EXPR_CTX = ["fun-depth2", "for-loop", "while-loop", "if-branch", "match-arm", "closure", "method-body", "test-body",
            "plus-right", "list", "call-arg-first", "call-arg-last", "method-arg", "bare"]
STMT_CTX = ["fun-depth2-stmt", "for-loop", "while-loop", "if-branch", "closure", "method-body", "test-body"]
LOCALS = ["vl", "vr", "vpa", "vo", "vi", "vk", "vt", "vq", "vcl", "vmp", "vtl", "vn", "va", "vb", "vx", "vh", "vw", "vp", "this"]
EXTRAS = ["1 + 1", "vtopa", ":resume", 'verif_int("s")', ":locals", ":stack", ":skip", ":replace 1", ":forget_local vl",
          "@again", ":fvalues", "vl", ":resume", ":abort", "verif_two(vnosuch, 1)", ":type vtopa", "for vz in [1, 2] { vz }"]
FIXED_PROBES = [":locals", ":stack", ":fvalues", ":fstmts", ":resume", "vtopa", "vtopb", "vtopc.len()"]
FRESH_PROBES = ["vtopa + 1", "verif_two(vtopa, 2)", "for vz in [1, 2] { println(string_repr(vz)) } vtopa",
                "let vnew = vtopa * 2 vnew", "verif_call0(fun() { vtopa })", "if vtopa > 1 { vtopb } else { \"no\" }",
                'VPoint{ x: vtopa, y: vtopb }.verif_m(3)', "match Some(vtopa) { Some(vv) => vv None => 0 }",
                "vtopa = vtopa + 1 vtopa", ":globals", ":funs", "{ let vblk = 1 vblk + vtopa }", "verif_id(vnosuch)"]


def contexts_for(site):
    return STMT_CTX if site["stmt"] else EXPR_CTX


def gen_cases(tier, seed):
    vocab = c_vocab.vocabulary()
    rng = random.Random(seed * 7919 + 10)
    n = 0
    lang = [s for s in sites.core_sites(vocab) if s["cls"] not in ("builtin-fun", "builtin-method", "operator")]
    for s in lang:
        for c in contexts_for(s):
            if c in ("plus-right", "list", "call-arg-first", "call-arg-last", "method-arg", "bare") and rng.random() < 0.6:
                continue
            n += 1
            yield mk(s, c, n, rng, few=True)
    yield {"_marker": "language-sites-x-nesting-contexts", "sites": len(lang)}
    allsites = sites.all_sites(vocab)
    while True:
        s = rng.choice(allsites if rng.random() < 0.5 else lang)
        n += 1
        yield mk(s, rng.choice(contexts_for(s)), n, rng, few=False)


def mk(site, ctx, n, rng, few):
    k = rng.choice([0, 0, 1, 2]) if few else rng.choice([0, 1, 2, 3, 5])
    extras = [rng.choice(EXTRAS) for _ in range(k)]
    probes = list(FIXED_PROBES) + rng.sample(LOCALS, 4) + rng.sample(FRESH_PROBES, 3)
    rng.shuffle(probes)
    return {"site": site, "ctx": ctx, "n": n, "extras": extras, "probes": probes}


def embed(case, scratch_dir):
    """-> (setup requests for both twins, failing request, is_test)"""
    site, ctx, n = case["site"], case["ctx"], case["n"]
    sub = lambda s: s.replace("@S@", scratch_dir)
    if ctx == "test-body":
        src = sub("test vt%d { let vtl = 1 %s }" % (n, site["src"]))
        load = {"method": "load", "input": src, "path": "__user.gdn", "offset": 0, "end_offset": len(src.encode("utf-8"))}
        return [load], c_sess.run(":test vt%d" % n)
    setup, run = sites.embed(site, ctx, n)
    return [c_sess.run(sub(x)) for x in setup], c_sess.run(sub(run))


SYNTAX_ID = re.compile(r"SyntaxId\(\d+\)")


def strip(resp):
    """Drop the request id and the parser's running node counter (`:fstmts` prints AST nodes with `{:#?}`)."""
    r = json.loads(SYNTAX_ID.sub("SyntaxId(_)", json.dumps(resp)))
    r.pop("id", None)
    return r


def run_twins(cases, sc):
    """-> per case None | {"a": [...probe responses], "b": [...], "r1": summary, "crash": ...}"""
    out = [None] * len(cases)
    start = 0
    while start < len(cases):
        head = [c_sess.run(x.replace("@S@", sc.dir)) for x in sites.PRELUDE] + [c_sess.run(x) for x in LETS]
        A, B = list(head), list(head)
        spans = []
        for c in cases[start:]:
            setup, fail = embed(c, sc.dir)
            A += setup
            B += setup
            fa = len(A)
            A.append(fail)
            for e in c["extras"]:
                A.append(fail if e == "@again" else c_sess.run(e))
            A.append(c_sess.run(":abort"))
            pa, pb = len(A), len(B)
            for p in c["probes"]:
                A.append(c_sess.run(p))
                B.append(c_sess.run(p))
            # clean-up in both twins (a failed probe leaves its expression pending); not compared
            A.append(c_sess.run(":abort"))
            B.append(c_sess.run(":abort"))
            spans.append((fa, pa, pb, len(c["probes"])))
        sa = c_sess.run_script(A, sc, timeout=180)
        sb = c_sess.run_script(B, sc, timeout=180)
        na, nb = len(sa.resps), len(sb.resps)
        restart = None
        for j, (fa, pa, pb, k) in enumerate(spans):
            i = start + j
            if pa + k + 1 > na or pb + k + 1 > nb:
                # one of the sessions died inside this history
                if pa + k > na and sa.crashed_at is not None:
                    out[i] = {"crash": c_sess.crash_info(sa), "where": "A", "at_request": A[sa.crashed_at].get("input") if sa.crashed_at < len(A) else None,
                              "r1": sa.summary(fa) if fa < na else None}
                elif sb.crashed_at is not None:
                    out[i] = {"crash": c_sess.crash_info(sb), "where": "B", "at_request": B[sb.crashed_at].get("input") if sb.crashed_at < len(B) else None}
                restart = i + 1
                break
            out[i] = {"r1": sa.summary(fa), "a": [strip(x) for x in sa.resps[pa:pa + k]], "b": [strip(x) for x in sb.resps[pb:pb + k]],
                      "oa": sa.out[pa:pa + k], "ob": sb.out[pb:pb + k],
                      "frame": session.resp_body(sa.resps[fa]).get("stack_frame_name")}
        if restart is None:
            break
        start = restart
    return out


# operands that the embedding contexts keep pending on the value stack when the site fails
PENDING_OPERANDS = {"7", "8", "[7]", '"a"', '"b"', "5", "6", "4"}


def fvalues_ok(ra, rb):
    """The top-level frame keeps the values of completed requests on its value stack (B shows those of the lets and
    definitions and probes, in an order that depends on the history); `:abort` drops all but the lowest. The lists are
    therefore not comparable item by item. What must hold: A shows none of the distinctive operands that the contexts
    keep pending when the site fails (7, 8, [7], "a", "b", ...), unless B shows them too."""
    if session.resp_kind(ra) != "run_command" or session.resp_kind(rb) != "run_command":
        return False
    if session.resp_body(ra).get("stack_frame_name") != session.resp_body(rb).get("stack_frame_name"):
        return False
    la = (session.resp_body(ra).get("message") or "").split("\n")
    lb = (session.resp_body(rb).get("message") or "").split("\n")
    extra = set(la) - set(lb)
    return not (extra & PENDING_OPERANDS)


def frame_class(name):
    if not name:
        return "-"
    for p in ("fun ", "method ", "test ", "closure"):
        if name.startswith(p):
            return p.strip()
    return "toplevel"


def judge(case, h):
    site = case["site"]
    label = "%s:%s" % (site["cls"], site["name"].split("#")[0])
    if "crash" in h:
        r1 = h.get("r1")
        key = "%s %s crash" % (label, case["ctx"])
        if h["where"] == "B":
            return "inconclusive", None, None, {"note": "reference session B died", "crash": h["crash"][:2], "at": h["at_request"]}
        if h["crash"][0] != "crash":
            return "inconclusive", None, None, {"note": "session A lost", "crash": h["crash"][:2]}
        if h.get("r1") is None:
            return "inconclusive", None, None, {"note": "the failing input itself killed the session (C02's domain)", "crash": h["crash"][:2], "at": h["at_request"]}
        return "violated", key, "session-died-around-abort:%s" % h["crash"][1], {"at_request": h["at_request"], "stderr": h["crash"][2][-600:], "r1": c_sess.brief(r1) if r1 else None}
    if h["r1"][0] != "err":
        return "held", None, None, None
    key = "%s %s %s @%s x%d" % (site["cls"], site["name"].split(":")[0], case["ctx"], frame_class(h["frame"]), len(case["extras"]))
    for p, ra, rb, oa, ob in zip(case["probes"], h["a"], h["b"], h["oa"], h["ob"]):
        if p == ":fvalues" and oa == ob and fvalues_ok(ra, rb):
            continue
        if ra != rb or oa != ob:
            kind = "local-visible" if p in LOCALS else ("cmd" + p.split(" ")[0] if p.startswith(":") else "fresh-eval")
            sa, sb = session.summarize(ra), session.summarize(rb)
            detail = {"probe": p, "after_abort": c_sess.brief(sa), "fresh_session": c_sess.brief(sb),
                      "printed_after_abort": oa, "printed_fresh": ob, "r1": c_sess.brief(h["r1"])}
            return "violated", key, "differs-from-fresh-session:%s:%s" % (kind, frame_class(h["frame"])), detail
    return "held", key, None, None


def run_batch(cases):
    res = []
    with core.Scratch("gm-c10-") as sc:
        hs = run_twins(cases, sc)
        confirmed = set()
        for c, h in zip(cases, hs):
            if h is None:
                res.append({"status": "inconclusive", "key": None, "detail": {"note": "history not reached"}})
                continue
            st, key, sig, detail = judge(c, h)
            if st == "violated" and sig in confirmed:
                res.append({"status": "violated", "key": key, "sig": sig, "detail": dict(detail, note="same signature confirmed alone for an earlier history of this batch")})
                continue
            if st == "violated":
                h2 = run_twins([c], sc)[0]
                st2, key2, sig2, detail2 = judge(c, h2) if h2 is not None else ("inconclusive", None, None, None)
                if st2 != "violated":
                    res.append({"status": "inconclusive", "key": key, "detail": {"note": "difference only after earlier histories in the same process", "sig": sig, "batch": detail}})
                    continue
                setup, fail = embed(c, "@S@")
                detail2["history"] = [x.get("input") for x in setup] + [fail.get("input")] + c["extras"] + [":abort", detail2.get("probe")]
                confirmed.add(sig2)
                res.append({"status": "violated", "key": key2, "sig": sig2, "detail": detail2})
            elif st == "inconclusive":
                res.append({"status": "inconclusive", "key": None, "detail": detail})
            else:
                res.append({"status": "held", "key": key})
    return res
