"""C03 Operator chains are left-associative with uniform precedence.

Two oracles, both independent of the parser:
  structural - the expected tree of `x1 op1 x2 ... xn` is built here as the left fold (explicit
               parenthesised groups stay where they are written) and compared with the AST dump of the
               real parser (gm/gen/jtree.normalize). The explicitly parenthesised twin of every plain
               chain must give the same tree once `paren` nodes are erased.
  semantic   - typed chains are evaluated by the real interpreter (JSON session); the printed value or
               error must equal the left fold computed with gm/ref/arith.py (C04's reference model)
               extended with the boolean, equality and string operators.
"""
import itertools
import math
import random

from .. import core
from .. import session
from ..gen import jtree
from ..ref import arith

ID = "C03"
LEVEL = "exploration"
RULE = ("structural cases: every sequence of the 21 binary operators for chains of 2..4 operands (quick; 2..5 thorough, "
        "then as much of length 6 as the budget allows) over variable operands, then random chains of 2..14 operands "
        "whose operands are variables, literals, calls, member accesses and explicitly parenthesised sub-chains on "
        "either side; semantic cases: random well-typed chains of 2..9 operands over Int/Bool/String/Float with small "
        "and boundary operands, optionally with parenthesised groups. distinct key = structural: (length, first "
        "operator, last operator, parenthesis pattern); semantic: (length, type path, outcome class)")
ASSUME = ["gm/ref/arith.py is a faithful reading of the documented operator semantics (shared with C04)",
          "the AST dump hook walks the real AST faithfully",
          "operators are written with spaces (`a -1` is two expressions by design)"]
BATCH = 300
FLOOR = {"quick": 400, "thorough": 1000}
BUDGET = {"quick": 40, "thorough": 780}
ALL_EXHAUSTIVE = False

OPS = [o for o, _ in jtree.OPS]
NAMES = "abcdefghijklmnop"


# ---------------------------------------------------------------------------- structural

def chain_tree(ops, operands):
    e = operands[0]
    for op, x in zip(ops, operands[1:]):
        e = jtree.binop(op, e, x)
    return e


def chain_src(ops, operands_src):
    out = [operands_src[0]]
    for op, x in zip(ops, operands_src[1:]):
        out.append(op)
        out.append(x)
    return " ".join(out)


def folded_src(ops, operands_src):
    s = operands_src[0]
    for op, x in zip(ops, operands_src[1:]):
        s = "(%s %s %s)" % (s, op, x)
    return s


def rand_operand(rng, depth):
    """-> (tree, source)"""
    k = rng.random()
    if k < 0.35:
        n = rng.choice(NAMES)
        return jtree.var(n), n
    if k < 0.5:
        v = rng.choice([0, 1, 2, 7, -1, -3, 10, (1 << 63) - 1, -(1 << 63)])
        return jtree.intlit(v), str(v)
    if k < 0.56:
        t = rng.choice(["1.5", "-0.25", "2.0", "10.75"])
        return jtree.floatlit(t), t
    if k < 0.62:
        s = rng.choice(["", "a", "x y", "-", "+ 1"])
        return jtree.strlit(s), jtree.escape_string(s)
    if k < 0.7:
        a, asrc = rand_operand(rng, depth + 1) if depth < 2 else (jtree.var("z"), "z")
        return {"k": "call", "fun": jtree.var("f"), "args": [a]}, "f(%s)" % asrc
    if k < 0.76:
        return {"k": "dot", "recv": jtree.var("o"), "sym": jtree.sym("fld")}, "o.fld"
    if k < 0.82:
        return {"k": "mcall", "recv": jtree.var("o"), "sym": jtree.sym("m"), "args": []}, "o.m()"
    if k < 0.86:
        return {"k": "ns", "recv": jtree.var("ns"), "sym": jtree.sym("g")}, "ns::g"
    if depth >= 3:
        return jtree.var("q"), "q"
    # explicitly parenthesised sub-chain
    t, s = rand_chain(rng, depth + 1, rng.choice([1, 2, 2, 3, 4]))
    return jtree.paren(t), "(%s)" % s


def rand_chain(rng, depth, n):
    ops = [rng.choice(OPS) for _ in range(n - 1)]
    xs = [rand_operand(rng, depth) for _ in range(n)]
    t = xs[0][0]
    s = xs[0][1]
    for op, (xt, xsrc) in zip(ops, xs[1:]):
        t = jtree.binop(op, t, xt)
        s = "%s %s %s" % (s, op, xsrc)
        if rng.random() < 0.08:
            t = jtree.paren(t)      # redundant parentheses around a left prefix
            s = "(%s)" % s
    return t, s


def paren_pattern(src):
    return "".join(ch for ch in src if ch in "()")[:12]


# ---------------------------------------------------------------------------- semantic

INT_POOL = [0, 1, 2, 3, 5, 7, 10, -1, -2, -7, 100, 63, 64, arith.MAX, arith.MIN, arith.MAX - 1, 1 << 31, 3037000500]
FLOAT_POOL = ["1.5", "2.0", "0.5", "-0.25", "10.0", "3.0", "0.1", "100.0", "0.0"]
STR_POOL = ["", "a", "b", "ab", "xyz", "a b"]
INT_ARITH = ["+", "-", "*", "/", "%", "**", "&", "|"]
INT_CMP = ["<", "<=", ">", ">=", "==", "!="]


def rand_typed(rng, depth, n):
    """Random well-typed chain. -> (source, value) where value is ("int",n)|("bool",b)|("str",s)|("float",x)|("exc",)
    or None when the expected result is not determined (short-circuit over an exception)."""
    ty = rng.choice(["int", "int", "int", "bool", "str", "float"])
    src, val = typed_operand(rng, ty, depth)
    for _ in range(n - 1):
        if val is None:
            return None
        t = val[0] if val[0] != "exc" else ty
        if t == "int":
            k = rng.random()
            op = rng.choice(INT_ARITH) if k < 0.7 else rng.choice(INT_CMP)
            rs, rv = typed_operand(rng, "int", depth, small=(op == "**"))
        elif t == "bool":
            op = rng.choice(["&&", "||", "==", "!="])
            rs, rv = typed_operand(rng, "bool", depth)
        elif t == "str":
            op = rng.choice(["^", "^", "^", "==", "!="])
            rs, rv = typed_operand(rng, "str", depth)
        else:
            op = rng.choice(arith.FLOAT_OPS)
            rs, rv = typed_operand(rng, "float", depth)
        if rv is None:
            return None
        src = "%s %s %s" % (src, op, rs)
        val = apply(op, val, rv)
        ty = val[0] if val is not None and val[0] != "exc" else ty
        if val is not None and val[0] == "exc":
            # the rest of the chain is still generated with the static type the value would have had
            ty = result_type(op, t)
            # an exception ends evaluation; remaining operands are well typed but never evaluated
            rest = []
            for _ in range(rng.randint(0, 2)):
                o2, r2 = next_op_for(rng, ty, depth)
                if o2 is None:
                    break
                rest.append("%s %s" % (o2, r2))
                ty = result_type(o2, ty)
            return (" ".join([src] + rest), ("exc",))
    return src, val


def result_type(op, t):
    if op in INT_CMP or op in ("&&", "||"):
        return "bool"
    return t


def next_op_for(rng, ty, depth):
    if ty == "int":
        op = rng.choice(INT_ARITH + INT_CMP)
        return op, typed_operand(rng, "int", depth, small=True)[0]
    if ty == "bool":
        return rng.choice(["&&", "||"]), rng.choice(["True", "False"])
    if ty == "str":
        return "^", jtree.escape_string(rng.choice(STR_POOL))
    if ty == "float":
        return rng.choice(arith.FLOAT_OPS), rng.choice(FLOAT_POOL)
    return None, None


def typed_operand(rng, ty, depth, small=False):
    if depth < 2 and not small and rng.random() < 0.18:
        # (exponents stay small literals: garden rejects exponents above u32::MAX, which C04 tolerates)
        r = rand_typed_of(rng, ty, depth + 1)
        if r is not None:
            return "(%s)" % r[0], r[1]
    if ty == "int":
        v = rng.choice([0, 1, 2, 3, 5]) if small else (rng.choice(INT_POOL) if rng.random() < 0.8 else rng.randint(-50, 50))
        return str(v), ("int", v)
    if ty == "bool":
        b = rng.random() < 0.5
        return ("True" if b else "False"), ("bool", b)
    if ty == "str":
        s = rng.choice(STR_POOL)
        return jtree.escape_string(s), ("str", s)
    t = rng.choice(FLOAT_POOL)
    return t, ("float", float(t))


def rand_typed_of(rng, ty, depth):
    """A parenthesised group whose static type is ty."""
    for _ in range(6):
        r = rand_typed(rng, depth, rng.choice([2, 2, 3]))
        if r is None:
            continue
        src, val = r
        if val[0] == ty:
            return src, val
    return None


def apply(op, a, b):
    """Left-to-right evaluation of one operator on two evaluated operands."""
    if a[0] == "exc":
        return a
    if b[0] == "exc":
        # the right operand is a parenthesised group that raised: `False && (1 / 0 == 1)` may or may
        # not evaluate it, which the documentation of && / || decides, not this property
        if op in ("&&", "||"):
            return None
        return b
    if a[0] == "int" and b[0] == "int":
        return arith.int_op(op, a[1], b[1])
    if a[0] == "float":
        return arith.float_op(op, a[1], b[1])
    if op == "==":
        return ("bool", a[1] == b[1])
    if op == "!=":
        return ("bool", a[1] != b[1])
    if op == "&&":
        return ("bool", a[1] and b[1])
    if op == "||":
        return ("bool", a[1] or b[1])
    if op == "^":
        return ("str", a[1] + b[1])
    raise ValueError((op, a, b))


def show(val):
    if val[0] == "int":
        return str(val[1])
    if val[0] == "bool":
        return "True" if val[1] else "False"
    if val[0] == "str":
        return jtree.escape_string(val[1])
    return None


# ---------------------------------------------------------------------------- cases

def gen_cases(tier, seed):
    # corpus: the historical witnesses
    for src, exp in [("10 - 1 - 1 - 1", ("int", 7)), ("2 * 3 + 4 * 5 - 1", ("int", 49)), ("100 / 5 / 2 / 5", ("int", 2)),
                     ("1 - 2 - 3 - 4 - 5 - 6", ("int", -19)), ("2 ** 3 ** 2", ("int", 64)), ("1 + 2 < 4 && True", ("bool", True)),
                     ("10 - (1 - 1) - 1", ("int", 9)), ("10 - (1 - (1 - 1))", ("int", 9)), ("\"a\" ^ \"b\" ^ \"c\" ^ \"d\" == \"abcd\"", ("bool", True)),
                     ("8.0 /. 2.0 /. 2.0 /. 2.0", ("float", 1.0)), ("7 - 2 * 3 - 1 * 2", ("int", 28))]:
        yield {"t": "sem", "src": src, "exp": list(exp)}
    maxlen = 4 if tier == "quick" else 5
    rng = random.Random(seed * 7919 + 3)
    for n in range(2, maxlen + 1):
        if n == 4:
            # a first slice of the random classes, so that a slow machine still reaches them
            for _ in range(600):
                yield {"t": "rs", "seed": rng.getrandbits(40), "n": rng.choice([2, 3, 4, 5, 6, 7, 8, 10, 14])}
                yield {"t": "rsem", "seed": rng.getrandbits(40), "n": rng.choice([2, 3, 4, 4, 5, 6, 7, 9])}
        for ops in itertools.product(range(len(OPS)), repeat=n - 1):
            yield {"t": "ex", "ops": list(ops)}
        yield {"_marker": "all-operator-sequences-length-%d" % n, "chains": len(OPS) ** (n - 1),
               "space": "every sequence of the 21 operators over %d variable operands%s" % (n, ", plain and explicitly parenthesised twin" if n <= 4 else "")}
    if tier == "thorough":
        # a seeded slice of length 6 (4.08 M in total), interleaved with the random classes
        six = itertools.product(range(len(OPS)), repeat=5)
    else:
        six = None
    i = 0
    while True:
        i += 1
        k = rng.random()
        if six is not None and k < 0.6:
            ops = next(six, None)
            if ops is None:
                six = None
                yield {"_marker": "all-operator-sequences-length-6", "chains": len(OPS) ** 5, "space": "every sequence of the 21 operators over 6 variable operands"}
                continue
            yield {"t": "ex", "ops": list(ops)}
        elif k < (0.8 if six is not None else 0.5):
            yield {"t": "rs", "seed": rng.getrandbits(40), "n": rng.choice([2, 3, 4, 5, 6, 7, 8, 10, 14])}
        else:
            yield {"t": "rsem", "seed": rng.getrandbits(40), "n": rng.choice([2, 3, 4, 4, 5, 6, 7, 9])}


def struct_case(c):
    """-> list of (expected tree, source, erase_paren) for one structural case, and its coverage key"""
    if c["t"] == "ex":
        ops = [OPS[i] for i in c["ops"]]
        names = list(NAMES[:len(ops) + 1])
        t = chain_tree(ops, [jtree.var(n) for n in names])
        key = "ex n=%d %s..%s" % (len(names), ops[0], ops[-1])
        parts = [(t, chain_src(ops, names), False)]
        if len(names) <= 4:
            # the explicitly parenthesised twin (DESIGN's metamorphic form); for longer chains the
            # independently built expected tree alone decides, which halves the cost of lengths 5 and 6
            parts.append((t, folded_src(ops, names), True))
        return parts, key
    rng = random.Random(c["seed"])
    t, s = rand_chain(rng, 0, c["n"])
    key = "rs n=%d %s" % (c["n"], paren_pattern(s))
    return [(t, s, False)], key


def run_batch(cases):
    out = [None] * len(cases)
    # ---- structural: many chains per request, one top-level expression per line
    lines, owners = [], []
    for i, c in enumerate(cases):
        if c["t"] in ("ex", "rs"):
            parts, key = struct_case(c)
            for (t, s, erase) in parts:
                lines.append((t, s, erase))
                owners.append((i, key))
    CH = 150
    reqs = [{"op": "frontend", "ast": True, "src": "\n".join(s for _, s, _ in lines[j:j + CH]) + "\n"} for j in range(0, len(lines), CH)]
    resps = core.batch(reqs, timeout=300) if reqs else []
    for bi, r in enumerate(resps):
        chunk = lines[bi * CH:(bi + 1) * CH]
        own = owners[bi * CH:(bi + 1) * CH]
        items = (r or {}).get("items")
        ok_shape = r is not None and "crash" not in r and not r.get("parse_errors") and isinstance(items, list) and len(items) == len(chunk)
        if not ok_shape:
            # isolate: re-run each chain of this chunk alone
            solo = core.batch([{"op": "frontend", "ast": True, "src": s + "\n"} for _, s, _ in chunk], timeout=300)
            for (t, s, erase), (ci, key), rr in zip(chunk, own, solo):
                merge(out, ci, judge_struct(t, s, erase, key, rr, (rr or {}).get("items")))
            continue
        for (t, s, erase), (ci, key), it in zip(chunk, own, items):
            merge(out, ci, judge_struct(t, s, erase, key, r, [it]))
    # ---- semantic
    sem = []
    for i, c in enumerate(cases):
        if c["t"] == "sem":
            sem.append((i, c["src"], tuple(c["exp"])))
        elif c["t"] == "rsem":
            rng = random.Random(c["seed"])
            r = None
            for _ in range(8):
                r = rand_typed(rng, 0, c["n"])
                if r is not None:
                    break
            if r is None:
                out[i] = {"status": "held", "key": None}
                continue
            sem.append((i, r[0], r[1]))
    if sem:
        res = session.eval_many([s for _, s, _ in sem], timeout=180)
        for (i, src, exp), o in zip(sem, res):
            out[i] = judge_sem(src, exp, o)
    for i, o in enumerate(out):
        if o is None:
            out[i] = {"status": "inconclusive", "key": None, "detail": {"why": "no result"}}
    return out


def merge(out, i, r):
    """A case with several parts is violated if any part is; held if all are."""
    cur = out[i]
    if cur is None or (cur["status"] == "held" and r["status"] != "held") or (cur["status"] == "inconclusive" and r["status"] == "violated"):
        out[i] = r


def judge_struct(tree, src, erase, key, r, items):
    if r is None or "crash" in r:
        cls = (r or {}).get("crash", "lost")
        if cls in ("timeout", "lost"):
            return {"status": "inconclusive", "key": None, "detail": {"src": src, "crash": cls}}
        return {"status": "violated", "key": key, "sig": "crash:" + core.panic_sig((r or {}).get("stderr", "")), "detail": {"src": src}}
    if r.get("parse_panic"):
        return {"status": "violated", "key": key, "sig": core.panic_sig(r["parse_panic"]), "detail": {"src": src}}
    if r.get("parse_errors") or not items or len(items) != 1:
        return {"status": "violated", "key": key, "sig": "chain-does-not-parse-as-one-expression",
                "detail": {"src": src, "errors": (r.get("parse_errors") or [])[:2], "items": len(items or [])}}
    exp = jtree.normalize({"k": "expr", "expr": tree}, erase_paren=erase)
    got = jtree.normalize(items[0], erase_paren=erase)
    if got == exp:
        return {"status": "held", "key": key}
    return {"status": "violated", "key": key, "sig": "grouping:" + classify_grouping(exp, got),
            "detail": {"src": src, "expected_grouping": sexp(exp["expr"]), "parsed_grouping": sexp(got.get("expr", got)),
                       "first_difference": jtree.first_diff(exp, got)}}


def sexp(e):
    """Compact rendering of the grouping of a tree."""
    if not isinstance(e, dict):
        return "?"
    k = e.get("k")
    if k == "binop":
        return "(%s %s %s)" % (sexp(e["lhs"]), jtree.OP_SRC.get(e["op"], e["op"]), sexp(e["rhs"]))
    if k == "paren":
        return "P[%s]" % sexp(e["expr"])
    if k == "var":
        return e["sym"]["name"]
    if k == "int":
        return e["v"]
    return k or "?"


def leaves(e, acc):
    if isinstance(e, dict) and e.get("k") == "binop":
        leaves(e["lhs"], acc)
        acc.append(e["op"])
        leaves(e["rhs"], acc)
    else:
        acc.append(e)
    return acc


def classify_grouping(exp, got):
    """Defect class: same operands and operators in the same order but grouped differently, or worse."""
    try:
        if leaves(exp["expr"], []) == leaves(got["expr"], []):
            return "same-sequence-different-grouping"
    except Exception:
        pass
    return "different-sequence"


def judge_sem(src, exp, o):
    r = o["res"]
    n_ops = sum(src.count(" %s " % op) for op in OPS)
    key = "sem ops=%d paren=%s %s" % (min(n_ops, 9), "y" if "(" in src else "n", exp[0])
    detail = {"src": src, "expected(left fold)": list(exp), "observed": list(r[:2])}
    if r[0] == "crash":
        return {"status": "violated", "key": key, "sig": "crash:" + r[1], "detail": dict(detail, stderr=r[2])}
    if r[0] in ("timeout", "lost"):
        return {"status": "inconclusive", "key": None, "detail": detail}
    if exp[0] == "exc":
        ok = r[0] == "err"
        sig = "value-instead-of-error"
    elif exp[0] == "float":
        x = exp[1]
        if not math.isfinite(x):
            ok = True
        else:
            try:
                ok = r[0] == "ok" and arith.bits(float(r[1])) == arith.bits(x)
            except (TypeError, ValueError):
                ok = False
        sig = "wrong-value:float-chain"
    else:
        ok = r[0] == "ok" and r[1] == show(exp)
        sig = "wrong-value:%s-chain" % exp[0] if r[0] == "ok" else "error-instead-of-value"
    if ok:
        return {"status": "held", "key": key}
    return {"status": "violated", "key": key, "sig": sig, "detail": detail}
