"""C18 Formatting is idempotent.

Oracle (metamorphic, from the property statement): for every text x, format(format(x)) == format(x) byte for
byte, and `garden format --check` accepts the file `garden format` produced. Inputs include texts with parse
errors. Bulk through the in-process hook (it calls format::format twice); every hit is re-confirmed through the
real CLI (`format`, `format` on its output, `format --check` on its output) and a text-keyed 2 % of all inputs
always goes through the CLI.

All generated texts are passed through the same line normalisation the `format` subcommand applies before
formatting (split on LF, drop one trailing CR per line, terminate every line with LF), so the hook and the CLI
see byte-identical input.
"""
import difflib
import os
import random
import re

from .. import core
from ..gen import a_front as F
from ..gen import text as T

ID = "C18"
LEVEL = "exploration"
RULE = ("inputs = committed regressions + every repository .gdn file + src/test_files/format inputs with their "
        "whitespace perturbed + endless seeded stream (template programs badly spaced, corpus files re-spaced / "
        "mutated / truncated / unbalanced / with multi-line strings, non-ASCII and comments moved, lexeme soup; files "
        "with 2..17 instances of one formatting trigger such as an over-long signature); "
        "distinct key = (generator class, parses or not, whether the formatter changed the text, "
        "first changed line's leading token)")
ASSUME = ["`garden format` = format::format applied to the line-normalised file (read from src/main.rs; checked on "
          "the 2 % CLI sample: a disagreement between hook and CLI output is reported as inconclusive)"]
BATCH = 150
FLOOR = {"quick": 150, "thorough": 400}
BUDGET = {"quick": 45, "thorough": 600}
CLI_PERCENT = 2.0

CLASSES = [
    (16, "snippet"), (10, "snippet_mutation"), (14, "corpus_respace"), (12, "corpus_mutation"), (6, "corpus_truncation"),
    (6, "corpus_unbalance"), (8, "corpus_multiline"), (5, "corpus_nonascii"), (4, "corpus_unicode_ws"), (6, "token_soup"),
    (3, "soup"), (4, "corpus_splice"), (3, "nest"), (3, "corpus_suffix"),
]


def gen_cases(tier, seed):
    for c in F.committed(ID):
        c["src"] = F.cli_normalize(c["src"])
        yield c
    for c in F.corpus_whole(tier):
        c["src"] = F.cli_normalize(c["src"])
        yield c
    yield {"_marker": "fixed-part", "space": "committed regressions + whole corpus"}
    rng = random.Random(seed * 7919 + 18)
    for n, c in enumerate(F.random_cases(seed, 18, classes=CLASSES, max_len=4000, normalize=True)):
        yield c
        if n % 5 == 0:
            yield {"cls": "many_items", "src": F.cli_normalize(many_items(rng))}


# The formatter works in passes (and re-runs itself a bounded number of times), so what it does to the k-th
# instance of a construct can differ from what it does to the first: files with MANY instances of one trigger.

_TYPES = ["Int", "String", "List<Int>", "Option<String>", "List<Option<Int>>", "Dict<List<String>>", "Result<Int, String>",
          "(Int, String)", "Fun<(Int, Int), Bool>", "T"]
_TRIGGERS = ["long_sig", "long_sig", "long_sig", "long_call", "bad_indent", "blank_lines", "comment_block", "long_list", "snippet"]


def long_sig(rng, i):
    head = rng.choice(["fun ", "fun ", "public fun ", "method ", "public method ", "external fun "])
    name = rng.choice(["compute_the_thing", "f", "long_descriptive_function_name", "handle"]) + "_%d" % i
    nparams = rng.choice([3, 5, 6, 7, 8, 9])
    params = ["%s_%d: %s" % (rng.choice(["parameter", "arg", "some_value", "x"]), j, rng.choice(_TYPES)) for j in range(nparams)]
    if head.endswith("method "):
        params[0] = "this: " + rng.choice(["Foo", "List<T>", "String"])
    tp = rng.choice(["", "", "<T>", "<T, U>"])
    ret = rng.choice(["", ": " + rng.choice(_TYPES), ": " + rng.choice(_TYPES)])
    body = rng.choice(["{}", "{ 1 }", "{\n  arg_0\n}", "{ // c\n}", "{\n  let q = 1\n  q\n}"])
    return "%s%s%s(%s)%s %s" % (head, name, tp, ", ".join(params) + rng.choice(["", "", ","]), ret, body)


def trigger(rng, kind, i):
    if kind == "long_sig":
        return long_sig(rng, i)
    if kind == "long_call":
        return "fun c_%d() { some_function_with_a_long_name(%s) }" % (i, ", ".join("argument_number_%d + %d" % (j, j) for j in range(rng.choice([4, 8, 12]))))
    if kind == "bad_indent":
        return "fun b_%d() {\n%slet x = 1\n%sif x {\n%sx\n%s}\n}" % (i, rng.choice(["", "      ", "\t"]), rng.choice(["", " ", "    "]), rng.choice(["", "  ", "\t\t"]), rng.choice(["", "   "]))
    if kind == "blank_lines":
        return "fun l_%d() {%s1%s}" % (i, "\n" * rng.randint(1, 5), "\n" * rng.randint(0, 4))
    if kind == "comment_block":
        return "%s// comment %d\n%s// more\nfun k_%d() {}" % (rng.choice(["", "  ", "\t"]), i, rng.choice(["", "    "]), i)
    if kind == "long_list":
        return "let v_%d = [%s]" % (i, ", ".join('"element number %d"' % j for j in range(rng.choice([5, 9, 14]))))
    return T.snippet(rng, items=1)


def many_items(rng):
    k = rng.choice([2, 3, 5, 6, 7, 8, 9, 10, 13, 17])
    kind = rng.choice(_TRIGGERS)
    mixed = rng.random() < 0.3
    parts = []
    for i in range(k):
        parts.append(trigger(rng, rng.choice(_TRIGGERS) if mixed else kind, i))
        parts.append(rng.choice(["\n", "\n\n", "\n\n\n", "\n"]))
        if rng.random() < 0.15:
            parts.append(T.snippet(rng, items=1) + "\n")
    return "".join(parts)


# --------------------------------------------------------------------------- classification of a failure

def _first_diff(a, b):
    la, lb = a.split("\n"), b.split("\n")
    for i, (x, y) in enumerate(zip(la, lb)):
        if x != y:
            return i, x, y
    i = min(len(la), len(lb))
    return i, (la[i] if i < len(la) else None), (lb[i] if i < len(lb) else None)


def diff_class(f1, f2):
    """Defect class of f1 -> f2 (second pass changed the text): which kind of change the second pass made."""
    if f1.replace(" ", "").replace("\n", "").replace("\t", "") != f2.replace(" ", "").replace("\n", "").replace("\t", ""):
        return "non-whitespace-change"
    l1, l2 = f1.split("\n"), f2.split("\n")
    if len(l1) != len(l2):
        if [x for x in l1 if x.strip()] == [x for x in l2 if x.strip()]:
            return "blank-lines"
        if [x.strip() for x in l1 if x.strip()] == [x.strip() for x in l2 if x.strip()]:
            return "blank-lines+indent"
        return "line-breaks"
    kinds = set()
    for x, y in zip(l1, l2):
        if x == y:
            continue
        if x.strip() == y.strip():
            kinds.add("indent" if x.lstrip() == y.lstrip() else "trailing-space")
        else:
            kinds.add("inner-spacing")
    return "+".join(sorted(kinds)) or "unknown"


def context_class(src, f1, f2):
    """What the changed line is (so different formatter defects get different signatures)."""
    i, x, y = _first_diff(f1, f2)
    line = (x if x is not None else y) or ""
    s = line.strip()
    # is the first differing line inside a multi-line string literal?
    upto = "\n".join(f1.split("\n")[:i])
    in_string = False
    for a, b, k in T.tokens(f1):
        if k == "str" and a < len(upto) + 1 <= b and "\n" in f1[a:b]:
            in_string = True
            break
    if in_string:
        return "in-multiline-string"
    if s.startswith("//"):
        return "comment-line"
    if "//" in s:
        return "line-with-trailing-comment"
    m = re.match(r"[A-Za-z_]+|\S", s)
    return "line:" + (m.group(0) if m and (m.group(0) in T.KEYWORDS or not m.group(0)[0].isalpha()) else "expr") if s else "blank"


def cli_roundtrip(sc, src):
    """-> (status, detail): 'held' | 'violated' | 'inconclusive'."""
    p1 = sc.file(src)
    r1 = core.run_garden(["format", p1], timeout=60, cwd=sc.dir)
    if r1.cls != "ok":
        return "crash" if r1.cls in core.CRASH else "inconclusive", {"format": r1.brief()}
    out1 = r1.out
    p2 = sc.file(out1)
    r2 = core.run_garden(["format", p2], timeout=60, cwd=sc.dir)
    rc = core.run_garden(["format", "--check", p2], timeout=60, cwd=sc.dir)
    for p in (p1, p2):
        try:
            os.unlink(p)
        except OSError:
            pass
    if r2.cls in core.CRASH or rc.cls in core.CRASH:
        return "crash", {"format2": r2.brief(), "check": rc.brief()}
    if r2.cls != "ok" or rc.cls not in ("ok", "diag"):
        return "inconclusive", {"format2": r2.brief(), "check": rc.brief()}
    if r2.out != out1:
        return "violated", {"out1": out1, "out2": r2.out, "check_rc": rc.rc}
    if rc.rc != 0:
        return "violated-check", {"out1": out1, "check": rc.brief()}
    return "held", {"out1": out1}


def _clip(s, n=1500):
    return s if len(s) <= n else s[:n] + "...[%d chars]" % len(s)


def run_batch(cases):
    reqs = [{"op": "frontend", "src": c["src"], "format": True} for c in cases]
    resps = core.batch(reqs, timeout=300)
    res = []
    with core.Scratch("gm-c18-") as sc:
        for c, resp in zip(cases, resps):
            src = c["src"]
            if resp is None or "crash" in resp or "parse_panic" in resp or "format_panic" in resp or "format2_panic" in resp:
                # crashes are C01's business; here nothing was observed about idempotence
                res.append({"status": "inconclusive", "key": None,
                            "detail": {"why": "front end crashed (see C01)", "resp": {k: str(v)[:300] for k, v in (resp or {}).items()
                                                                                       if k != "formatted"}}})
                continue
            f1 = resp.get("formatted")
            idem = resp.get("format_idempotent")
            perr = bool(resp.get("parse_errors"))
            changed = f1 != src
            i, x, _y = _first_diff(src, f1 or "")
            lead = re.match(r"\s*([A-Za-z_]+|\S)?", x or "").group(1) or ""
            if lead and lead[0].isalpha() and lead not in T.KEYWORDS:
                lead = "id"
            key = "%s|%s|%s|%s" % (c["cls"], "perr" if perr else "parses", "changed" if changed else "same", lead if changed else "")
            hit = idem is False
            if not hit and not F.sampled(src, CLI_PERCENT, "c18"):
                res.append({"status": "held", "key": key})
                continue
            st, d = cli_roundtrip(sc, src)
            if hit:
                f2 = resp.get("formatted2", "")
                sig = "non-idempotent:%s:%s:%s" % (diff_class(f1, f2), context_class(src, f1, f2), "perr" if perr else "parses")
                i, a, b = _first_diff(f1, f2)
                detail = {"src": _clip(src), "first_pass": _clip(f1), "second_pass": _clip(f2),
                          "first_difference": {"line": i + 1, "pass1": a, "pass2": b}, "cli": st}
                res.append({"status": "violated", "key": key, "sig": sig, "detail": detail})
                continue
            if st == "held":
                if d["out1"] != f1:
                    res.append({"status": "inconclusive", "key": None,
                                "detail": {"why": "hook and CLI formatted the same text differently", "src": _clip(src),
                                           "hook": _clip(f1 or ""), "cli": _clip(d["out1"])}})
                else:
                    res.append({"status": "held", "key": key + "|cli"})
            elif st == "violated":
                sig = "non-idempotent:%s:%s:%s" % (diff_class(d["out1"], d["out2"]), context_class(src, d["out1"], d["out2"]),
                                                   "perr" if perr else "parses")
                res.append({"status": "violated", "key": key, "sig": sig + ":cli-only",
                            "detail": {"src": _clip(src), "first_pass": _clip(d["out1"]), "second_pass": _clip(d["out2"])}})
            elif st == "violated-check":
                res.append({"status": "violated", "key": key, "sig": "format-check-rejects-formatted-file",
                            "detail": {"src": _clip(src), "formatted": _clip(d["out1"]), "check": d["check"]}})
            else:
                res.append({"status": "inconclusive", "key": None, "detail": dict(d, src=_clip(src), why=st)})
    return res
