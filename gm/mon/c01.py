"""C01 Front end never crashes on any source text.

Refuted by: `check | format | reftest-ast | run` (or the same code in-process, as an editor buffer would reach it)
ending in a panic, SIGABRT, SIGSEGV, or not ending. The oracle is the exit taxonomy of gm.core, nothing else.

Bulk: in-process hook (`core.batch`, op "frontend": lex, parse, check, format, format(format)) each step under
catch_unwind. Every hit is re-run through the real CLI subcommands; a text-keyed 2 % of all inputs always goes
through the CLI as well. `run` is only ever given texts that have parse errors (it must print them and exit 1
before evaluating anything), so no generated program is ever executed by this monitor.
"""
import os

from .. import core
from ..gen import a_front as F
from ..gen import text as T

ID = "C01"
LEVEL = "exploration"
RULE = ("inputs = committed regressions + invalid UTF-8 files + every repository .gdn file + truncation of a seeded "
        "selection of them at every token boundary + one construct nested 60 and 400 (thorough: ..100000) times for "
        "32 constructs + endless seeded stream (Unicode soup, lexeme soup, token-level corpus mutation, truncation, "
        "delimiter unbalancing, non-ASCII splice, Unicode whitespace swap, multi-line strings, template programs); "
        "distinct key = (generator class, front-end outcome: first parse-error template | first diagnostic "
        "template | clean)")
ASSUME = ["the in-process hook calls the same lex/parse/check/format entry points as the CLI (hits are re-confirmed "
          "through the CLI, and 2 % of inputs always go through it)",
          "a process that is still running after 120 s on <= 64 KiB of input is a hang"]
BATCH = 120
FLOOR = {"quick": 150, "thorough": 400}
BUDGET = {"quick": 35, "thorough": 600}

CLI_PERCENT = 2.0
CLI_TIMEOUT = 30
ISOLATED_TIMEOUT = 120

INVALID_UTF8 = ["ff", "c3", "6c657420783d20c328", "e28228", "f0908c", "6c6574207820ed a080".replace(" ", ""),
                "c0af", "f8888080", "22e9220a", "2f2f20ff0a31"]


def gen_cases(tier, seed):
    for c in F.committed(ID):
        yield c
    for h in INVALID_UTF8:
        yield {"cls": "invalid_utf8", "hex": h}
    for c in F.corpus_whole(tier):
        yield c
    for c in F.corpus_truncations(tier, seed):
        yield c
    for c in F.depth_cases(tier):
        yield c
    yield {"_marker": "fixed-part", "space": "committed + invalid UTF-8 + whole corpus + truncation sweep + depth grid",
           "depths": F.DEPTHS[tier], "nest_kinds": len(T.NEST_KINDS)}
    for c in F.random_cases(seed, 1):
        yield c


# --------------------------------------------------------------------------- CLI oracle

def _cli_one(args, timeout=CLI_TIMEOUT, cwd=None):
    r = core.run_garden(args, timeout=timeout, cwd=cwd)
    if r.timed_out:
        r = core.run_garden(args, timeout=ISOLATED_TIMEOUT, cwd=cwd)
    return r


def cli_verdicts(sc, src_bytes, has_parse_errors, only=None, skip=(), stop_at_first=False):
    """Run the real subcommands on a file with these bytes. -> list of (cmd, sig, brief) problems."""
    path = sc.file(src_bytes)
    cmds = [("check", ["check", path]), ("check --json", ["check", "--json", path]), ("format", ["format", path]),
            ("reftest-ast", ["reftest-ast", path])]
    if has_parse_errors:
        cmds.append(("run", ["run", path]))
    problems = []
    for name, args in cmds:
        if (only and name not in only) or name in skip:
            continue
        if stop_at_first and problems:
            break
        r = _cli_one(args, cwd=sc.dir)
        c = r.cls
        if c in core.CRASH or c.startswith("signal"):
            problems.append((name, F.stable_sig(core.crash_sig(r)), r.brief()))
        elif c == "timeout":
            problems.append((name, "hang", r.brief()))
        elif name == "run" and has_parse_errors and not (r.rc == 1 and "arse error" in r.err):
            # a text with parse errors must be reported and not evaluated
            problems.append((name, "run-without-parse-diagnostics", r.brief()))
        elif c not in ("ok", "diag"):
            problems.append((name, "unexpected-exit:%s" % c, r.brief()))
    try:
        os.unlink(path)
    except OSError:
        pass
    return problems


def invalid_utf8_verdict(sc, raw):
    path = sc.file(raw)
    bad = []
    for name, args in (("check", ["check", path]), ("format", ["format", path]), ("reftest-ast", ["reftest-ast", path]),
                       ("run", ["run", path])):
        r = _cli_one(args, cwd=sc.dir)
        if r.cls in core.CRASH or r.cls.startswith("signal"):
            bad.append((name, F.stable_sig(core.crash_sig(r)), r.brief()))
        elif r.cls == "timeout":
            bad.append((name, "hang", r.brief()))
        elif not (r.rc == 1 and "not valid UTF-8" in r.err):
            bad.append((name, "invalid-utf8-not-reported", r.brief()))
    return bad


def run_batch(cases):
    res = [None] * len(cases)
    idx = [i for i, c in enumerate(cases) if "src" in c]
    reqs = [{"op": "frontend", "src": cases[i]["src"], "check": True, "format": True} for i in idx]
    resps = core.batch(reqs, timeout=300) if reqs else []
    with core.Scratch("gm-c01-") as sc:
        for i, c in enumerate(cases):
            if "hex" in c:
                raw = bytes.fromhex(c["hex"])
                bad = invalid_utf8_verdict(sc, raw)
                if bad:
                    res[i] = {"status": "violated", "key": "invalid_utf8", "sig": "%s:%s" % (bad[0][1], bad[0][0]),
                              "detail": {"hex": c["hex"], "problems": bad[:3]}}
                else:
                    res[i] = {"status": "held", "key": "invalid_utf8|reported"}
        for i, resp in zip(idx, resps):
            c = cases[i]
            src = c["src"]
            key = "%s|%s" % (c["cls"] if c["cls"] != "depth" else "depth:" + c.get("kind", ""), F.outcome_key(resp))
            hit = F.hook_crash(resp)
            lost = resp is not None and resp.get("crash") == "lost"
            if lost:
                res[i] = {"status": "inconclusive", "key": None, "detail": {"why": "response lost after a crash of a neighbour"}}
                continue
            perr = bool(resp and resp.get("parse_errors"))
            if hit is None and not F.sampled(src, CLI_PERCENT, "c01"):
                res[i] = {"status": "held", "key": key}
                continue
            if len(src.encode("utf-8", "replace")) > 300000 and hit is None:
                res[i] = {"status": "held", "key": key}
                continue
            # `reftest-ast` pretty-prints the tree with {:#?}, which is quadratic in the nesting depth (a minute for
            # a 1000-link chain): a property of the debug printer, not of the front end, so it is skipped there
            deep = c["cls"] == "depth" and c.get("k", 0) > 200
            problems = cli_verdicts(sc, src.encode("utf-8"), perr, skip=("reftest-ast",) if deep else (),
                                    stop_at_first=hit is not None)
            detail = {"src": src if len(src) < 3000 else src[:1500] + " ...[%d chars]... " % len(src) + src[-300:],
                      "cls": c["cls"]}
            if problems and problems[0][1] == "hang" and len(src.encode("utf-8", "replace")) > 65536:
                # only time can tell, and the time rule (ASSUME) is stated for inputs up to 64 KiB
                res[i] = {"status": "inconclusive", "key": None, "detail": dict(detail, why="slow on a large input",
                                                                                 cli=[(p[0], p[1]) for p in problems])}
            elif problems:
                name, sig, brief = problems[0]
                res[i] = {"status": "violated", "key": key, "sig": sig,
                          "detail": dict(detail, cli=[(p[0], p[1]) for p in problems], first=brief,
                                         inprocess=hit[1] if hit else None)}
            elif hit is not None:
                if hit[0] == "hang":
                    # only time can tell: the CLI finished on the same text, so the batch watchdog was noise
                    res[i] = {"status": "inconclusive", "key": None, "detail": dict(detail, why="batch watchdog, CLI ok")}
                else:
                    # crash in-process (what an editor buffer reaches) that the four subcommands do not show,
                    # e.g. in the second formatting pass
                    res[i] = {"status": "violated", "key": key, "sig": hit[0],
                              "detail": dict(detail, inprocess=hit[1], cli_confirmed=False)}
            else:
                res[i] = {"status": "held", "key": key + "|cli"}
    return res
