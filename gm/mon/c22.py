"""C22 `check --fix` edits are safe.

Generated programs seeded with every fixable lint the generator can express (unused lets / parameters /
literals - also sharing a line with other code and next to comments -, unnecessary let / return, repeated
booleans, list-length comparisons, unreachable match arms, unused imports and type parameters) are put
through `garden check --fix --stdout`. The output must parse; if the original ran without error the fixed
program must print the same and end the same; repeating --fix must reach a fixed point within 5 rounds.
"""
import copy
import random

from .. import core
from ..gen import prog as G
from ..gen import printer

ID = "C22"
LEVEL = "exploration"
RULE = ("cases = seeded programs with lint triggers injected at AST level and hostile layout (joined lines, comments); "
        "distinct key = (set of fix descriptions offered, layout perturbation, outcome)")
ASSUME = ["the original program's run is the reference (metamorphic oracle)",
          "fix descriptions are read through the verif-batch hook only for coverage keys and signatures"]
BATCH = 2
FLOOR = {"quick": 8, "thorough": 15}
BUDGET = {"quick": 35, "thorough": 840}
E = G.E
INT, BOOL, STR, UNIT = G.INT, G.BOOL, G.STR, G.UNIT


def gen_cases(tier, seed):
    i = 0
    while True:
        yield {"seed": seed * 32452843 + i, "layout": i % 4}
        i += 1


def blocks(prog):
    out = []

    def f(n):
        for k in ("then", "els", "body"):
            v = n.get(k)
            if isinstance(v, list) and v and isinstance(v[0], dict) and "k" in v[0] and "ty" not in v[0]:
                out.append(v)
            elif isinstance(v, list) and v and isinstance(v[0], dict) and v[0].get("k") in ("expr",):
                out.append(v)
    G.walk(prog, f)
    out.append(prog["main"])
    return out


def seed_lints(prog, rng):
    kinds = set()
    funs = [f for f in prog["funs"]]
    for b in blocks(prog):
        if not b:
            continue
        # unused literal statements (pure and, rarely, with an effect inside)
        if rng.random() < 0.35 and len(b) >= 1:
            i = rng.randrange(len(b))
            lit = rng.choice([E("int", INT, v=5), E("str", STR, v="lit"), E("list", ["List", INT], items=[E("int", INT, v=1), E("int", INT, v=2)]),
                              E("tuple", ["Tuple", [INT, STR]], items=[E("int", INT, v=1), E("str", STR, v="t")])])
            if rng.random() < 0.25:
                # a literal whose evaluation has an effect somewhere inside (list item, tuple item, dict key or value,
                # struct field, nested): removing it would drop the effect
                ei = E("call", INT, False, False, fn="verif_eff_i", args=[], builtin=True)
                es = E("call", STR, False, False, fn="verif_eff_s", args=[], builtin=True)
                one = E("int", INT, v=1)
                lit = rng.choice([
                    E("list", ["List", INT], False, False, items=[one, ei]),
                    E("tuple", ["Tuple", [INT, INT]], False, False, items=[ei, one]),
                    E("dict", ["Dict", INT], False, False, items=[[es, one]]),
                    E("dict", ["Dict", INT], False, False, items=[[E("str", STR, v="k"), ei]]),
                    E("dict", ["Dict", INT], False, False, items=[[E("str", STR, v="a"), one], [es, one]]),
                    E("list", ["List", ["List", INT]], False, False, items=[E("list", ["List", INT], False, False, items=[ei])]),
                    E("tuple", ["Tuple", [STR, ["Tuple", [INT, INT]]]], False, False,
                      items=[E("str", STR, v="t"), E("tuple", ["Tuple", [INT, INT]], False, False, items=[one, ei])]),
                ])
                kinds.add("unused-literal-with-effect")
            b.insert(i, {"k": "expr", "e": lit})
            kinds.add("unused-literal")
        # unnecessary let before a final expression
        if rng.random() < 0.3 and b and b[-1]["k"] == "expr" and b[-1]["e"]["ty"] != UNIT and b[-1]["e"]["k"] != "var":
            e = b[-1]["e"]
            b[-1] = {"k": "let", "name": "verif_res", "bid": 0, "ann": None, "e": e}
            b.append({"k": "expr", "e": E("var", e["ty"], name="verif_res", bid=0)})
            kinds.add("unnecessary-let")
    for f in funs:
        if rng.random() < 0.4 and f["body"] and f["body"][-1]["k"] == "expr" and f["ret"] != UNIT:
            f["body"][-1] = {"k": "return", "e": f["body"][-1]["e"]}
            kinds.add("unnecessary-return")

    def expr_lints(n):
        if n.get("k") == "bin" and n.get("op") in ("&&", "||") and n["l"]["k"] in ("var", "bool") and rng.random() < 0.5:
            dup = copy.deepcopy(n["l"])
            # the duplicate (and sometimes the first occurrence) inside 1..3 pairs of redundant parentheses
            x = rng.random()
            if x < 0.45:
                for _ in range(rng.choice([1, 2, 2, 3])):
                    dup = E("paren", BOOL, e=dup)
                kinds.add("repeated-bool-parenthesised")
            first = n["l"]
            if rng.random() < 0.15:
                first = E("paren", BOOL, e=first)
            n["l"], n["r"] = E("bin", BOOL, op=n["op"], l=first, r=n["r"]), dup
            kinds.add("repeated-bool")
        if n.get("k") == "bin" and n.get("op") in ("==", "!=", ">") and n["l"]["k"] == "mcall" and n["l"]["m"] == "len" \
                and isinstance(n["l"]["recv"]["ty"], list) and rng.random() < 0.7:
            n["r"] = E("int", INT, v=0)
            kinds.add("list-len-compare")
        if n.get("k") == "match" and any(a["variant"] == "_" for a in n["arms"]) and rng.random() < 0.6:
            first = n["arms"][0]
            if first["variant"] != "_":
                n["arms"].append(copy.deepcopy(first))
                kinds.add("unreachable-arm")
    G.walk(prog, expr_lints)
    return kinds


def perturb(src, layout, rng):
    lines = src.split("\n")
    if layout == 0:
        return src, "plain"
    out = []
    i = 0
    tag = {1: "joined-lines", 2: "comments", 3: "joined+comments"}[layout]
    while i < len(lines):
        line = lines[i]
        nxt = lines[i + 1] if i + 1 < len(lines) else None
        ind = len(line) - len(line.lstrip())
        stripped = line.strip()
        if layout in (2, 3) and stripped and rng.random() < 0.15 and not stripped.endswith("{"):
            out.append(" " * ind + "// verif comment %d" % i)
        if (layout in (1, 3) and nxt is not None and stripped and not stripped.endswith("{") and not stripped.startswith("}")
                and not stripped.endswith(",") and nxt.strip() and not nxt.strip().startswith("}") and not nxt.strip().startswith("//")
                and (len(nxt) - len(nxt.lstrip())) == ind and ind > 0 and "=>" not in stripped and "=>" not in nxt
                and not stripped.startswith("return") and not stripped.startswith("//") and rng.random() < 0.25):
            out.append(line + " " + nxt.strip())
            i += 2
            continue
        if layout in (2, 3) and stripped and rng.random() < 0.1 and not stripped.endswith("{") and "\"" not in stripped:
            line = line + " // trailing %d" % i
        out.append(line)
        i += 1
    return "\n".join(out), tag


def build(case):
    rng = random.Random(case["seed"])
    pr = G.generate(case["seed"], G.Opts(n_main=7, n_funs=3, errors=0.0))
    kinds = seed_lints(pr, rng)
    src, _ = printer.print_program(pr)
    head = ""
    if rng.random() < 0.3:
        head += "import \"__fs.gdn\" as verif_fs\n"
        kinds.add("unused-import")
    if rng.random() < 0.3:
        src += "\nfun verif_tp<T, U>(x: T): T {\n  x\n}\n"
        kinds.add("unused-type-param")
    if "unused-literal-with-effect" in kinds:
        src += "\nfun verif_eff_i(): Int {\n  println(\"eff-i\")\n  1\n}\n\nfun verif_eff_s(): String {\n  println(\"eff-s\")\n  \"k\"\n}\n"
    src = head + src
    src, tag = perturb(src, case["layout"], rng)
    return src, kinds, tag


def first_line(err):
    for line in err.split("\n"):
        if line.startswith("Exception:") or line.startswith("Error:"):
            return line
    return None


def run_batch(cases):
    out = []
    with core.Scratch("gm-c22-") as sc:
        for case in cases:
            out.append(run_case(case, sc))
    return out


def fix_descriptions(src):
    try:
        r = core.batch([{"op": "frontend", "src": src, "check": True}], timeout=60)[0]
    except Exception:
        return None
    if not r or "diagnostics" not in r:
        return None
    descs = set()
    for d in r["diagnostics"]:
        for f in d.get("fixes", []):
            import re
            descs.add(re.sub(r"`[^`]*`", "`_`", f["desc"]))
    return descs


def run_case(case, sc):
    src, kinds, tag = build(case)
    path = sc.file(src)
    base = core.run_garden(["run", path], timeout=30, cwd=sc.dir)
    if base.cls in core.CRASH or base.cls == "timeout":
        return {"status": "inconclusive", "key": None, "detail": {"base": base.brief()}}
    if "Parse error" in base.err:
        # layout perturbation produced something unparseable: not a valid case
        return {"status": "held", "key": None}
    ran_clean = base.cls == "ok" and first_line(base.err) is None
    descs = fix_descriptions(src)
    fx = core.run_garden(["check", "--fix", "--stdout", path], timeout=30, cwd=sc.dir)
    detail = {"src": src, "seeded": sorted(kinds), "layout": tag, "fixes_offered": sorted(descs or [])}
    dsig = "+".join(sorted(descs)) if descs else "none"
    if fx.cls in core.CRASH:
        return {"status": "violated", "key": None, "sig": "crash:fix:" + core.crash_sig(fx), "detail": dict(detail, observed=fx.brief())}
    if fx.cls == "timeout":
        return {"status": "inconclusive", "key": None, "detail": detail}
    fixed = fx.out
    detail["fixed"] = fixed
    fpath = sc.file(fixed)
    new = core.run_garden(["run", fpath], timeout=30, cwd=sc.dir)
    detail.update(orig_run=base.brief(), new_run=new.brief())
    if new.cls in core.CRASH or new.cls == "timeout":
        return {"status": "inconclusive", "key": None, "detail": detail}
    culprit = culprit_fix(src, sc, base, ran_clean) if descs and len(descs) > 1 else None
    if "Parse error" in new.err:
        return {"status": "violated", "key": None, "sig": "fixed-program-does-not-parse:%s:%s" % (tag, culprit or dsig), "detail": detail}
    if ran_clean and (new.out != base.out or first_line(new.err) is not None):
        return {"status": "violated", "key": None, "sig": "behaviour-changed:%s:%s" % (tag, culprit or dsig), "detail": detail}
    # fixed point
    cur = fixed
    rounds = 0
    for rounds in range(1, 7):
        p2 = sc.file(cur)
        f2 = core.run_garden(["check", "--fix", "--stdout", p2], timeout=30, cwd=sc.dir)
        if f2.cls in core.CRASH:
            return {"status": "violated", "key": None, "sig": "crash:fix-round:" + core.crash_sig(f2), "detail": dict(detail, round=rounds, text=cur)}
        if f2.cls == "timeout":
            return {"status": "inconclusive", "key": None, "detail": detail}
        if f2.out == cur:
            break
        cur = f2.out
    else:
        return {"status": "violated", "key": None, "sig": "no-fixed-point-in-5-rounds", "detail": dict(detail, last=cur)}
    if rounds > 1 and ran_clean:
        last = core.run_garden(["run", sc.file(cur)], timeout=30, cwd=sc.dir)
        if last.cls not in core.CRASH and last.cls != "timeout":
            if "Parse error" in last.err:
                return {"status": "violated", "key": None, "sig": "iterated-fix-does-not-parse:%s" % tag, "detail": dict(detail, last=cur, last_run=last.brief())}
            if last.out != base.out or first_line(last.err) is not None:
                return {"status": "violated", "key": None, "sig": "iterated-fix-behaviour-changed:%s" % tag, "detail": dict(detail, last=cur, last_run=last.brief())}
    keys = ["%s|%s|rounds%d" % (d, tag, min(rounds, 3)) for d in (descs or ["none"])]
    return {"status": "held", "key": None, "keys": keys}


def culprit_fix(src, sc, base, ran_clean):
    """Which single fix description, applied alone, already breaks the program? (for a precise signature)"""
    try:
        r = core.batch([{"op": "frontend", "src": src, "check": True}], timeout=60)[0]
    except Exception:
        return None
    import re
    by_desc = {}
    for d in (r or {}).get("diagnostics", []):
        for f in d.get("fixes", []):
            by_desc.setdefault(re.sub(r"`[^`]*`", "`_`", f["desc"]), []).append(f)
    bad = []
    data = src.encode("utf-8")
    for desc, fixes in sorted(by_desc.items()):
        out = data
        for f in sorted(fixes, key=lambda f: -f["pos"][0]):
            out = out[:f["pos"][0]] + f["new_text"].encode("utf-8") + out[f["pos"][1]:]
        try:
            text = out.decode("utf-8")
        except UnicodeDecodeError:
            bad.append(desc)
            continue
        run = core.run_garden(["run", sc.file(text)], timeout=30, cwd=sc.dir)
        if "Parse error" in run.err or (ran_clean and run.cls == "ok" and (run.out != base.out or first_line(run.err) is not None)):
            bad.append(desc)
    return "+".join(bad) if bad else None
