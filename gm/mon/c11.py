"""C11 Incremental session input equals running it as one program.

Twin runs of an error-free history (each name defined once, last input an expression):
  I: one `run` request per input;   J: all inputs joined by newlines in one `run` request.
Oracle (metamorphic): the value reported for the last input is the same (J's value is taken from the
"... and the expression evaluated to V." summary when J also loaded definitions / ran tests) and the concatenated
`printed` output is the same. Many histories share a process; each history uses its own names and ends with `:abort`
in both twins; a difference is confirmed by running that history alone in two fresh sessions.
"""
import random
import re

from .. import core
from .. import session
from ..gen import c_sess

ID = "C11"
LEVEL = "exploration"
RULE = ("case = error-free history of 1..8 inputs mixing fun/enum/struct/method/test definitions (incl. inputs whose last expression - an accumulating loop - is followed by definitions or wrapped in a "
        "top-level block / if, observed by a later input; methods on built-in "
        "types and methods submitted before the enum/struct they are attached to), top-level lets, assignments, "
        "+=, printing statements and expressions; the last input is an expression, a loop, an if or a match (with printed "
        "output); 30% of the histories send all inputs but the last with the path of a (virtual) file. distinct key = (number of "
        "inputs, set of input kinds, kind of the last input, with/without path)")
ASSUME = ["tests of a request run before its top-level expressions by design, so generated tests never print",
          "the generator only produces error-free histories; a history that fails in both twins is counted as trivial",
          "sibling evaluation order is never observable in generated inputs"]
BATCH = 60
FLOOR = {"quick": 150, "thorough": 500}
BUDGET = {"quick": 40, "thorough": 780}

EVAL_RE = re.compile(r"(?:, and the|^The) expression evaluated to (.*)\.$", re.S)


class G:
    """Generates one history; every name carries the history number `n`."""

    def __init__(self, rng, n):
        self.r, self.n = rng, n
        self.ints, self.strs, self.lists = [], [], []
        self.funs = []        # (name, arity)
        self.k = 0
        self.enum = self.struct = None
        self.method = None
        self.printing = set()
        self.calls = []       # templates of Int-valued method calls available now: ("(%s).m(%s)", n_int_args)
        self.scalls = []      # String -> String method names

    def name(self, p):
        self.k += 1
        return "%s%d_%d" % (p, self.n, self.k)

    def int_expr(self, depth=2, params=()):
        r = self.r
        c = r.random()
        if depth <= 0 or c < 0.25:
            pool = [str(r.randint(0, 9))] + list(params) + (self.ints if not params else [])
            return r.choice(pool)
        if c < 0.55:
            return "(%s %s %s)" % (self.int_expr(depth - 1, params), r.choice(["+", "-", "*"]), self.int_expr(depth - 1, params))
        if c < 0.7 and self.funs:
            f, ar = r.choice(self.funs)
            return "%s(%s)" % (f, ", ".join(self.int_expr(depth - 1, params) for _ in range(ar)))
        if c < 0.75 and self.calls and not params:
            t, k = r.choice(self.calls)
            return t % tuple(self.int_expr(depth - 1) for _ in range(k))
        if c < 0.78 and self.lists and not params:
            return "%s.len()" % r.choice(self.lists)
        if c < 0.86:
            return "(if %s < %s { %s } else { %s })" % (self.int_expr(depth - 1, params), self.int_expr(depth - 1, params),
                                                        self.int_expr(depth - 1, params), self.int_expr(depth - 1, params))
        if c < 0.92 and self.method and not params:
            return "%s{ a: %s }.%s(%s)" % (self.struct, self.int_expr(depth - 1), self.method, self.int_expr(depth - 1))
        if c < 0.97 and self.enum and not params:
            e = self.enum
            return "(match %s_B(%s) { %s_A => 0 %s_B(vq) => vq + 1 })" % (e, self.int_expr(depth - 1), e, e)
        return str(r.randint(10, 99))

    def str_expr(self):
        r = self.r
        c = r.random()
        if c < 0.3 and self.strs:
            return r.choice(self.strs)
        if c < 0.4 and self.scalls:
            return '"%s".%s()' % (r.choice(["k", "hé", ""]), r.choice(self.scalls))
        if c < 0.6:
            return "string_repr(%s)" % self.int_expr(1)
        if c < 0.8:
            return '("%s" ^ %s)' % (r.choice(["a", "b ", "hé"]), "string_repr(%s)" % self.int_expr(1))
        return '"%s"' % r.choice(["x", "yz", "", "☃"])

    # ---- inputs: (kind, source)
    def definition(self):
        r = self.r
        c = r.random()
        if c < 0.45 or (self.enum and self.struct):
            f = self.name("f")
            ar = r.randint(0, 2)
            ps = ["p%d" % i for i in range(ar)]
            body = self.int_expr(2, params=ps or ("1",))
            hint = r.random() < 0.4
            src = "fun %s(%s)%s { %s }" % (f, ", ".join((p + ": Int") if hint else p for p in ps), ": Int" if hint else "", body)
            if r.random() < 0.2:
                src = "fun %s(%s) { println(\"in %s\") %s }" % (f, ", ".join(ps), f, body)
            self.funs.append((f, ar))
            if "println" in src or any(q in src for q in self.printing):
                self.printing.add(f)
            return "fun", src
        if c < 0.65 and not self.enum:
            self.enum = self.name("E")
            return "enum", "enum %s { %s_A, %s_B(Int) }" % (self.enum, self.enum, self.enum)
        if not self.struct:
            self.struct = self.name("S")
            self.method = self.name("m")
            return "struct+method", "struct %s { a: Int }\nmethod %s(this: %s, o: Int): Int { this.a * o }" % (self.struct, self.method, self.struct)
        return self.let()

    def builtin_method(self):
        """A method on a built-in type."""
        r = self.r
        m = self.name("mb")
        c = r.random()
        if c < 0.45:
            self.calls.append(("(%s)." + m + "(%s)", 2))
            return "method-builtin", "method %s(this: Int, o: Int): Int { (this * 2) + o }" % m
        if c < 0.7:
            self.scalls.append(m)
            return "method-builtin", 'method %s(this: String): String { this ^ "!" }' % m
        self.calls.append(("[%s, 5]." + m + "(%s)", 2))
        return "method-builtin", "method %s<T>(this: List<T>, o: Int): Int { this.len() + o }" % m

    def early_method(self):
        """-> (method input, type input, call template): the method is submitted before its receiver type exists."""
        r = self.r
        m, t = self.name("me"), self.name("L")
        if r.random() < 0.5:
            return (("method-before-enum", "method %s(this: %s, o: Int): Int { o + %d }" % (m, t, r.randint(0, 9))),
                    ("enum-late", "enum %s { %s_A, %s_B(Int) }" % (t, t, t)),
                    (r.choice(["%s_A" % t, "%s_B(3)" % t]) + "." + m + "(%s)", 1))
        body = "this.a + o" if r.random() < 0.5 else "o * 2"
        return (("method-before-struct", "method %s(this: %s, o: Int): Int { %s }" % (m, t, body)),
                ("struct-late", "struct %s { a: Int }" % t),
                (t + "{ a: %s }." + m + "(%s)", 2))

    def test(self):
        # tests of a request run before its top-level expressions (by design), so a printing test would reorder the
        # output of the joined twin: tests only call functions that do not print
        saved = self.funs
        self.funs = [(f, a) for f, a in saved if f not in self.printing]
        e = self.int_expr(2, params=("2",))
        self.funs = saved
        return "test", "test %s { assert(%s == %s) }" % (self.name("t"), e, e)

    def let(self):
        r = self.r
        c = r.random()
        if c < 0.6:
            v = self.name("v")
            src = "let %s = %s" % (v, self.int_expr(2))
            self.ints.append(v)
            return "let", src
        if c < 0.8:
            v = self.name("s")
            src = "let %s = %s" % (v, self.str_expr())
            self.strs.append(v)
            return "let", src
        v = self.name("l")
        src = "let %s = [%s]" % (v, ", ".join(self.int_expr(1) for _ in range(r.randint(0, 4))))
        self.lists.append(v)
        return "let", src

    def assign(self):
        if not self.ints:
            return self.let()
        v = self.r.choice(self.ints)
        if self.r.random() < 0.5:
            return "assign", "%s = %s" % (v, self.int_expr(2))
        return "assign-update", "%s %s= %s" % (v, self.r.choice("+-"), self.int_expr(1))

    def stmt(self):
        c = self.r.random()
        if c < 0.5:
            return "print", "println(%s)" % self.str_expr()
        if c < 0.75:
            return "expr", self.int_expr(2)
        return self.loop("stmt-")

    def loop(self, prefix=""):
        r = self.r
        c = r.random()
        it = "vi%d" % self.n
        if c < 0.4:
            lst = r.choice(self.lists) if self.lists and r.random() < 0.5 else "[%s]" % ", ".join(self.int_expr(1) for _ in range(r.randint(0, 3)))
            return prefix + "for", "for %s in %s { println(string_repr(%s + %s)) }" % (it, lst, it, self.int_expr(1))
        if c < 0.6:
            w = self.name("w")
            self.ints.append(w)
            return prefix + "while", "let %s = 0 while %s < %d { %s += 1 println(string_repr(%s)) }" % (w, w, r.randint(0, 3), w, w)
        if c < 0.8:
            return prefix + "if", "if %s < %s { println(%s) }" % (self.int_expr(1), self.int_expr(1), self.str_expr())
        return prefix + "match", "match Some(%s) { Some(vq) => println(string_repr(vq)) None => println(\"none\") }" % self.int_expr(1)

    def tail_def(self):
        """A definition that can follow an expression inside the same input (never used later, unique name)."""
        r = self.r
        c = r.random()
        if c < 0.4:
            return "fun %s() { %d }" % (self.name("ft"), r.randint(0, 9))
        if c < 0.6:
            return "struct %s { q: Int }" % self.name("St")
        if c < 0.8:
            t = self.name("Et")
            return "enum %s { %s_X }" % (t, t)
        return "test %s { assert(%d == %d) }" % (self.name("tt"), 3, 3)

    def accum(self):
        """One input whose last *expression* has side effects (a loop accumulating into a top-level variable and
        printing) and is followed by definitions in the same input, or is wrapped in a top-level block / if."""
        r = self.r
        it = "vj%d" % self.n
        if not self.ints or r.random() < 0.4:
            acc = self.name("acc")
            pre = "let %s = 0\n" % acc
        else:
            acc, pre = r.choice(self.ints), ""
        items = ", ".join(self.int_expr(1) for _ in range(r.randint(2, 4)))
        c = r.random()
        if c < 0.4:
            loop = "for %s in [%s] { %s += %s println(string_repr(%s)) }" % (it, items, acc, it, acc)
        elif c < 0.6:
            w = self.name("wc")
            pre += "let %s = 0\n" % w
            loop = "while %s < %d { %s += 1 %s += %s println(string_repr(%s)) }" % (w, r.randint(2, 4), w, acc, self.int_expr(1), acc)
        elif c < 0.8:
            loop = "for %s in [%s] { if %s < %s { %s += %s } else { %s -= 1 } }" % (it, items, it, self.int_expr(1), acc, it, acc)
        else:
            loop = "%s = %s + %s\nprintln(string_repr(%s))" % (acc, acc, self.int_expr(1), acc)
        shape = r.random()
        if shape < 0.45:
            src = pre + loop + "\n" + "\n".join(self.tail_def() for _ in range(r.randint(1, 3)))
            kind = "effects-then-defs"
        elif shape < 0.65:
            src = pre + "{ " + loop.replace("\n", " ") + " }"
            kind = "effects-in-block"
        elif shape < 0.8:
            src = pre + "if %s < (%s + 1) { %s }" % (acc, acc, loop.replace("\n", " "))
            kind = "effects-in-if"
        elif shape < 0.9:
            src = pre + "{ " + loop.replace("\n", " ") + " }\n" + self.tail_def()
            kind = "effects-in-block-then-defs"
        else:
            src = self.tail_def() + "\n" + pre + loop + "\n" + self.tail_def()
            kind = "defs-effects-defs"
        if acc not in self.ints:
            self.ints.append(acc)
        self.observe = acc
        return kind, src

    def last(self):
        if getattr(self, "observe", None) and self.r.random() < 0.6:
            return "last-int", "(%s + %s)" % (self.observe, self.int_expr(2))
        c = self.r.random()
        if c < 0.35:
            return "last-int", self.int_expr(3)
        if c < 0.5:
            return "last-str", self.str_expr()
        if c < 0.6 and self.lists:
            return "last-list", self.r.choice(self.lists)
        if c < 0.7:
            return "last-tuple", "(%s, %s)" % (self.int_expr(1), self.str_expr())
        return self.loop("last-")

    def history(self):
        r = self.r
        n = r.randint(1, 8)
        out = []
        plan = {}
        if n >= 4 and r.random() < 0.35:
            i = r.randint(0, n - 4)
            j = r.randint(i + 1, n - 3)
            meth, typ, call = self.early_method()
            plan = {i: (meth, None), j: (typ, call)}
        for idx in range(n - 1):
            if idx in plan:
                item, call = plan[idx]
                out.append(item)
                if call:
                    self.calls.append(call)
                    self.calls.append(call)      # favour it
                continue
            c = r.random()
            if c < 0.08:
                out.append(self.builtin_method())
            elif c < 0.2:
                out.append(self.accum())
            elif c < 0.3:
                out.append(self.definition())
            elif c < 0.5:
                out.append(self.let())
            elif c < 0.65:
                out.append(self.assign())
            elif c < 0.75:
                out.append(self.test())
            else:
                out.append(self.stmt())
        out.append(self.last())
        return out


FIXED = [
    [("last-for", "for zz in [5, 6] { println(string_repr(zz)) }")],
    [("let", "let q0 = 1"), ("last-for", "for zz in [q0, 2] { println(string_repr(zz)) }")],
    [("fun", "fun g0(a) { a + 1 }"), ("last-int", "g0(1)")],
    [("last-while", "let w0 = 0 while w0 < 2 { w0 += 1 println(string_repr(w0)) }")],
    [("let", "let q1 = 1"), ("assign", "q1 = q1 + 1"), ("last-int", "q1")],
    [("test", "test t0 { assert(1 == 1) }"), ("last-int", "2")],
    [("method-before-enum", "method me0(this: L0, o: Int): Int { o + 1 }"), ("enum-late", "enum L0 { L0_A, L0_B(Int) }"), ("last-int", "L0_A.me0(2)")],
    [("method-before-struct", "method ms0(this: K0, o: Int): Int { this.a + o }"), ("struct-late", "struct K0 { a: Int }"), ("last-int", "K0{ a: 1 }.ms0(2)")],
    [("method-builtin", "method mi0(this: Int, o: Int): Int { this + o }"), ("last-int", "3.mi0(4)")],
    [("let", "let total0 = 0"), ("effects-then-defs", "for x0 in [1, 2, 3] { total0 += x0 }\nfun later0() { 1 }"), ("last-int", "total0 + later0()")],
    [("let", "let total1 = 0"), ("effects-in-block", "{ for x1 in [1, 2, 3] { total1 += x1 println(string_repr(total1)) } }"), ("last-int", "total1")],
    [("let", "let total2 = 0"), ("effects-in-if", "if True { for x2 in [1, 2, 3] { total2 += x2 } }"), ("last-int", "total2")],
    [("effects-then-defs", "let total3 = 0\nlet w3 = 0\nwhile w3 < 3 { w3 += 1 total3 += w3 }\nstruct S3 { q: Int }\ntest t3 { assert(1 == 1) }"), ("last-int", "total3 + w3")],
    [("let", "let total4 = 0"), ("effects-then-defs", "total4 = total4 + 5\nprintln(string_repr(total4))\nenum E4 { E4_X }"), ("last-int", "total4")],
    [("fun", "fun g1() { println(\"g1\") 3 }"), ("print", "println(\"a\")"), ("last-int", "g1() + g1()")],
]


def gen_cases(tier, seed):
    for i, h in enumerate(FIXED):
        yield {"n": i, "inputs": [s for _, s in h], "kinds": [k for k, _ in h]}
    yield {"_marker": "fixed-histories", "histories": len(FIXED), "space": "loops / lets / tests in last and non-last position"}
    rng = random.Random(seed * 15485863 + 11)
    n = len(FIXED)
    while True:
        n += 1
        h = G(rng, n).history()
        yield {"n": n, "inputs": [s for _, s in h], "kinds": [k for k, _ in h], "path": rng.random() < 0.3}


def value_of(summ):
    """-> ("ok", value text) | ("err", message)"""
    if summ[0] == "ok":
        v = summ[1]
        if v is None:
            return ("ok", None)
        m = EVAL_RE.search(v)
        if m:
            return ("ok", m.group(1))
        if v.startswith(("Loaded ", "Ran ")) and "evaluated to" not in v:
            return ("ok", None)      # summary without a value (last input yields nothing to show)
        return ("ok", v)
    if summ[0] == "err":
        return ("err", summ[1])
    return (summ[0], None)


def run_twins(cases, sc):
    out = [None] * len(cases)
    start = 0
    while start < len(cases):
        I, J, spans = [], [], []
        for c in cases[start:]:
            a = len(I)
            if c.get("path") and len(c["inputs"]) > 1:
                # editor workflow: definitions are sent with the path of their file, the last input is typed at the
                # prompt without one and relies on the session having switched to that file's namespace
                P = sc.dir + "/session_file.gdn"
                I += [dict(c_sess.run(x), path=P) for x in c["inputs"][:-1]] + [c_sess.run(c["inputs"][-1])]
                joined = dict(c_sess.run("\n".join(c["inputs"])), path=P)
            else:
                I += [c_sess.run(x) for x in c["inputs"]]
                joined = c_sess.run("\n".join(c["inputs"]))
            I.append(c_sess.run(":abort"))
            b = len(J)
            J.append(joined)
            J.append(c_sess.run(":abort"))
            spans.append((a, len(c["inputs"]), b))
        si = c_sess.run_script(I, sc, timeout=120)
        sj = c_sess.run_script(J, sc, timeout=120)
        restart = None
        for j, (a, k, b) in enumerate(spans):
            i = start + j
            if a + k + 1 > len(si.resps) or b + 2 > len(sj.resps):
                who = si if a + k + 1 > len(si.resps) else sj
                out[i] = {"crash": c_sess.crash_info(who), "where": "incremental" if who is si else "joined"}
                restart = i + 1
                break
            steps = [si.summary(x) for x in range(a, a + k)]
            out[i] = {"steps": steps, "iout": "".join(si.out[a:a + k]), "ival": value_of(steps[-1]),
                      "jval": value_of(sj.summary(b)), "jout": sj.out[b], "jraw": sj.summary(b)}
        if restart is None:
            break
        start = restart
    return out


def judge(case, h):
    kinds = case["kinds"]
    key = "%d | %s | %s%s" % (len(kinds), ",".join(sorted(set(k for k in kinds[:-1]))), kinds[-1], " | with-path" if case.get("path") else "")
    if "crash" in h:
        if h["crash"][0] == "crash":
            return "violated", key, "session-died:%s:%s" % (h["where"], h["crash"][1]), {"stderr": h["crash"][2][-500:]}
        return "inconclusive", None, None, {"note": "session lost", "crash": h["crash"][:2]}
    ierrs = [s for s in h["steps"] if s[0] != "ok"]
    jerr = h["jval"][0] != "ok"
    detail = {"inputs": case["inputs"], "incremental": {"value": h["ival"], "printed": h["iout"]},
              "joined": {"value": h["jval"], "printed": h["jout"]}}
    if ierrs and jerr:
        return "held", None, None, None       # not an error-free history
    if ierrs or jerr:
        detail["first_error"] = c_sess.brief(ierrs[0] if ierrs else h["jraw"])
        return "violated", key, "error-in-%s-only:%s" % ("incremental" if ierrs else "joined", kinds[-1]), detail
    if h["iout"] != h["jout"]:
        return "violated", key, "printed-output-differs:%s" % kinds[-1], detail
    if h["ival"] != h["jval"]:
        return "violated", key, "value-differs:%s" % kinds[-1], detail
    return "held", key, None, None


def run_batch(cases):
    res = []
    with core.Scratch("gm-c11-") as sc:
        hs = run_twins(cases, sc)
        confirmed = set()
        for c, h in zip(cases, hs):
            if h is None:
                res.append({"status": "inconclusive", "key": None, "detail": {"note": "history not reached"}})
                continue
            st, key, sig, detail = judge(c, h)
            if st == "violated" and sig not in confirmed:
                h2 = run_twins([c], sc)[0]
                st2, key2, sig2, detail2 = judge(c, h2) if h2 is not None else ("inconclusive", None, None, None)
                if st2 != "violated":
                    res.append({"status": "inconclusive", "key": key, "detail": {"note": "difference only after earlier histories in the same process", "sig": sig, "batch": detail}})
                    continue
                confirmed.add(sig2)
                st, key, sig, detail = st2, key2, sig2, detail2
            if st == "violated":
                res.append({"status": "violated", "key": key, "sig": sig, "detail": detail})
            elif st == "inconclusive":
                res.append({"status": "inconclusive", "key": None, "detail": detail})
            else:
                res.append({"status": "held", "key": key})
    return res
