"""C20 Extract variable and extract function preserve behaviour.

For every pure, total sub-expression of a generated assignment-free program, `reftest-extract-variable`
and `reftest-extract-function` (fresh name) must produce a program that parses and - the original having
run without error - prints the same output and ends the same way.
"""
import random

from .. import core
from ..gen import prog as G
from ..gen import printer
from ..ref import interp

ID = "C20"
LEVEL = "exploration"
RULE = ("cases = (seeded assignment-free program, selected pure+total sub-expression, tool in {variable, function}); "
        "selection = exact byte span of the expression known from the printer; distinct key = (tool, expression kind, "
        "enclosing construct, whether free variables are involved, tool outcome)")
ASSUME = ["purity/totality marks of gm/gen/prog.py are correct (no print, no assignment, cannot raise)",
          "a refusal (exit 10 with a message) is not a violation: the property speaks about the programs the tool produces"]
BATCH = 1
FLOOR = {"quick": 20, "thorough": 40}
BUDGET = {"quick": 35, "thorough": 840}


def gen_cases(tier, seed):
    i = 0
    while True:
        yield {"seed": seed * 86028121 + i}
        i += 1


def build(case):
    pr = G.generate(case["seed"], G.Opts(assign=False, while_loops=False, errors=0.0, n_main=6, n_funs=2, shadow=0.5))
    # half of the programs are printed WITHOUT parameter / return annotations: values then have `Any` inside their
    # inferred types (tuples, lists, options of un-annotated parameters), which the tools must not write as hints
    src, p = printer.print_program(pr, annotate=(case["seed"] % 2 == 0))
    if case["seed"] % 3 != 2 and force_match_shadow(pr, p):
        src, p = printer.print_program(pr, annotate=(case["seed"] % 2 == 0))
    return pr, src, p


def force_match_shadow(pr, p):
    """Rename the binder of an earlier `match` arm to the name of an outer variable that a LATER arm reads (the
    arm's own body must not read that variable): scoping of one arm must not leak into the next. Behaviour is
    unchanged. -> True if something was renamed."""
    spans = {id(e): (st, en) for e, st, en in p.nodes}
    defs = [(b[0], b[2]) for b in p.binders if b[4] == "def"]
    changed = []

    def visit(n):
        if n.get("k") != "match" or id(n) not in spans or len(changed) >= 2:
            return
        st, en = spans[id(n)]
        inside = {bid for bid, at in defs if st <= at < en}
        arms = n["arms"]
        for i, a in enumerate(arms[:-1]):
            if not a.get("bind") or a["bind"][0] == "_":
                continue
            mine = set()
            G.walk(a["body"], lambda m: mine.add(m.get("name")) if m.get("k") == "var" else None)
            for later in arms[i + 1:]:
                outer = []
                G.walk(later["body"], lambda m: outer.append(m["name"]) if m.get("k") == "var" and m.get("bid") not in inside else None)
                outer = [w for w in outer if w not in mine and w != a["bind"][0]]
                if outer:
                    new, bid = outer[0], a["bind"][1]
                    a["bind"][0] = new
                    G.walk(a["body"], lambda m: m.__setitem__("name", new) if m.get("k") == "var" and m.get("bid") == bid else None)
                    changed.append(new)
                    return
    G.walk(pr, visit)
    return bool(changed)


def enclosing_kinds(pr):
    """id(expr) -> kind of the nearest enclosing statement/expression construct."""
    enc = {}

    def walk(n, ctx):
        if isinstance(n, dict):
            k = n.get("k")
            if "ty" in n and k:
                enc[id(n)] = ctx
            nctx = ctx
            if k in ("while", "for", "if", "match", "lambda", "let", "letd"):
                nctx = k
            for kk, v in n.items():
                if k == "for" and kk == "e":
                    walk(v, "for-header")
                elif k == "if" and kk == "cond":
                    walk(v, "if-cond")
                elif k == "match" and kk == "scrut":
                    walk(v, "match-scrutinee")
                else:
                    walk(v, nctx)
        elif isinstance(n, list):
            for v in n:
                walk(v, ctx)
    for f in pr["funs"]:
        walk(f["body"], "fun-body")
    walk(pr["main"], "toplevel")
    return enc


def has_var(e):
    found = []
    G.walk(e, lambda n: found.append(1) if n.get("k") == "var" else None)
    return bool(found)


def run_batch(cases):
    out = []
    with core.Scratch("gm-c20-") as sc:
        for case in cases:
            out.append(run_case(case, sc))
    return out


def first_line(err):
    for line in err.split("\n"):
        if line.startswith("Exception:") or line.startswith("Error:"):
            return line
    return None


def run_case(case, sc):
    pr, src, p = build(case)
    try:
        exp = interp.run(pr)
    except interp.Budget:
        return {"status": "held", "key": None}
    path = sc.file(src)
    base = core.run_garden(["run", path], timeout=30, cwd=sc.dir)
    if base.cls != "ok" or first_line(base.err) is not None:
        return {"status": "held", "key": None}      # property only speaks about originals that ran without error
    enc = enclosing_kinds(pr)
    rng = random.Random(case["seed"])
    cands = [(e, st, en) for e, st, en in p.nodes
             if e["pure"] and e["total"] and e["k"] not in ("var", "int", "bool", "str", "unit", "none", "lambda")
             and e["ty"] != G.UNIT and not (isinstance(e["ty"], list) and e["ty"][0] == "Fun")]
    if len(cands) > 5:
        # in un-annotated programs favour selections whose inferred type has an un-annotated parameter inside a
        # composite type (tuple, list, option ...): those are the types a hint cannot spell
        param_bids = {b for f in pr["funs"] for _, b, _ in f["params"]}

        def score(c):
            e = c[0]
            uses = []
            G.walk(e, lambda n: uses.append(1) if n.get("k") == "var" and n.get("bid") in param_bids else None)
            comp = isinstance(e["ty"], list) and e["ty"][0] in ("Tuple", "List", "Option", "Result")
            return (2 if (uses and comp) else 1 if uses else 0)
        def self_shadow(c):
            hit = []

            def f(n):
                if n.get("k") == "let":
                    G.walk(n["e"], lambda m: hit.append(1) if m.get("k") == "var" and m.get("name") == n["name"] else None)
            G.walk(c[0], f)
            return 1 if hit else 0
        def arm_shadow(c):
            hit = []

            def f(n):
                if n.get("k") == "match":
                    for i, a in enumerate(n["arms"][:-1]):
                        if a.get("bind"):
                            for later in n["arms"][i + 1:]:
                                G.walk(later["body"], lambda m: hit.append(1) if m.get("k") == "var" and m.get("name") == a["bind"][0]
                                       and m.get("bid") != a["bind"][1] else None)
            G.walk(c[0], f)
            return 1 if hit else 0
        bare = case["seed"] % 2 == 1
        rng.shuffle(cands)
        forced = [c for c in cands if arm_shadow(c)][:2]
        if bare:
            cands.sort(key=score, reverse=True)
            cands = cands[:3] + rng.sample(cands[3:], 2)
        else:
            # favour selections that contain `let x = <expr reading the outer x>`
            cands.sort(key=self_shadow, reverse=True)
            cands = cands[:2] + rng.sample(cands[2:], 3)
        cands = forced + [c for c in cands if not any(c[0] is f[0] for f in forced)]
    # runs of sibling statements: a whole pure block body (lets, discarded pure expressions, final value) selected at once
    runs = []

    def pure_stmt(x):
        if x["k"] == "let":
            return x["e"]["pure"] and x["e"]["total"]
        if x["k"] == "expr":
            return x["e"]["pure"] and x["e"]["total"]
        return False

    def find_runs(n):
        if isinstance(n, dict):
            for key in ("then", "els", "body"):
                b = n.get(key)
                if isinstance(b, list) and len(b) >= 2 and all(isinstance(x, dict) and "_span" in x and pure_stmt(x) for x in b) \
                        and b[-1]["k"] == "expr" and b[-1]["e"]["ty"] != G.UNIT and b[0]["k"] == "let" \
                        and not (isinstance(b[-1]["e"]["ty"], list) and b[-1]["e"]["ty"][0] == "Fun"):
                    runs.append((b[0]["_span"][0], b[-1]["_span"][1], b))
            for v in n.values():
                find_runs(v)
        elif isinstance(n, list):
            for v in n:
                find_runs(v)
    find_runs(pr["funs"])
    find_runs(pr["main"])
    rng.shuffle(runs)
    run_cands = [({"k": "stmt-run", "ty": b[-1]["e"]["ty"], "pure": True, "total": True, "_n": len(b)}, a, z) for a, z, b in runs[:2]]
    keys = set()
    for e, st, en in cands + run_cands:
        for tool in (("function",) if e["k"] == "stmt-run" else ("variable", "function")):
            r = core.run_garden(["reftest-extract-" + tool, path, str(st), str(en), "--name", "verif_extracted"],
                                timeout=30, cwd=sc.dir)
            ctx = enc.get(id(e), "?") if e["k"] != "stmt-run" else "block"
            kbase = "%s|%s|%s|%s|%s" % (tool, e["k"], ctx, "vars" if has_var(e) else "closed", "annotated" if case["seed"] % 2 == 0 else "bare")
            detail = {"src": src, "selection": [st, en], "selected_text": src[st:en], "tool": tool}
            wit = dict(case, only=[st, en, tool])
            if r.cls in core.CRASH:
                return {"status": "violated", "key": None, "sig": "crash:%s:%s" % (tool, core.crash_sig(r)),
                        "detail": dict(detail, observed=r.brief()), "case": wit}
            if r.cls == "timeout":
                return {"status": "inconclusive", "key": None, "detail": detail}
            if r.cls == "badreq":
                keys.add(kbase + "|refused")
                continue
            new_src = r.out
            detail["result"] = new_src
            npath = sc.file(new_src)
            r2 = core.run_garden(["run", npath], timeout=30, cwd=sc.dir)
            detail["orig_run"] = base.brief()
            detail["new_run"] = r2.brief()
            if r2.cls in core.CRASH or r2.cls == "timeout":
                return {"status": "inconclusive", "key": None, "detail": detail}
            if "Parse error" in r2.err or r2.cls == "diag":
                return {"status": "violated", "key": None, "sig": "result-does-not-parse:%s:%s" % (tool, ctx), "detail": detail, "case": wit}
            if r2.out != base.out or first_line(r2.err) is not None:
                return {"status": "violated", "key": None, "sig": "behaviour-changed:%s:%s" % (tool, ctx), "detail": detail, "case": wit}
            keys.add(kbase + "|ok")
    return {"status": "held", "key": None, "keys": sorted(keys)}
