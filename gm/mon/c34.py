"""C34 Only public definitions are visible through imports.

A case is one generated project (gm/ref/dvisibility.py) of 1..3 files in a scratch directory. Every file
contains, as one-line `test` blocks, accesses to its own definitions, to the definitions of the files it
imports (qualified through `as` aliases and unqualified) and to the definitions of files it can only reach
through another file's imports. The reference model says for each access whether it must succeed.
For every file F of the project taken as the root:
  * `garden check --json F`: an access that must succeed has no error diagnostic on its line, an access that must
    fail has at least one;
  * `garden test F`: the access's test passes (the function returned its own distinct constant) iff it must succeed;
and for file 0 additionally
  * `garden run` of a root with the same imports and all must-succeed accesses at top level runs to its end marker;
  * `garden run` of a root whose first statement is a must-fail access prints an error and never the marker.
Every command must end (cyclic and self imports): a crash is a violation; a watchdog is re-run alone with a
10x budget before it is called one.
"""
import json
import random

from .. import core
from .. import findings
from ..ref import dvisibility as V

ID = "C34"
LEVEL = "exploration"
TECHNIQUE = "runtime-monitoring"
RULE = ("case = one generated project (import graph shape in {single, chain, triangle(diamond on 3 files), fan, "
        "2-cycle, 3-cycle, 2-cycle with tail, all-mutual, self-import, self-import plus file} x import style in "
        "{as, plain, mixed, both} x random public/private mixes of functions and methods, function names defined "
        "twice (public then private, private then public: the last definition decides), imports before or after "
        "definitions), every file used as root for check and test, file 0 also for run; distinct key = (shape, "
        "import style, sorted set of judged access classes (own / qualified / unqualified / method / transitive x "
        "public / private) x outcome)")
ASSUME = ["the visibility rules of website/keyword:public.md and keyword:import.md are the specification; enum "
          "variants and struct types are not covered by them and are not judged",
          "`garden test` evaluates test bodies with the same evaluator and import loader as `garden run`"]
BATCH = 1
FLOOR = {"quick": 8, "thorough": 40}
BUDGET = {"quick": 25, "thorough": 600}


def corpus_cases():
    """Committed regression inputs (every defect found so far), /verif/corpus/<ID>/*.json."""
    import glob
    import os
    out = []
    for p in sorted(glob.glob(os.path.join(core.VERIF, "corpus", ID, "*.json"))):
        with open(p) as f:
            out.append(json.load(f))
    return out


def gen_cases(tier, seed):
    rng = random.Random(seed * 7727 + 34)
    for c in corpus_cases():
        yield c
    # every shape once with each pure import style
    for shape in V.SHAPES:
        for mode in ("as", "plain"):
            yield {"project": V.gen_project(rng, shape, mode), "cseed": rng.getrandbits(32)}
    for shape, mode in (("single", "as"), ("single", "plain"), ("cycle2", "both"), ("chain", "mixed")):
        yield {"project": V.gen_project(rng, shape, mode, redefs=True), "cseed": rng.getrandbits(32)}
    yield {"_marker": "shapes x {as, plain}", "shapes": len(V.SHAPES),
           "space": "one project per import graph shape and pure import style"}
    while True:
        yield {"project": V.gen_project(rng), "cseed": rng.getrandbits(32)}


class Bad(Exception):
    def __init__(self, sig, what, **detail):
        Exception.__init__(self, sig)
        self.sig = sig
        self.detail = dict(detail, what=what)


class Inconclusive(Exception):
    pass


def run(args, cwd, timeout=20):
    r = core.run_garden(args, cwd=cwd, timeout=timeout)
    if r.timed_out:
        r2 = core.run_garden(args, cwd=cwd, timeout=timeout * 10)
        if r2.timed_out:
            raise Bad("import-does-not-terminate:%s" % args[0], "garden %s did not finish in %ds when run alone"
                      % (args[0], timeout * 10), args=args)
        r = r2
    if r.cls in core.CRASH or r.cls.startswith("signal"):
        raise Bad("crash:%s:%s" % (args[0], core.crash_sig(r)), "garden %s crashed" % args[0], run=r.brief(),
                  args=args)
    return r


def check_file(project, fi, sc, keys, bads):
    src, table = V.render_file(project, fi)
    name = project["files"][fi]["name"]
    # --- check
    r = run(["check", "--json", name], sc.dir)
    err_lines = {}
    for line in r.out.split("\n"):
        line = line.strip()
        if not line.startswith("{"):
            continue
        try:
            d = json.loads(line)
        except ValueError:
            continue
        if d.get("severity") == "error":
            err_lines.setdefault(d.get("line_number"), []).append(d.get("message"))
    if r.rc not in (0, 1):
        raise Bad("check-odd-exit", "garden check exited with %s" % r.rc, run=r.brief())
    # --- test
    t = run(["test", name], sc.dir)
    import re
    failed = {}
    for m in re.finditer(r"^Failed: (\S+)[^\n]*\n  ([^\n]*)", t.out, re.M):
        failed[m.group(1)] = m.group(2)
    m = re.search(r"^Ran (\d+) test", t.out, re.M)
    if not m or int(m.group(1)) != len(table):
        raise Bad("tests-not-run", "garden test did not run every access test", run=t.brief(), expected=len(table))
    for line_no, tname, a in table:
        if a["expect"] is None:
            continue
        ctx = {"file": name, "line": line_no, "access": a, "source": src}
        chk_ok = line_no not in err_lines
        run_ok = tname not in failed
        vis = a["what"]
        if a["expect"]:
            if not chk_ok:
                bads.append(Bad("public-unreachable:%s:check" % vis, "check rejects an access the model allows",
                                diagnostics=err_lines[line_no], **ctx))
            if not run_ok:
                bads.append(Bad("public-unreachable:%s:run" % vis, "evaluation fails for an access the model allows",
                                error=failed[tname], **ctx))
        else:
            if chk_ok:
                bads.append(Bad("private-reachable:%s:check" % vis, "check accepts an access the model forbids",
                                **ctx))
            if run_ok:
                bads.append(Bad("private-reachable:%s:run" % vis,
                                "evaluation succeeds for an access the model forbids", **ctx))
        keys.add("%s:%s" % (vis, "ok" if a["expect"] else "rejected"))
    return table


def check_run(project, sc, table, rng, skip):
    good = [a for _, _, a in table if a["expect"] is True and not a["what"].startswith("own:")]
    bad = [a for _, _, a in table if a["expect"] is False]
    rng.shuffle(good)
    src = V.render_run_file(project, 0, good)
    sc.file(src, name="run_ok.gdn")
    r = run(["run", "run_ok.gdn"], sc.dir)
    if "DV-DONE" not in r.out or "Exception" in r.err or "Error" in r.err:
        raise Bad("public-unreachable:run-root", "garden run fails on a root that only uses public definitions",
                  run=r.brief(), source=src)
    bad = [a for a in bad if a["expr"] not in skip]
    if bad:
        a = rng.choice(bad)
        src = V.render_run_file(project, 0, [a] + good[:2])
        sc.file(src, name="run_bad.gdn")
        r = run(["run", "run_bad.gdn"], sc.dir)
        if "DV-DONE" in r.out or not (r.err.strip() or r.rc != 0):
            raise Bad("private-reachable:%s:run-root" % a["what"],
                      "garden run evaluates an access the model forbids", run=r.brief(), source=src)


def run_case(case):
    project = case["project"]
    rng = random.Random(case.get("cseed", 0))
    keys = set()
    bads = []
    with core.Scratch("gm-c34-") as sc:
        try:
            for fi in range(len(project["files"])):
                src, _ = V.render_file(project, fi)
                sc.file(src, name=project["files"][fi]["name"])
            table0 = None
            for fi in range(len(project["files"])):
                tb = check_file(project, fi, sc, keys, bads)
                if fi == 0:
                    table0 = tb
            # accesses already found reachable against the model are not tried again through `garden run`
            check_run(project, sc, table0, rng, {b.detail["access"]["expr"] for b in bads if "access" in b.detail})
        except Bad as b:
            bads.append(b)
        except Inconclusive as e:
            return {"status": "inconclusive", "key": None, "detail": {"what": str(e)}}
        if bads:
            # one result per case: report a violation that is not a recorded finding first, so that a known
            # defect (defect model in known_findings.txt) never hides a new one in the same project
            known = findings.load(ID)
            bads.sort(key=lambda b: findings.match(known, b.sig) is not None)
            b = bads[0]
            return {"status": "violated", "key": case_key(project, keys) if keys else None, "sig": b.sig,
                    "detail": dict(b.detail, shape=project["shape"], alias_mode=project["alias_mode"],
                                   all_signatures=sorted({x.sig for x in bads}))}
    return {"status": "held", "key": case_key(project, keys)}


def case_key(project, keys):
    return "%s %s [%s]" % (project["shape"], project["alias_mode"], ",".join(sorted(keys)))


def run_batch(cases):
    return [run_case(c) for c in cases]
