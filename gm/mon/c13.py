"""C13 `==` is structural equality on values.

Oracle: gm.ref.bval.equal on abstract values (ints by value, floats by value, strings by code points,
lists/tuples element-wise, dicts as key->value maps, enums by variant and payload, structs by type and
fields; values of different types are never equal). Every case evaluates a small matrix
`[(r) == (c), (r) != (c), ...]` in the real interpreter; each operand is written out again at every
use, so the two sides never share a reference.
"""
import random

from ..gen import b_sess
from ..gen import b_values as gv
from ..ref import bval

ID = "C13"
LEVEL = "exploration"
RULE = ("case = a matrix of `r == c` and `r != c` over separately written operands; exhaustive part: all ordered pairs "
        "of a pool of ~300 literal values of depth <= 3 (ints, floats, strings, lists, tuples, dicts incl. reordered "
        "and overwritten keys, Option/Result/Bool/Unit, user enums, structs incl. generic); random part: deeper "
        "values vs. copy / one-place mutation / equal rewrite / the same value built through operations "
        "(append, concat, slice, ^, Dict.set, function return), checked in both orders and as triples; "
        "distinct key = (shape class of lhs, shape class of rhs, expected verdict)")
ASSUME = ["gm/ref/bval.py reads 'structurally the same value' as: same constructor, same type name, equal parts; "
          "dict entry order and overwritten keys are not part of the value",
          "-0.0 and NaN are not generated (IEEE equality and printed form disagree there)"]
BATCH = 30
FLOOR = {"quick": 300, "thorough": 600}
BUDGET = {"quick": 40, "thorough": 600}
CHUNK = 26

_POOL = None


def pool():
    global _POOL
    if _POOL is None:
        _POOL = gv.c13_pool()
    return _POOL


def _rows():
    n = len(pool())
    rows = [{"t": "row", "a": i, "bs": list(range(j, min(n, j + CHUNK)))} for i in range(n) for j in range(0, n, CHUNK)]
    # a fixed stride permutation: when the budget cuts the pool short, the rows done are spread over all types
    m = len(rows)
    step = 389
    while m % step == 0:
        step += 2
    return [rows[(k * step) % m] for k in range(m)]


def _random_cases(rng):
    while True:
        k = rng.random()
        depth = rng.choice([1, 2, 2, 3, 3, 4, 5])
        a = gv.rand_value(rng, depth)
        if k < 0.35:
            # copy, mutation, mutation of mutation: all pairs
            b = gv.mutate(rng, a)
            c = gv.mutate(rng, b) if rng.random() < 0.5 else gv.rand_value(rng, depth)
            vals = [a, a, b, c]
            yield {"t": "mat", "vals": vals, "srcs": [bval.src(v, style=rng.choice([0, 1]), safe=False) for v in vals]}
        elif k < 0.75:
            # the same value built through operations, against the literal and against a near miss
            b = gv.mutate(rng, a)
            vals = [a, a, b, b]
            yield {"t": "mat", "vals": vals, "alt": True,
                   "srcs": [bval.src(a, safe=False), gv.alt_src(rng, a), bval.src(b, safe=False), gv.alt_src(rng, b)]}
        else:
            # equal rewrites of dicts / triples for transitivity
            d = gv.D(*[(gv.rand_string(rng, 3), gv.rand_value(rng, 2)) for _ in range(rng.randint(1, 4))])
            items = list(d[1])
            rng.shuffle(items)
            d2 = ["dict", items] if len(set(k for k, _ in items)) == len(items) else d
            d3 = ["dict", [["b_tmp", gv.I(0)]] + list(d2[1])]
            vals = [d, d2, gv.SOME(d), gv.SOME(d2), d3, a]
            yield {"t": "mat", "vals": vals, "srcs": [bval.src(v, safe=False) for v in vals]}


def _empties_cases():
    """Equal values whose empty lists were built in different ways (different inferred element types),
    inside tuples / lists / options / dicts, against each other and against a near miss."""
    from . import c32
    for wname, wabs, wsrc in c32.WRAPS:
        k = wsrc.count("%s")
        srcs = [wsrc % ((e,) * k) for e in c32.EMPTIES] + [wsrc % (("[7]",) * k)]
        vals = [wabs(c32.EMPTY) for _ in c32.EMPTIES] + [wabs(["list", [["int", 7]]])]
        yield {"t": "mat", "vals": vals, "srcs": srcs, "alt": True}


def gen_cases(tier, seed):
    for c in _empties_cases():
        yield c
    rng = random.Random(seed * 1000003 + 13)
    rnd = _random_cases(rng)
    n = len(pool())
    for k, row in enumerate(_rows()):
        yield row
        if k % 5 == 4:
            yield next(rnd)      # keep the random classes represented when the budget cuts the pool short
    yield {"_marker": "pool-all-pairs", "values": n, "ordered_pairs": n * n,
           "space": "every ordered pair of the literal pool, == and !="}
    for c in rnd:
        yield c


def tag(v):
    if bval.has_float(v):
        return "float"
    s = bval.src(v, safe=False)
    if "Dict[" in s:
        return "dict"
    return v[0] if v[0] != "enum" else "enum"


def _matrix_src(rs, cs):
    parts = []
    for r in rs:
        for c in cs:
            parts.append("(%s) == (%s)" % (r, c))
            parts.append("(%s) != (%s)" % (r, c))
    return "[" + ", ".join(parts) + "]"


def _expand(case):
    """-> (row sources, row values, col sources, col values)"""
    if case["t"] == "row":
        p = pool()
        a = p[case["a"]]
        bs = [p[j] for j in case["bs"]]
        return [bval.src(a, safe=False)], [a], [bval.src(b, safe=False) for b in bs], bs
    return case["srcs"], case["vals"], case["srcs"], case["vals"]


def _parse_bools(text):
    try:
        v = bval.read(text)
    except (bval.ReadError, RecursionError):
        return None
    if v[0] != "list":
        return None
    out = []
    for x in v[1]:
        if x[0] != "enum" or x[1] not in ("True", "False") or x[2] is not None:
            return None
        out.append(x[1] == "True")
    return out


def _judge(case, rs, rv, cs, cv, res):
    """res: session result for the matrix expression."""
    r = res["res"]
    keys = set()
    if r[0] == "crash":
        return {"status": "violated", "key": None, "sig": "crash:" + r[1],
                "detail": {"src": _matrix_src(rs, cs)[:600], "stderr": r[2]}}
    if r[0] != "ok":
        return None     # decided pair by pair
    bools = _parse_bools(r[1])
    if bools is None or len(bools) != 2 * len(rs) * len(cs):
        return None
    k = 0
    for i, a in enumerate(rv):
        for j, b in enumerate(cv):
            exp = bval.equal(a, b)
            eq, ne = bools[k], bools[k + 1]
            k += 2
            key = "%s | %s | %s" % (bval.shape(a, 1), bval.shape(b, 1), "eq" if exp else "ne")
            keys.add(key)
            if eq != exp or ne != (not exp):
                if eq == ne:
                    sig = "!=-is-not-negation-of-==:%s" % tag(a)
                elif exp:
                    sig = "==:false-negative:%s" % tag(a)
                else:
                    sig = "==:false-positive:%s" % tag(a)
                if case.get("alt") and exp and eq != exp:
                    sig += ":built-differently"
                return {"status": "violated", "key": key, "sig": sig,
                        "detail": {"lhs": rs[i], "rhs": cs[j], "expected_equal": exp,
                                   "observed": {"==": eq, "!=": ne}}}
    return {"status": "held", "key": sorted(keys)[0] if keys else None, "_keys": sorted(keys)}


def run_batch(cases):
    exp = [_expand(c) for c in cases]
    srcs = [_matrix_src(e[0], e[2]) for e in exp]
    outs = b_sess.eval_many(srcs, preamble=gv.PREAMBLE, timeout=120)
    results = [None] * len(cases)
    redo = []
    for i, (c, e, o) in enumerate(zip(cases, exp, outs)):
        j = _judge(c, e[0], e[1], e[2], e[3], o)
        if j is None:
            redo.append(i)
        else:
            results[i] = j
    # cases whose matrix did not evaluate to a list of Bool: evaluate every comparison on its own
    for i in redo:
        c, e = cases[i], exp[i]
        pairs = [(a, b, x, y) for a, x in zip(e[0], e[1]) for b, y in zip(e[2], e[3])]
        singles = ["[(%s) == (%s), (%s) != (%s)]" % (a, b, a, b) for a, b, _, _ in pairs]
        so = b_sess.eval_many(singles, preamble=gv.PREAMBLE, timeout=120)
        verdict = None
        for (a, b, x, y), o in zip(pairs, so):
            j = _judge(c, [a], [x], [b], [y], o)
            if j is None:
                r = o["res"]
                if r[0] in ("timeout", "lost", "skipped"):
                    verdict = verdict or {"status": "inconclusive", "key": None,
                                          "detail": {"lhs": a, "rhs": b, "observed": r[:2]}}
                else:
                    verdict = {"status": "violated", "key": None, "sig": "==:error-instead-of-bool:%s" % tag(x),
                               "detail": {"lhs": a, "rhs": b, "observed": r[:2]}}
                    break
            elif j["status"] == "violated":
                verdict = j
                break
        results[i] = verdict or {"status": "held", "key": "row-by-singles"}
    # the driver counts one key per case; a matrix reaches many (shape, shape, verdict) classes, so
    # pick one of them deterministically, spread over the classes
    for c, r in zip(cases, results):
        ks = r.pop("_keys", None)
        if ks:
            n = (c["a"] * 31 + c["bs"][0]) if c["t"] == "row" else sum(len(x) for x in c["srcs"])
            r["key"] = ks[n % len(ks)]
    return results
