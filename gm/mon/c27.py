"""C27 Eval-up-to reports the value the expression takes when run.

In one JSON session the whole generated file is run, then `eval_up_to` is requested at a position inside
each value-bearing expression of the top-level items. The reported value must equal the value that
expression had the first time it was evaluated according to the reference interpreter's trace, and the
reported position must be the innermost expression at that offset.
"""
import random

from .. import core, session
from ..gen import prog as G
from ..gen import printer
from ..ref import interp

ID = "C27"
LEVEL = "exploration"
RULE = ("cases = seeded programs whose top-level variables are never reassigned (fresh top-level names, no while loops); "
        "every expression of the top-level items that the reference run evaluated is a probe (offset inside the node "
        "but outside its children); distinct key = (expression kind, enclosing construct, value type shape)")
ASSUME = ["first-evaluation values come from gm/ref/interp.py (trace mode)",
          "eval-up-to re-evaluates one item in the post-run environment, so programs never reassign top-level state"]
BATCH = 2
FLOOR = {"quick": 25, "thorough": 50}
BUDGET = {"quick": 45, "thorough": 840}


def gen_cases(tier, seed):
    i = 0
    while True:
        yield {"seed": seed * 67867967 + i}
        if i % 4 == 0:
            yield {"seed": seed * 67867967 + i, "closure": True}
        i += 1


def own_offset(src, st, en, child_spans):
    covered = [False] * (en - st)
    for a, b in child_spans:
        for i in range(max(a, st), min(b, en)):
            covered[i - st] = True
    for i in range(en - st):
        if not covered[i] and src[st + i] not in " \n()":
            return st + i
    return None


def probe_offset(src, e, st, en, p):
    """An offset whose innermost Garden expression is exactly this node."""
    k = e["k"]
    if k in ("call", "some", "ok", "err", "throw") or (k == "variant" and e.get("e") is not None):
        i = src.find("(", st, en)
        return i if i >= 0 else None
    if k == "callv":
        return p.spans[id(e["f"])][1]
    if k == "mcall":
        i = src.find(".", p.spans[id(e["recv"])][1], en)
        return i + 1 if i >= 0 else None
    if k == "field":
        i = src.find(".", p.spans[id(e["e"])][1], en)
        return i + 1 if i >= 0 else None
    if k == "tuple":
        return st
    return own_offset(src, st, en, children_spans(e, p))


def children_spans(e, p):
    out = []

    def rec(n, top):
        if isinstance(n, dict):
            if not top and id(n) in p.spans:
                out.append(p.spans[id(n)])
                return
            for v in n.values():
                rec(v, False)
        elif isinstance(n, list):
            for v in n:
                rec(v, False)
    rec(e, True)
    return out


def mf_lambda_nodes(main):
    out = set()

    def rec(n, inside):
        if isinstance(n, dict):
            if inside and "k" in n:
                out.add(id(n))
            if n.get("k") == "mcall" and n.get("m") in ("map", "filter") and n["args"] and n["args"][0].get("k") == "lambda":
                rec(n["recv"], inside)
                for v in n["args"][0].values():
                    rec(v, True)
                return
            for v in n.values():
                rec(v, inside)
        elif isinstance(n, list):
            for v in n:
                rec(v, inside)
    rec(main, False)
    return out


def discarded_ids(pr):
    out = set()
    G.walk(pr, lambda n: out.add(id(n["e"])) if n.get("discarded") else None)
    return out


def cli_probe(src, off, sc):
    """`garden reftest-eval-up-to` with a caret comment inserted under the probe. -> ("ok", value) | ("err", text) | None"""
    ls = src.rfind("\n", 0, off) + 1
    le = src.find("\n", off)
    if le < 0:
        return None
    col = off - ls
    if col < 2:
        return None
    text = src[:le + 1] + "//" + " " * (col - 2) + "^\n" + src[le + 1:]
    r = core.run_garden(["reftest-eval-up-to", sc.file(text)], timeout=60, cwd=sc.dir)
    if r.cls in core.CRASH:
        return ("crash", core.crash_sig(r))
    if r.cls == "timeout":
        return None
    lines = [l for l in r.out.split("\n") if l.strip()]
    if not lines:
        return ("err", r.err[-300:])
    last = lines[-1]
    # "<path>:<line>: <value>"
    parts = last.split(": ", 1)
    if len(parts) != 2:
        return ("err", last)
    return ("ok", parts[1])


def run_batch(cases):
    out = []
    with core.Scratch("gm-c27-") as sc:
        for case in cases:
            out.append(run_case(case, sc))
    return out


def shape(t):
    return t if isinstance(t, str) else t[0]


# ---- statements inside the body of a closure literal that is called inside the same top-level item ------------
# (the general generator's closures are called from later items, where eval-up-to cannot know their arguments)

_CL_STMTS = [("x * 2", lambda x: str(x * 2), 2), ("x + 100", lambda x: str(x + 100), 2), ("x - 1", lambda x: str(x - 1), 2),
             ("[x, 7]", lambda x: "[%d, 7]" % x, 0), ("(x, 1)", lambda x: "(%d, 1)" % x, 0), ("x == 3", lambda x: "True" if x == 3 else "False", 2),
             ("max(x, 5)", lambda x: str(max(x, 5)), 3), ("Some(x)", lambda x: "Some(%d)" % x, 4)]


def run_closure_case(case, sc):
    rng = random.Random(case["seed"] * 7 + 1)
    n = rng.choice([1, 2, 2, 3])
    stmts = [rng.choice(_CL_STMTS) for _ in range(n)]
    target = rng.randrange(n)
    a = rng.choice([0, 3, 21, -4])
    form = rng.choice(["let-call", "let-call", "immediate", "passed", "nested", "toplevel-fun-block"])
    ind = "    "
    body = "".join("%s%s\n" % (ind, t) for t, _f, _c in stmts)
    lam = "fun(x: Int) {\n%s  }" % body
    if form == "let-call":
        src = "{\n  let f = %s\n  f(%d)\n}\n" % (lam, a)
    elif form == "immediate":
        src = "{\n  let r = %s(%d)\n  r\n}\n" % (lam, a)
    elif form == "passed":
        src = "fun verif_apply(g: Fun<(Int), Int>, v: Int) {\n  g(v)\n}\n{\n  let f = %s\n  verif_apply(f, %d)\n}\n" % (lam, a)
        if stmts[-1][0] not in ("x * 2", "x + 100", "x - 1", "max(x, 5)"):
            src = src.replace("Fun<(Int), Int>", "Fun<(Int), %s>" % {"[x, 7]": "List<Int>", "(x, 1)": "(Int, Int)", "x == 3": "Bool", "Some(x)": "Option<Int>"}[stmts[-1][0]])
    elif form == "nested":
        src = "{\n  let f = fun(y: Int) {\n  let g = %s\n  g(y)\n  }\n  f(%d)\n}\n" % (lam, a)
    else:
        src = "{\n  if True {\n  let f = %s\n  f(%d)\n  }\n}\n" % (lam, a)
    text, f, coff = stmts[target]
    # offset of the target statement (k-th body line) + the column of its own operator / bracket
    lines = src.split("\n")
    idx = [i for i, l in enumerate(lines) if l.startswith(ind) and l.strip() in [t for t, _f, _c in _CL_STMTS]][target]
    off = sum(len(l) + 1 for l in lines[:idx]) + len(ind) + coff
    got = cli_probe(src, off, sc)
    key = "cli|closure-body|%s|%s|%s" % (form, "final" if target == n - 1 else "statement", text.split("(")[0].split(" ")[-1] if " " in text else text[:4])
    detail = {"src": src, "offset": off, "expected": f(a), "observed": got, "form": form}
    if got is None:
        return {"status": "inconclusive", "key": None, "detail": detail}
    if got[0] == "crash":
        return {"status": "violated", "key": None, "sig": "crash:cli:closure-body:" + got[1], "detail": detail}
    if got != ("ok", f(a)):
        return {"status": "violated", "key": None, "detail": detail,
                "sig": "wrong-value:cli:closure-body-%s:%s" % ("final" if target == n - 1 else "statement", form)}
    return {"status": "held", "key": key}


def run_case(case, sc):
    if case.get("closure"):
        return run_closure_case(case, sc)
    pr = G.generate(case["seed"], G.Opts(toplevel_pure=True, while_loops=False, errors=0.0, n_main=6, n_funs=2))
    src, p = printer.print_program(pr)
    try:
        ref = interp.run(pr, trace=True)
    except interp.Budget:
        return {"status": "held", "key": None}
    if ref["outcome"][0] != "ok":
        return {"status": "held", "key": None}
    main_start = min(s["_span"][0] for s in pr["main"]) if pr["main"] else len(src)
    # nodes inside lambdas are not probed
    # nodes inside lambdas are not probed (eval-up-to cannot know a closure's arguments), except lambdas written
    # directly as the argument of map / filter: those run while their own top-level item is evaluated
    in_lambda = set()

    def mark(n, excluded):
        if isinstance(n, dict):
            if excluded and "k" in n:
                in_lambda.add(id(n))
            if n.get("k") == "mcall" and n.get("m") in ("map", "filter") and n["args"] and n["args"][0].get("k") == "lambda":
                mark(n["recv"], excluded)
                lam = n["args"][0]
                if excluded:
                    in_lambda.add(id(lam))
                for v in lam.values():
                    mark(v, excluded)
                return
            if n.get("k") == "lambda":
                for v in n.values():
                    mark(v, True)
                return
            for v in n.values():
                mark(v, excluded)
        elif isinstance(n, list):
            for v in n:
                mark(v, excluded)
    mark(pr["main"], False)
    # enclosing construct
    enc = {}

    def walk(n, ctx):
        if isinstance(n, dict):
            k = n.get("k")
            if "ty" in n and k:
                enc[id(n)] = ctx
            nctx = k if k in ("for", "if", "match", "let", "letd", "assign") else ctx
            for v in n.values():
                walk(v, nctx)
        elif isinstance(n, list):
            for v in n:
                walk(v, ctx)
    walk(pr["main"], "toplevel")
    probes = []
    for e, st, en in p.nodes:
        if st < main_start or id(e) in in_lambda or id(e) not in ref["trace"]:
            continue
        if isinstance(e["ty"], list) and e["ty"][0] == "Fun":
            continue
        if e["k"] in ("lambda", "throw"):
            continue
        off = probe_offset(src, e, st, en, p)
        if off is None:
            continue
        probes.append((e, st, en, off))
    rng = random.Random(case["seed"])
    if len(probes) > 40:
        probes = rng.sample(probes, 40)
    if not probes:
        return {"status": "held", "key": None}
    # loop variables of top-level `for` statements: eval-up-to on the variable gives the first element
    bind_pos = {b[0]: (b[2], b[3]) for b in p.binders if b[4] == "def" and b[5] == "for"}
    for_probes = []

    def find_for(n, ok):
        if isinstance(n, dict):
            if n.get("k") == "lambda":
                return
            if n.get("k") == "for" and "v" in n["dest"] and n["dest"]["v"][1] in bind_pos and id(n["e"]) in ref["trace"]:
                lst = ref["trace"][id(n["e"])]
                if isinstance(lst, list) and lst and n["dest"]["v"][0] != "_":
                    for_probes.append((n, bind_pos[n["dest"]["v"][1]], interp.show(lst[0])))
            for v in n.values():
                find_for(v, ok)
        elif isinstance(n, list):
            for v in n:
                find_for(v, ok)
    find_for(pr["main"], True)
    for_probes = for_probes[:6]
    path = sc.file(src)
    # half of the sessions start with a failing request (and :abort): a failed run must not change what eval-up-to does
    pre = []
    if case["seed"] % 2 == 1:
        pre = [core.run_req("verif_nosuch_variable", 2), core.run_req(":abort", 3)]
    reqs = pre + [core.run_req(src, 1, path)] + \
        [{"method": "eval_up_to", "path": path, "src": src, "offset": off, "id": 100 + i} for i, (_, _, _, off) in enumerate(probes)] + \
        [{"method": "eval_up_to", "path": path, "src": src, "offset": sp[0], "id": 500 + i} for i, (_, sp, _) in enumerate(for_probes)]
    r, resps = core.json_session_file(reqs, timeout=90, scratch=sc)
    answers = [x for x in resps if session.resp_kind(x) not in ("printed", "printed_stderr")]
    answers = answers[len(pre):]
    for_answers = answers[1 + len(probes):]
    answers = answers[:1 + len(probes)]
    detail = {"src": src}
    if r.cls in core.CRASH:
        n_ok = max(0, len(answers) - 1)
        culprit = probes[n_ok] if n_ok < len(probes) else None
        return {"status": "violated", "key": None, "sig": "crash:" + core.crash_sig(r),
                "detail": dict(detail, observed=r.brief(), probe=culprit and [culprit[0]["k"], culprit[3], src[culprit[1]:culprit[2]]])}
    if r.cls == "timeout" or len(answers) < 1 + len(probes):
        return {"status": "inconclusive", "key": None, "detail": dict(detail, answers=len(answers), wanted=1 + len(probes), run=r.brief())}
    first = session.summarize(answers[0])
    if first[0] != "ok":
        return {"status": "inconclusive", "key": None, "detail": dict(detail, first=first[:2])}
    keys = set()
    if len(for_answers) == len(for_probes):
        for (n, sp, want), ans in zip(for_probes, for_answers):
            sa = session.summarize(ans)
            d = dict(detail, probe={"kind": "for-variable", "span": list(sp), "text": src[sp[0]:sp[1]], "after_failed_request": bool(pre)},
                     expected=want, observed=sa[:2])
            if sa[0] != "ok" or sa[1] != want:
                return {"status": "violated", "key": None, "sig": "wrong-value:for-variable", "detail": d}
            keys.add("for-variable|%s" % ("after-failed-request" if pre else "fresh"))
    in_mf = mf_lambda_nodes(pr["main"])
    # probes inside map/filter lambdas are also put through the command line (`reftest-eval-up-to`, caret comment)
    cli = [q for q in probes if id(q[0]) in in_mf]
    for (e, st, en, off) in cli[:5]:
        v = cli_probe(src, off, sc)
        want = interp.show(ref["trace"][id(e)])
        d = dict(detail, probe={"kind": e["k"], "span": [st, en], "offset": off, "text": src[st:en][:200], "via": "reftest-eval-up-to"},
                 expected=want, observed=v)
        if v is None:
            continue
        if v[0] == "crash":
            return {"status": "violated", "key": None, "sig": "crash:cli:" + v[1], "detail": d}
        if v[0] != "ok" or v[1] != want:
            return {"status": "violated", "key": None, "sig": "wrong-value:cli:%s:lambda-%s" % (e["k"], "statement" if id(e) in discarded_ids(pr) else "expr"), "detail": d}
        keys.add("cli|%s|lambda" % e["k"])
    disc = discarded_ids(pr)
    for (e, st, en, off), ans in zip(probes, answers[1:]):
        s = session.summarize(ans)
        want = interp.show(ref["trace"][id(e)])
        pos = ans.get("position") or {}
        got_span = (pos.get("start_offset"), pos.get("end_offset"))
        d = dict(detail, probe={"kind": e["k"], "span": [st, en], "offset": off, "text": src[st:en][:200]},
                 expected=want, observed=s[:2], observed_span=got_span)
        ctx = enc.get(id(e), "?")
        if s[0] != "ok":
            return {"status": "violated", "key": None, "sig": "error-for-reachable-expression:%s:%s" % (e["k"], ctx), "detail": d}
        if got_span != (st, en):
            # a different (e.g. parenthesised or enclosing) node was chosen: only acceptable if it encloses ours tightly
            if not (got_span[0] is not None and got_span[0] <= st and got_span[1] >= en and src[got_span[0]:got_span[1]].strip("() \n") == src[st:en].strip("() \n")):
                return {"status": "violated", "key": None, "sig": "not-the-innermost-expression:%s:%s" % (e["k"], ctx), "detail": d}
        if s[1] != want:
            where = "session-lambda-statement" if (id(e) in disc and id(e) in in_mf) else ctx
            return {"status": "violated", "key": None, "sig": "wrong-value:%s:%s" % (e["k"] if where == ctx else "any", where), "detail": d}
        keys.add("%s|%s|%s" % (e["k"], ctx, shape(e["ty"])))
    return {"status": "held", "key": None, "keys": sorted(keys)}
