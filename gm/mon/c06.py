"""C06 Block-local variables never outlive their block.

Exhaustive by construction: one fresh (or shadowing) variable declared at one nesting level inside a loop,
control leaves through one exit, and the variable is read afterwards. The expected behaviour ("No such
variable" / the outer value) comes from the reference interpreter's conventional lexical scoping.
"""
import itertools
import random

from .. import core, session
from ..gen import prog as G
from ..gen import printer
from ..ref import interp

ID = "C06"
LEVEL = "exploration"
RULE = ("exhaustive enumeration of {while, for} x nesting paths (length 0..2 quick, 0..3 thorough) over {if-then, "
        "if-else, match arm, nested for} x declaration level x exit in {fall-through, break, continue} x host in "
        "{top level, function, method, closure} x {fresh, shadowing} x read site in {after loop, next iteration}, "
        "plus top-level `return` in a session (read in the next request); then random C05-style programs with a read of "
        "every block-local name appended after each loop; key = the enumeration tuple")
ASSUME = ["reference scoping = conventional lexical block scoping (DESIGN Appendix C)"]
BATCH = 10
FLOOR = {"quick": 500, "thorough": 2000}
BUDGET = {"quick": 40, "thorough": 600}
E = G.E
INT, BOOL, UNIT, STR = G.INT, G.BOOL, G.UNIT, G.STR

KINDS = ["ift", "ife", "arm", "for"]
HOSTS = ["top", "fun", "method", "closure"]
EXITS = ["fall", "break", "continue"]


def gen_cases(tier, seed):
    for form in EMPTY_FORMS:
        for host in HOSTS:
            for shadow in (False, True):
                for reader in ("if", "for", "match", "plain"):
                    yield {"t": "empty", "form": form, "host": host, "shadow": shadow, "reader": reader}
    yield {"_marker": "empty-blocks", "forms": len(EMPTY_FORMS)}
    cases = list(enum_cases(tier))
    # deterministic shuffle so that a short budget still spreads over the whole space
    random.Random(seed).shuffle(cases)
    for c in cases:
        yield c
    yield {"_marker": "enumeration", "max_path_len": 2 if tier == "quick" else 3, "cases": len(cases)}
    i = 0
    while True:
        yield {"t": "random", "seed": seed * 7919 + i}
        i += 1


def enum_cases(tier):
    maxlen = 2 if tier == "quick" else 3
    for n in range(0, maxlen + 1):
        for path in itertools.product(KINDS, repeat=n):
            for loop in ("while", "for"):
                for decl in range(0, n + 1):
                    for ex in EXITS:
                        for host in HOSTS:
                            for shadow in (False, True):
                                for read in ("after", "next"):
                                    if read == "next" and ex == "break" and "for" not in path:
                                        continue
                                    yield {"t": "enum", "loop": loop, "path": list(path), "decl": decl, "exit": ex,
                                           "host": host, "shadow": shadow, "read": read}
        for path in itertools.product(KINDS, repeat=n):
            for loop in ("while", "for"):
                for decl in range(0, n + 1):
                    yield {"t": "session-return", "loop": loop, "path": list(path), "decl": decl}


EMPTY_FORMS = ["let-match", "stmt-match", "let-match-mixed", "for-empty", "for-destructure-empty", "if-empty", "nested-empty"]


def build_empty(case):
    """A binder whose block is EMPTY (so nothing inside ever consumes the pending bindings), then a new block that reads it."""
    some1 = E("some", ["Option", INT], e=E("int", INT, v=1))
    ints = E("list", ["List", INT], items=[E("int", INT, v=1), E("int", INT, v=2)])
    pairs = E("list", ["List", ["Tuple", [INT, INT]]], items=[E("tuple", ["Tuple", [INT, INT]], items=[E("int", INT, v=3), E("int", INT, v=4)])])

    def m(arm_body, none_body):
        return E("match", UNIT, False, False, stmt=True, scrut=some1,
                 arms=[{"variant": "Some", "bind": ["v", 0], "body": arm_body}, {"variant": "None", "bind": None, "body": none_body}])
    form = case["form"]
    stmts = []
    if case["shadow"]:
        stmts.append({"k": "let", "name": "v", "bid": 0, "ann": None, "e": E("int", INT, v=100)})
    if form == "let-match":
        stmts.append({"k": "let", "name": "r", "bid": 0, "ann": None, "e": m([], [])})
    elif form == "stmt-match":
        stmts.append({"k": "expr", "e": m([], [])})
    elif form == "let-match-mixed":
        stmts.append({"k": "let", "name": "r", "bid": 0, "ann": None, "e": m([], [marker("none")])})
    elif form == "for-empty":
        stmts.append({"k": "for", "dest": {"v": ["v", 0]}, "e": ints, "body": []})
    elif form == "for-destructure-empty":
        stmts.append({"k": "for", "dest": {"d": [["w", 0], ["v", 0]]}, "e": pairs, "body": []})
    elif form == "if-empty":
        stmts.append({"k": "expr", "e": m([{"k": "expr", "e": E("if", UNIT, False, False, stmt=True, cond=E("bool", BOOL, v=True), then=[], els=[])}], [])})
    else:
        stmts.append({"k": "let", "name": "r", "bid": 0, "ann": None,
                      "e": m([{"k": "expr", "e": m([], [])}], [])})
    stmts.append(marker("mid"))
    read = prn(var("v"))
    rd = case["reader"]
    if rd == "if":
        stmts.append({"k": "expr", "e": E("if", UNIT, False, False, stmt=True, cond=E("bool", BOOL, v=True), then=[read], els=None)})
    elif rd == "for":
        stmts.append({"k": "for", "dest": {"v": ["q", 0]}, "e": ints, "body": [read]})
    elif rd == "match":
        stmts.append({"k": "expr", "e": E("match", UNIT, False, False, stmt=True, scrut=some1,
                                         arms=[{"variant": "Some", "bind": ["q", 0], "body": [read]}, {"variant": "None", "bind": None, "body": []}])})
    else:
        stmts.append(read)
    stmts.append(marker("after"))
    return wrap_host(case["host"], stmts)


def wrap_host(host, stmts):
    prog = {"enums": [], "structs": [], "funs": [], "main": []}
    if host == "top":
        prog["main"] = stmts
    elif host in ("fun", "method"):
        prog["funs"].append({"name": "host", "params": [], "ret": UNIT, "pure": False, "total": False,
                             "body": stmts + [{"k": "expr", "e": E("unit", UNIT)}], "method": host == "method"})
        if host == "fun":
            prog["main"] = [{"k": "expr", "e": E("call", UNIT, False, False, fn="host", args=[])}]
        else:
            prog["main"] = [{"k": "expr", "e": E("mcall", UNIT, False, False, recv=E("int", INT, v=1), m="host", args=[], user=True)}]
    else:
        lam = E("lambda", ["Fun", [], UNIT], params=[], ret=UNIT, body=stmts + [{"k": "expr", "e": E("unit", UNIT)}])
        prog["main"] = [{"k": "let", "name": "host", "bid": 0, "ann": None, "e": lam},
                        {"k": "expr", "e": E("callv", UNIT, False, False, f=E("var", lam["ty"], name="host", bid=0), args=[])}]
    return prog


def var(n):
    return E("var", INT, name=n, bid=0)


def prn(e):
    return {"k": "expr", "e": E("call", UNIT, False, True, fn="println", builtin=True,
                                 args=[E("call", STR, fn="string_repr", args=[e], builtin=True)])}


def marker(s):
    return {"k": "expr", "e": E("call", UNIT, False, True, fn="println", builtin=True, args=[E("str", STR, v=s)])}


def build_body(case, exit_stmt):
    """Statements of the loop body (after the counter increment)."""
    path, decl = case["path"], case["decl"]
    read_next = case.get("read") == "next"

    def level(i):
        stmts = []
        if i == decl:
            stmts.append({"k": "let", "name": "v", "bid": 0, "ann": None, "e": E("int", INT, v=7)})
            stmts.append(prn(var("v")))
        if i == len(path):
            stmts.append(marker("in"))
            if exit_stmt is not None:
                stmts.append(exit_stmt)
            return stmts
        k = path[i]
        inner = level(i + 1)
        if k == "ift":
            stmts.append({"k": "expr", "e": E("if", UNIT, False, False, stmt=True, cond=E("bool", BOOL, v=True), then=inner, els=None)})
        elif k == "ife":
            stmts.append({"k": "expr", "e": E("if", UNIT, False, False, stmt=True, cond=E("bool", BOOL, v=False),
                                             then=[marker("no")], els=inner)})
        elif k == "arm":
            stmts.append({"k": "expr", "e": E("match", UNIT, False, False, stmt=True,
                                             scrut=E("some", ["Option", INT], e=E("int", INT, v=1)),
                                             arms=[{"variant": "Some", "bind": ["p%d" % i, 0], "body": inner},
                                                   {"variant": "None", "bind": None, "body": [marker("no")]}])})
        else:
            stmts.append({"k": "for", "dest": {"v": ["q%d" % i, 0]}, "e": E("list", ["List", INT], items=[E("int", INT, v=1), E("int", INT, v=2)]),
                          "body": inner})
        stmts.append(marker("post%d" % i))
        return stmts

    body = []
    if read_next:
        body.append({"k": "expr", "e": E("if", UNIT, False, False, stmt=True,
                                        cond=E("bin", BOOL, op="==", l=var("it"), r=E("int", INT, v=2)),
                                        then=[prn(var("v"))], els=None)})
    body += level(0)
    return body


def build_construct(case, exit_stmt):
    stmts = []
    if case.get("shadow"):
        stmts.append({"k": "let", "name": "v", "bid": 0, "ann": None, "e": E("int", INT, v=100)})
    stmts.append({"k": "let", "name": "it", "bid": 0, "ann": None, "e": E("int", INT, v=0)})
    body = build_body(case, exit_stmt)
    inc = {"k": "upd", "name": "it", "bid": 0, "op": "+", "e": E("int", INT, v=1)}
    if case["loop"] == "while":
        stmts.append({"k": "while", "cond": E("bin", BOOL, op="<", l=var("it"), r=E("int", INT, v=2)), "body": [inc] + body})
    else:
        stmts.append({"k": "for", "dest": {"v": ["fx", 0]}, "e": E("list", ["List", INT], items=[E("int", INT, v=5), E("int", INT, v=6)]),
                      "body": [inc] + body})
    return stmts


def build_enum(case):
    ex = {"fall": None, "break": {"k": "break"}, "continue": {"k": "continue"}}[case["exit"]]
    stmts = build_construct(case, ex)
    stmts.append(marker("after"))
    if case["read"] == "after":
        stmts.append(prn(var("v")))
    host = case["host"]
    prog = {"enums": [], "structs": [], "funs": [], "main": []}
    if host == "top":
        prog["main"] = stmts
    elif host in ("fun", "method"):
        prog["funs"].append({"name": "host", "params": [], "ret": UNIT, "pure": False, "total": False,
                             "body": stmts + [{"k": "expr", "e": E("unit", UNIT)}], "method": host == "method"})
        if host == "fun":
            prog["main"] = [{"k": "expr", "e": E("call", UNIT, False, False, fn="host", args=[])}]
        else:
            prog["main"] = [{"k": "expr", "e": E("mcall", UNIT, False, False, recv=E("int", INT, v=1), m="host", args=[], user=True)}]
    else:
        lam = E("lambda", ["Fun", [], UNIT], params=[], ret=UNIT, body=stmts + [{"k": "expr", "e": E("unit", UNIT)}])
        prog["main"] = [{"k": "let", "name": "host", "bid": 0, "ann": None, "e": lam},
                        {"k": "expr", "e": E("callv", UNIT, False, False, f=E("var", lam["ty"], name="host", bid=0), args=[])}]
    return prog


def names_declared(stmts, out):
    def f(n):
        if n.get("k") == "let":
            out.add(n["name"])
        if n.get("k") == "letd":
            for nm, _ in n["dest"]:
                out.add(nm)
    G.walk(stmts, f)


def run_batch(cases):
    out = []
    with core.Scratch("gm-c06-") as sc:
        for case in cases:
            if case["t"] == "enum":
                out.append(run_prog(case, build_enum(case), sc, keyof(case)))
            elif case["t"] == "empty":
                out.append(run_prog(case, build_empty(case), sc, keyof(case)))
            elif case["t"] == "session-return":
                out.append(run_session_return(case, sc))
            else:
                out.append(run_random(case, sc))
    return out


def keyof(case):
    return "|".join("%s=%s" % (k, "".join(v) if isinstance(v, list) else v) for k, v in sorted(case.items()))


def first_exc_line(err):
    for line in err.split("\n"):
        if line.startswith("Exception:") or line.startswith("Error:"):
            return line
    return None


def run_prog(case, prog, sc, key):
    src, _ = printer.print_program(prog)
    exp = interp.run(prog)
    r = core.run_garden(["run", sc.file(src)], timeout=30, cwd=sc.dir)
    detail = {"src": src, "expected": {"stdout": exp["stdout"], "outcome": exp["outcome"]}, "observed": r.brief()}
    if r.cls in core.CRASH:
        return {"status": "violated", "key": key, "sig": "crash:" + core.crash_sig(r), "detail": detail}
    if r.cls == "timeout":
        return {"status": "inconclusive", "key": None, "detail": detail}
    line = first_exc_line(r.err)
    want = None if exp["outcome"][0] == "ok" else "Exception: " + (exp["outcome"][1] or "")
    if r.out != exp["stdout"] or line != want:
        leak = line is None and want is not None and "No such variable" in want
        sig = "variable-outlives-block" if leak else ("shadowed-outer-value-wrong" if case.get("shadow") else "scoping-differs")
        if case.get("t") == "enum":
            sig += ":" + case["exit"]
        elif case.get("t") == "empty":
            sig += ":empty-block:" + case["form"]
        return {"status": "violated", "key": key, "sig": sig, "detail": detail}
    return {"status": "held", "key": key}


def run_session_return(case, sc):
    """Request 1 leaves nested blocks at the top level by `return`; request 2..n read the names."""
    c = dict(case, shadow=False, read="after")
    stmts = build_construct(c, {"k": "return", "e": None})
    prog = {"enums": [], "structs": [], "funs": [], "main": stmts}
    src, _ = printer.print_program(prog)
    src = src.split("}\n\n", 1)[1]       # drop the verif_id helper
    # a `for` loop in last position of a session request is a separate matter (C11): keep it non-final
    src += "it\n"
    probes = ["v"] + ["p%d" % i for i, k in enumerate(case["path"]) if k == "arm"] + \
             ["q%d" % i for i, k in enumerate(case["path"]) if k == "for"] + (["fx"] if case["loop"] == "for" else [])
    reqs = [core.run_req(src, 1)] + [core.run_req(p, 10 + i) for i, p in enumerate(probes)] + [core.run_req("it", 99)]
    r, resps = core.json_session_file(reqs, timeout=30, scratch=sc)
    key = "session-return|" + keyof(case)
    detail = {"requests": reqs, "observed": [session.summarize(x)[:2] for x in resps], "run": r.brief()}
    if r.cls in core.CRASH:
        return {"status": "violated", "key": key, "sig": "crash:" + core.crash_sig(r), "detail": detail}
    byid = {x.get("id"): session.summarize(x) for x in resps if x.get("id") is not None}
    for i, p in enumerate(probes):
        s = byid.get(10 + i)
        if s is None:
            return {"status": "inconclusive", "key": None, "detail": detail}
        if not (s[0] == "err" and "No such variable" in str(s[1])):
            return {"status": "violated", "key": key, "sig": "variable-outlives-block:return", "detail": dict(detail, probe=p)}
    s = byid.get(99)
    if s is None or s[0] != "ok":
        return {"status": "violated", "key": key, "sig": "toplevel-variable-lost-after-return", "detail": detail}
    return {"status": "held", "key": key}


def run_random(case, sc):
    """A random program; after every top-level loop / if / match statement, nothing declared inside may be visible:
    the reference interpreter decides what each appended read does."""
    pr = G.generate(case["seed"], G.Opts(n_main=6, n_funs=2, errors=0.0, shadow=0.7))
    main = []
    for s in pr["main"]:
        main.append(s)
        inner = set()
        if s["k"] in ("while", "for"):
            names_declared(s["body"], inner)
            if s["k"] == "for":
                d = s["dest"]
                inner |= {d["v"][0]} if "v" in d else {n for n, _ in d["d"]}
        elif s["k"] == "expr" and s["e"]["k"] in ("if", "match"):
            names_declared(s["e"], inner)
        for nm in sorted(inner)[:2]:
            if nm != "_":
                main.append({"k": "expr", "e": E("if", UNIT, False, False, stmt=True, cond=E("bool", BOOL, v=True),
                                                then=[prn_any(nm)], els=None)})
                break
    pr["main"] = main
    try:
        interp.run(pr)
    except interp.Budget:
        return {"status": "held", "key": None}
    return run_prog(case, pr, sc, "random|%d" % (case["seed"] % 50))


def prn_any(name):
    return prn(E("var", INT, name=name, bid=0))
