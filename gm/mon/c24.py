"""C24 Sandboxed code cannot touch files, processes or stdin.

Oracle = syscall-trace monitor (gm/ref/e_strace.py): every sandboxed run is executed under `strace -f` with
stdin an open pipe that is never written, inside a scratch world that holds canary files, a canary directory and
a canary executable that is first on PATH. The policy is written from the property text in terms of system
calls; which built-ins are *effectful* is not taken from Garden's sandbox code but measured: every built-in
stub found in src/__*.gdn is first run UNSANDBOXED (`garden run`) under the same tracer, and those whose trace
touches a canary / execs / forks / reads fd 0 / opens for writing are the ones that must be refused.
"""
import json
import os
import random
import re

from .. import core
from ..gen import e_sandbox as G
from ..ref import e_strace as S

ID = "C24"
LEVEL = "exploration"
RULE = ("case = (mode in {playground-run, sandboxed-test, sandboxed-test at cursor offset}, built-in read from "
        "src/__*.gdn, argument vector (right types with canary paths / wrong types / wrong arity), call position "
        "(26 syntactic positions + call through function value), value used or not); every case is one strace'd run "
        "(sandboxed-test cases share a process, one test each). Core = every built-in x canonical vector x 2 modes and "
        "every measured-effectful built-in x every position x 2 modes, then a seeded random stream. "
        "distinct key = (mode, built-in, argument class, position, outcome class)")
ASSUME = ["strace reports every file/process/descriptor system call of the traced process tree",
          "a built-in with an effect shows it when called unsandboxed with the canonical right-typed canary arguments "
          "(this is how 'effectful' is measured; the 13 built-ins named by the property are required to be in the set)",
          "`import` of a program-supplied path and reflect::check_snippet's import resolution read files but are not "
          "'the filesystem API' of the property; they are recorded as observations, not violations"]
BATCH = 16
FLOOR = {"quick": 100, "thorough": 400}
BUDGET = {"quick": 36, "thorough": 780}

REFUSAL = "Tried to execute unsafe code in sandboxed mode"
# built-ins the property text names (fs, shell, path, read_line): the measured set must contain them
STATIC_EFFECTFUL = ["fs::read_file", "fs::read_file_bytes", "fs::write_file", "fs::write_bytes", "fs::copy_file",
                    "fs::remove_file", "fs::list_directory", "fs::create_dir", "fs::remove_dir", "shell::run",
                    "Path.exists", "Path.info", "prelude::read_line"]

_EFFECTS = None


def _nonce():
    return os.urandom(4).hex()


def by_id():
    return {b["id"]: b for b in G.vocabulary()}


# ------------------------------------------------------------------------------ measuring effectfulness

def measure_effects():
    """Run every built-in unsandboxed under the tracer. -> {id: sorted list of effect kinds}"""
    voc = G.vocabulary()
    eff = {}
    with core.Scratch("gm-c24m-") as sc:
        w = G.World(sc, _nonce())
        remaining = list(range(len(voc)))
        rounds = 0
        while remaining and rounds < len(voc) + 2:
            rounds += 1
            w.build()
            parts = [G.header()]
            for i in remaining:
                b = voc[i]
                parts.append('println("VMARK%d:")\n%s\n' % (i, G.call_text(b, G.right_vectors(b)[0], w)))
            parts.append('println("VMARKend:")\n')
            path = os.path.join(w.dir, "measure.gdn")
            with open(path, "w") as f:
                f.write("".join(parts))
            t = S.run(["run", path], cwd=w.dir, logdir=w.logs, env=w.env(), timeout=60, trace=True, stdin="eof",
                      tag="measure")
            segs = S.segments(t.events, re.compile(r"VMARK(\w+):"))
            reached = [i for i in remaining if str(i) in segs]
            if not reached:
                raise core.HarnessError("C24: effect measurement produced no markers: %s" % t.run.brief())
            for i in reached:
                v, _ = S.judge(segs[str(i)], [w.tok], own_files=[path], count_first_exec=True,
                               import_tokens=[w.modtok])
                eff[voc[i]["id"]] = sorted({x["kind"] for x in v})
            if "end" in segs:
                break
            remaining = remaining[remaining.index(reached[-1]) + 1:]
    missing = [x for x in STATIC_EFFECTFUL if x in by_id() and not eff.get(x)]
    if missing:
        raise core.HarnessError("C24: unsandboxed trace shows no effect for %s - the tracer or the canaries are broken"
                                % missing)
    return eff


def effects():
    global _EFFECTS
    if _EFFECTS is None:
        _EFFECTS = measure_effects()
    return _EFFECTS


def prepare(tier, seed):
    effects()


def extra_evidence():
    e = effects()
    return {"measured_effectful_builtins": {k: v for k, v in sorted(e.items()) if v},
            "builtins_enumerated": len(G.vocabulary()), "rust_enum_crosscheck": G.coverage_gap()}


# ------------------------------------------------------------------------------------------ cases

MODES = ["playground", "sbtest"]
ALL_POS = sorted(G.POSITIONS)


def gen_cases(tier, seed):
    voc = G.vocabulary()
    eff = effects()
    effectful = [b for b in voc if eff.get(b["id"])]
    gap = G.coverage_gap()
    if not gap["ok"]:
        yield {"t": "gap", "gap": gap}
    cdir = os.path.join(core.VERIF, "corpus", ID)
    for name in sorted(os.listdir(cdir)) if os.path.isdir(cdir) else []:
        if name.endswith(".gdn"):
            for mode in MODES:
                yield {"t": "corpus", "file": name, "mode": mode, "b": "corpus:" + name, "cls": "corpus", "pos": "-"}
    # core 2: every built-in (effectful or not) x canonical vector x both modes, statement position
    for b in voc:
        for mode in MODES:
            yield {"t": "call", "mode": mode, "b": b["id"], "args": G.right_vectors(b)[0], "cls": "right",
                   "pos": "stmt", "after": False}
    # core 3: every effectful built-in x every right vector, and every arity 0..n+1
    for b in effectful:
        for vi, vec in enumerate(G.right_vectors(b)[1:]):
            if tier != "quick" or (vi + seed) % 4 == 0:
                yield {"t": "call", "mode": "playground", "b": b["id"], "args": vec, "cls": "right", "pos": "fun",
                       "after": True}
            yield {"t": "call", "mode": "sbtest", "b": b["id"], "args": vec, "cls": "right", "pos": "stmt",
                   "after": True}
        n = len(b["params"])
        base = G.right_vectors(b)[0]
        for k in range(0, n + 2):
            if k == n:
                continue
            vec = (base + ["lit:1", "path:file"])[:k]
            yield {"t": "call", "mode": "sbtest", "b": b["id"], "args": vec, "cls": "arity", "pos": "stmt",
                   "after": True}
            yield {"t": "call", "mode": "playground", "b": b["id"], "args": vec, "cls": "arity", "pos": "stmt",
                   "after": True}
    # core 4: bare import and cursor mode
    for b in effectful:
        if b["kind"] == "fun" and b["ns"] != "__prelude.gdn":
            yield {"t": "call", "mode": "playground", "b": b["id"], "args": G.right_vectors(b)[0], "cls": "right",
                   "pos": "stmt", "after": True, "bare": True}
        yield {"t": "call", "mode": "sbcursor", "b": b["id"], "args": G.right_vectors(b)[0], "cls": "right",
               "pos": "fun", "after": True}
    # core 1: every measured-effectful built-in x every position (canonical arguments): all of them as
    # sandboxed-test cases (cheap: they share processes); as playground runs all of them in the thorough tier and
    # a seed-rotated third in the quick tier
    allpos = ALL_POS + sorted(G.FUNVALUE_POSITIONS) + ["test-body"]
    for pi, pos in enumerate(allpos):
        for bi, b in enumerate(effectful):
            if pos in G.FUNVALUE_POSITIONS and b["kind"] != "fun":
                continue
            for mode in (MODES if pos != "test-body" else ["playground"]):
                if mode == "playground" and tier == "quick" and (pi + bi + seed) % 3 != 0:
                    continue
                yield {"t": "call", "mode": mode, "b": b["id"], "args": G.right_vectors(b)[0], "cls": "right",
                       "pos": pos, "after": True}
    yield {"_marker": "core", "builtins": len(voc), "measured_effectful": len(effectful), "positions": len(ALL_POS),
           "space": "effectful x positions x {playground,sandboxed-test}; all built-ins x canonical args x 2 modes; "
                    "effectful x all right vectors; effectful x every wrong arity"}
    rng = random.Random(seed * 7919 + 24)
    while True:
        b = rng.choice(effectful) if rng.random() < 0.8 else rng.choice(voc)
        k = rng.random()
        n = len(b["params"])
        if k < 0.45:
            vec, cls = rng.choice(G.right_vectors(b)), "right"
        elif k < 0.8:
            vec = [rng.choice(G.WRONG_POOL) for _ in range(n)]
            cls = "wrongtype"
            if n and rng.random() < 0.5:
                # keep some arguments right so that a later type check is what fails
                good = rng.choice(G.right_vectors(b))
                j = rng.randrange(n)
                vec = list(good)
                vec[j] = rng.choice(G.WRONG_POOL)
            if not n:
                vec, cls = [rng.choice(G.WRONG_POOL)], "arity"
        else:
            m = rng.choice([x for x in range(0, n + 3) if x != n])
            vec = [rng.choice(G.WRONG_POOL + ["path:file", "str:cmd"]) for _ in range(m)]
            cls = "arity"
        pos = rng.choice(ALL_POS + (sorted(G.FUNVALUE_POSITIONS) if b["kind"] == "fun" else []))
        mode = rng.choice(["playground", "sbtest", "sbtest", "sbtest", "sbcursor"])
        c = {"t": "call", "mode": mode, "b": b["id"], "args": vec, "cls": cls, "pos": pos,
             "after": rng.random() < 0.7, "recv": rng.choice(G.PATH_KINDS)}
        if b["kind"] == "fun" and b["ns"] != "__prelude.gdn" and rng.random() < 0.1 and mode == "playground":
            c["bare"] = True
        if rng.random() < 0.2:
            c["alias"] = rng.choice(["f", "x1", "zz_", "my_ns"])
        yield c


# ------------------------------------------------------------------------------------------ rendering

def render(c, w, n):
    """-> (header, defs, body, test name or None)"""
    b = by_id()[c["b"]]
    alias = c.get("alias")
    aliases = dict(G.NS_ALIAS)
    if alias and b["ns"] in aliases:
        aliases[b["ns"]] = alias
    call = G.call_text(b, c["args"], w, recv_kind=c.get("recv", "file"), alias=alias, bare=c.get("bare", False))
    args = ", ".join(G.render_arg(d, w) for d in c["args"])
    defs, body = G.instantiate(c["pos"], call, n, fref=G.fun_ref(b, alias), args=args)
    hdr = G.header(aliases)
    if c.get("bare"):
        hdr += 'import "%s"\n' % b["ns"]
    return hdr, defs, body


def playground_src(c, w):
    if c["pos"] == "test-body":
        c = dict(c, pos="stmt")
        hdr, defs, body = render(c, w, 0)
        return hdr + defs + "test verif_t0 {\n%s\n}\n" % G.indent(body)
    hdr, defs, body = render(c, w, 0)
    src = hdr + defs + body + "\n"
    if c.get("after"):
        src += 'println("verif-after")\n'
    return src


def sbtest_src(cases, w):
    """One file, one test per case. All cases must share a header (same alias choice)."""
    hdr = None
    defs_all, tests = [], []
    for n, c in cases:
        h, defs, body = render(c, w, n)
        hdr = hdr or h
        defs_all.append(defs)
        tail = "\n  assert(False)" if c.get("after") else ""
        tests.append("test vt%d {\n%s%s\n}\n" % (n, G.indent(body), tail))
    return (hdr or "") + "".join(defs_all) + "".join(tests)


# ------------------------------------------------------------------------------------------ running

def _json_lines(text):
    out = []
    for ln in text.split("\n"):
        ln = ln.strip()
        if not ln.startswith("{"):
            continue
        try:
            out.append(json.loads(ln))
        except ValueError:
            pass
    return out


def _trace_verdict(t, w, own):
    viol, obs = S.judge(t.events, [w.tok], own_files=own, import_tokens=[w.modtok])
    snap = w.snapshot(ignore=tuple(os.path.relpath(x, w.dir) for x in own))
    base = {k: v for k, v in w.base.items()}
    changed = sorted(set(snap.items()) ^ set(base.items()))
    if changed:
        viol.append({"kind": "world-changed", "syscall": "-", "detail": json.dumps([c[0] for c in changed])[:300]})
    if t.blocked and not any(v["kind"] == "stdin-read" for v in viol):
        viol.append({"kind": "stdin-read", "syscall": t.blocked["syscall"], "detail": "asleep in %s(0, ...)" % t.blocked["syscall"]})
    return viol, obs


def _result(c, status, outcome, sig=None, detail=None, extra_key=""):
    key = "%s %s %s %s %s%s" % (c["mode"], c["b"], c["cls"], c["pos"], outcome, extra_key)
    r = {"status": status, "key": key if status != "inconclusive" else None}
    if sig:
        r["sig"] = sig
    if detail:
        r["detail"] = detail
    return r


def run_playground(c, w):
    src = playground_src(c, w)
    path = os.path.join(w.dir, "prog.gdn")
    with open(path, "w") as f:
        f.write(src)
    w.base = w.snapshot(ignore=("prog.gdn",))
    t = S.run(["playground-run", path], cwd=w.dir, logdir=w.logs, env=w.env(), timeout=20, trace=True, tag="pg")
    viol, obs = _trace_verdict(t, w, [path])
    lines = _json_lines(t.run.out)
    results = [j for j in lines if "error" in j and "value" in j]
    printed = "".join(j["printed"].get("s", "") for j in lines if isinstance(j.get("printed"), dict))
    detail = {"src": src, "stdout": t.run.out[-600:], "stderr": t.run.err[-400:], "violations": viol[:6]}
    refused = bool(results) and (results[-1].get("error") == REFUSAL)
    outcome = _pg_outcome(results, t)
    if c["pos"] == "test-body" and any("Failed: verif_t0" in (r.get("value") or "") for r in results):
        # playground reports test failures in a value; the reason is not printed
        refused, outcome = True, "refused"
    return _judge_case(c, w, t, viol, obs, detail, refused=refused, outcome=outcome,
                       continued=("verif-after" in printed or "verif-caught" in printed))


def _pg_outcome(results, t):
    if t.blocked:
        return "blocked"
    if t.run.cls in core.CRASH:
        return "crash"
    if t.run.timed_out:
        return "timeout"
    if not results:
        return "no-result"
    r = results[-1]
    if r.get("error") == REFUSAL:
        return "refused"
    if r.get("error") is not None:
        return "error"
    return "value"


def _judge_case(c, w, t, viol, obs, detail, refused, outcome, continued):
    b = c["b"]
    if viol:
        w.build()
        kind = viol[0]["kind"]
        return _result(c, "violated", outcome, "sandbox-escape:%s:%s" % (b, kind), detail)
    if t.run.timed_out:
        return _result(c, "inconclusive", outcome, detail=dict(detail, note="watchdog", state=t.state_at_kill))
    expect = c["cls"] == "right" and bool(effects().get(b))
    if outcome == "crash" and (expect or effects().get(b)):
        return _result(c, "violated", outcome, "not-refused:%s:crash:%s" % (b, core.crash_sig(t.run)), detail)
    if expect and not refused:
        return _result(c, "violated", outcome, "not-refused:%s:%s" % (b, c["mode"]), detail)
    if refused and continued:
        return _result(c, "violated", outcome, "continued-after-refusal:%s" % c["mode"], detail)
    if outcome == "no-result":
        return _result(c, "inconclusive", outcome, detail=dict(detail, note="no JSON result"))
    ek = ""
    if obs:
        ek = " obs:" + ",".join(sorted({o["kind"] for o in obs}))
    return _result(c, "held", outcome, extra_key=ek)


def run_corpus(c, w):
    """A committed regression input; @CANARY@ stands for <world>/<canary token>. refused_* files must be refused."""
    src = open(os.path.join(core.VERIF, "corpus", ID, c["file"]), encoding="utf-8").read()
    src = src.replace("@CANARY@", os.path.join(w.dir, w.tok))
    path = os.path.join(w.dir, "corpus.gdn")
    with open(path, "w") as f:
        f.write(src)
    w.base = w.snapshot(ignore=("corpus.gdn",))
    args = ["playground-run", path] if c["mode"] == "playground" else ["sandboxed-test", path, "0"]
    t = S.run(args, cwd=w.dir, logdir=w.logs, env=w.env(), timeout=20, trace=True, tag="corpus")
    viol, obs = _trace_verdict(t, w, [path])
    lines = _json_lines(t.run.out)
    detail = {"src": src, "stdout": t.run.out[-600:], "stderr": t.run.err[-400:], "violations": viol[:6]}
    if c["mode"] == "playground":
        results = [j for j in lines if "error" in j and "value" in j]
        refused = bool(results) and results[-1].get("error") == REFUSAL
        outcome = _pg_outcome(results, t)
    else:
        docs = [j for j in lines if "tests" in j]
        tests = docs[-1]["tests"] if docs else {}
        refused = bool(tests) and all(v.get("description") == "sandboxed" for v in tests.values())
        outcome = "blocked" if t.blocked else "crash" if t.run.cls in core.CRASH else "timeout" if t.run.timed_out \
            else "refused" if refused else "no-result" if not docs else "value"
    if viol:
        w.build()
        return _result(c, "violated", outcome, "sandbox-escape:%s:%s" % (c["b"], viol[0]["kind"]), detail)
    if t.run.timed_out:
        return _result(c, "inconclusive", outcome, detail=detail)
    if c["file"].startswith("refused_") and not refused:
        return _result(c, "violated", outcome, "not-refused:%s:%s" % (c["b"], c["mode"]), detail)
    return _result(c, "held", outcome)


def run_sbtests(group, w, cursor_of=None):
    """group: list of (n, case). Returns {n: result} or None when the group needs to be split."""
    src = sbtest_src(group, w)
    path = os.path.join(w.dir, "tests.gdn")
    with open(path, "w") as f:
        f.write(src)
    w.base = w.snapshot(ignore=("tests.gdn",))
    offset = 0
    if cursor_of is not None:
        offset = src.index("test vt%d {" % cursor_of) + 8
    t = S.run(["sandboxed-test", path, str(offset)], cwd=w.dir, logdir=w.logs, env=w.env(), timeout=30, trace=True,
              tag="sb")
    viol, obs = _trace_verdict(t, w, [path])
    docs = [j for j in _json_lines(t.run.out) if "tests" in j]
    tests = docs[-1]["tests"] if docs else {}
    summary = docs[-1].get("description") if docs else None
    if len(group) > 1 and (viol or t.run.timed_out or t.blocked or t.run.cls in core.CRASH or not docs):
        if viol:
            w.build()
        return None
    out = {}
    for n, c in group:
        d = (tests.get("vt%d" % n) or {}).get("description")
        detail = {"src": src if len(group) == 1 else sbtest_src([(n, c)], w), "stdout": t.run.out[-600:],
                  "stderr": t.run.err[-400:], "violations": viol[:6], "summary": summary, "offset": offset}
        if t.blocked:
            outcome = "blocked"
        elif t.run.cls in core.CRASH:
            outcome = "crash"
        elif t.run.timed_out:
            outcome = "timeout"
        elif d is None:
            outcome = "no-result"
        elif d == "sandboxed":
            outcome = "refused"
        elif d == "passed":
            outcome = "value"
        else:
            outcome = "error"
        if summary == "Parse error":
            out[n] = _result(c, "inconclusive", "parse-error", detail=dict(detail, note="generator produced a parse error"))
            continue
        out[n] = _judge_case(c, w, t, viol, obs, detail, refused=(d == "sandboxed"), outcome=outcome, continued=False)
    return out


def run_batch(cases):
    res = [None] * len(cases)
    with core.Scratch("gm-c24-") as sc:
        w = G.World(sc, _nonce())
        groups = {}
        for i, c in enumerate(cases):
            if c.get("t") == "gap":
                res[i] = {"status": "inconclusive", "key": None,
                          "detail": {"note": "Rust built-in enums and .gdn stubs disagree; some built-in is not exercised",
                                     "gap": c["gap"]}}
            elif c.get("t") == "corpus":
                res[i] = run_corpus(c, w)
            elif c["mode"] == "playground":
                res[i] = run_playground(c, w)
            elif c["mode"] == "sbcursor":
                r = run_sbtests([(i, c)], w, cursor_of=i)
                res[i] = r[i]
            else:
                groups.setdefault((c.get("alias"), by_id()[c["b"]]["ns"] if c.get("alias") else ""), []).append((i, c))
        for _, grp in sorted(groups.items(), key=lambda kv: str(kv[0])):
            r = run_sbtests(grp, w)
            if r is None:
                r = {}
                for n, c in grp:
                    r.update(run_sbtests([(n, c)], w))
            for n, c in grp:
                res[n] = r[n]
    return res
