"""C17 Formatting never changes a program's meaning.

For every parse-error-free input x the real formatter's output must parse without errors to the same
tree (structure, identifiers, literal values including string contents, doc comments) and carry the
same comments in the same order. Both trees come from the real parser through the `frontend` hook
(`items` for x, `formatted_items` for format(x)); the oracle is the metamorphic relation itself and
does not depend on how either text is laid out.

Workload: (a) committed witnesses, (b) multi-line string literals starting in every column in the
contexts where the formatter edits lines, (c) one-line signatures of 90..140 columns, (d) every .gdn
file of the repository as it is, (e) programs generated from the grammar (gm/gen/jtree.py) and the
repository files re-laid-out by a layout engine that only honours the grammar's layout rules:
indentation 0..12 / tabs, blank-line runs, spacing around tokens, joined and exploded lines,
trailing commas, comments before any token, CRLF line ends, non-ASCII in strings and comments.
"""
import glob
import json
import os
import random
import re

from .. import core
from ..gen import jtree

ID = "C17"
LEVEL = "exploration"
RULE = ("cases = source texts: witnesses; multi-line string literal templates x start column 0..40; single-line "
        "signatures of 90..140 columns (fun/method, with and without hints, generics, tuple hints, indentation, trailing "
        "comment); every repository .gdn file verbatim; then random: grammar-generated programs and repository files "
        "rendered under random layout perturbations. Inputs with parse errors are outside the property and are "
        "skipped (key None). distinct key = (source class, layout features present in the input, whether the "
        "formatter changed the text)")
ASSUME = ["the AST dump and the comment list of the hook are faithful; both sides of the comparison use the same dump",
          "comment texts are compared after stripping trailing whitespace (only whitespace may change)",
          "non-ASCII characters are only placed inside string literals and comments (C01 owns the lexer's handling elsewhere)"]
BATCH = 40
FLOOR = {"quick": 120, "thorough": 300}
BUDGET = {"quick": 42, "thorough": 780}

CORPUS = os.path.join(core.VERIF, "corpus", "C17")


# ---------------------------------------------------------------------------- deterministic classes

MLSTR_TEMPLATES = [
    # {K} = spaces before the continuation text, {I} = indentation of the statement
    ("toplevel-then-expr", "{I}let s = \"a\n{K}b\" println(s)\n"),
    ("toplevel-alone", "{I}let s = \"a\n{K}b\"\nprintln(s)\n"),
    ("toplevel-comment-after", "{I}let s = \"a\n{K}b\" // trailing\nprintln(s)\n"),
    ("block-close-on-continuation", "fun f() {{ \"a\n{K}b\" }}\n"),
    ("block-stmt-after", "fun f() {{\n{I}let s = \"a\n{K}b\" s\n}}\n"),
    ("block-misindented", "fun f() {{\n{I}let s = \"x\n{K}y\"\n{I}s\n}}\n"),
    ("call-arg", "foo(\n{I}\"a\n{K}b\",\n{I}2\n)\n"),
    ("call-arg-then-arg", "foo(\"a\n{K}b\", bar(\n1))\n"),
    ("call-close-on-continuation", "fun f() {{\n  foo(1,\n  \"a\n{K}b\")\n}}\n"),
    ("match-arm", "fun f(x) {{\n  match x {{\n{I}Some(y) => \"a\n{K}b\",\n{I}None => \"\n{K}c\"\n  }}\n}}\n"),
    ("match-close-on-continuation", "fun f(x) {{\n  match x {{\n    None => \"\n{K}c\" }}\n}}\n"),
    ("if-else", "if c {{\n{I}\"a\n{K}b\"\n}} else {{ \"c\n{K}d\" }}\n"),
    ("blank-lines-inside", "{I}let s = \"a\n\n\n\n{K}b\"\ns\n"),
    ("whitespace-only-line-inside", "{I}let s = \"a\n{K}\n{K}b\"\ns\n"),
    ("comment-like-inside", "{I}let s = \"a\n{K}// not a comment\n\"\n// real comment\nfun g() {{}}\n"),
    ("definition-like-inside", "let s = \"a\n{K}fun f() {{\n{K}}}\n\"\nfun g() {{}}\n"),
    ("comment-before-continuation-token", "fun f() {{\n  let s = \"a\n{K}b\" // c1\n  // c2\n  s\n}}\n"),
    ("struct-field", "fun f() {{\n  Foo{{ x: \"a\n{K}b\", y: 2 }}\n}}\n"),
    ("binop-continuation", "{I}\"a\n{K}b\" ^ \"c\"\n"),
    ("test-body", "test t {{\n  assert(\"a\n{K}b\" == x) y\n}}\n"),
    ("tabs-inside", "fun f() {{\n\tlet s = \"a\n\t{K}b\" s\n}}\n"),
    ("lambda-body", "let g = fun() {{\n{I}\"a\n{K}b\" }}\n"),
]


def mlstr_cases(tier="thorough"):
    ks = [0, 1, 2, 3, 4, 6, 8, 12, 23] if tier == "quick" else list(range(0, 13)) + [16, 23, 40]
    inds = (0, 5) if tier == "quick" else (0, 2, 5)
    for name, tpl in MLSTR_TEMPLATES:
        for k in ks:
            for ind in inds:
                if "{I}" not in tpl and ind != 0:
                    continue
                yield {"t": "mlstr", "name": name, "src": tpl.format(K=" " * k, I=" " * ind), "k": k}


def long_sig_cases(tier="thorough"):
    hints = [None, "Int", "List<String>", "(Int, String)", "Option<(Int, List<T>)>", "()", "Result<Int, String>"]
    for width in list(range(90, 141, 3 if tier != "quick" else 5)):
        for variant in range(6):
            rng = random.Random(width * 31 + variant)
            kind = ["fun", "public fun", "method", "public method", "fun", "fun"][variant]
            indent = " " * rng.choice([0, 0, 2, 7])
            name = rng.choice(["compute", "render_all", "f", "a_rather_long_function_name"])
            tps = rng.choice(["", "", "<T>", "<T, U>"])
            with_hints = variant not in (4,)
            params = []
            if "method" in kind:
                params.append("this: " + rng.choice(["Foo", "List<T>", "(Int, Int)"]))

            def sig():
                ret = (": " + rng.choice(hints[1:])) if with_hints and variant != 5 else ""
                return "%s%s %s%s(%s)%s {" % (indent, kind, name, tps, ", ".join(params), ret)
            i = 0
            while len(sig()) < width:
                i += 1
                h = rng.choice(hints) if with_hints else None
                params.append("param_%d" % i + (": " + h if h else ""))
                if i > 60:
                    break
            head = sig()
            tail = rng.choice(["", " // trailing comment", " x }", ""])
            body = "\n%s  x\n%s}\n" % (indent, indent) if not tail.endswith("}") else "\n"
            pre = rng.choice(["", "// doc comment\n", "// a\n// b\n", "let before = 1\n"])
            yield {"t": "longsig", "width": len(head), "variant": variant, "src": pre + head + tail + body}


def repo_files():
    out = []
    for pat in ("src/**/*.gdn", "sample_programs/**/*.gdn", "website/**/*.gdn", "benchmarks/**/*.gdn", "playground/**/*.gdn", "*.gdn"):
        out.extend(glob.glob(os.path.join(core.REPO, pat), recursive=True))
    return sorted(set(os.path.relpath(p, core.REPO) for p in out))


def gen_cases(tier, seed):
    for p in sorted(glob.glob(os.path.join(CORPUS, "*.gdn"))):
        yield {"t": "witness", "name": os.path.basename(p), "src": open(p, encoding="utf-8").read()}
    yield from mlstr_cases(tier)
    yield {"_marker": "multi-line-string-columns", "templates": len(MLSTR_TEMPLATES), "space": "each template x continuation column (quick: 0-4,6,8,12,23; thorough: 0..12,16,23,40) x statement indentation (quick 0,5; thorough 0,2,5)"}
    yield from long_sig_cases(tier)
    yield {"_marker": "single-line-signatures-90-140", "space": "widths 90..140 step 3 x 6 variants (fun/method, public, hints, generics, tuple and unit hints)"}
    files = repo_files()
    for f in files:
        yield {"t": "repo", "file": f, "perturb": None}
    yield {"_marker": "repository-files-verbatim", "files": len(files), "space": "every .gdn file under the repository, formatted as it is"}
    rng = random.Random(seed * 104729 + 17)
    while True:
        k = rng.random()
        if k < 0.6 or not files:
            yield {"t": "gen", "seed": rng.getrandbits(48)}
        else:
            yield {"t": "repo", "file": rng.choice(files), "perturb": rng.getrandbits(48)}


# ---------------------------------------------------------------------------- building inputs

def rand_cfg(rng):
    prof = rng.choice(["mild", "mild", "wild", "comments", "strings", "crlf", "compact", "exploded"])
    cfg = {"indent_max": rng.choice([0, 2, 4, 12]), "tabs": rng.choice([0.0, 0.0, 0.5]),
           "blank_runs": rng.choice([0.0, 0.2, 0.6]), "comment": rng.choice([0.0, 0.03, 0.1]),
           "crlf": 0.0, "comment_blank": 0.15}
    style = None
    if prof == "wild":
        cfg.update({"newline": 0.3, "join_lines": 0.3, "zero": 0.5, "extra_space": 0.5, "comment": 0.1})
    elif prof == "comments":
        cfg.update({"comment": 0.3, "nonascii_comment": 0.6})
    elif prof == "crlf":
        cfg.update({"crlf": 1.0})
    elif prof == "compact":
        style = "oneline"
        cfg.update({"zero": 0.8, "comment": 0.0})
    elif prof == "exploded":
        style = "exploded"
    return prof, cfg, style


def gen_program(seed):
    rng = random.Random(seed)
    g = jtree.Gen(rng, maxdepth=rng.choice([2, 3, 4, 5]), budget=25)
    items = []
    for _ in range(rng.choice([1, 2, 3, 4])):
        g.budget = rng.choice([6, 12, 25, 40])
        items.append(g.item())
    prng = random.Random(seed ^ 0x2545F491)
    toks = jtree.print_tokens(items, prng, trailing_commas=prng.choice([0.0, 0.5, 1.0]),
                              raw_newlines=prng.choice([0.3, 1.0, 1.0]), braceless=prng.choice([0.0, 0.5, 1.0]))
    prof, cfg, style = rand_cfg(prng)
    if prng.random() < 0.2:
        return "canonical", jtree.render_canonical(toks)
    return prof, jtree.render_perturbed(toks, prng, cfg, style=style)


FEATURES = [
    ("mlstr", re.compile(r'"[^"\n]*\n')),
    ("comment", re.compile(r"//")),
    ("tabs", re.compile(r"\t")),
    ("crlf", re.compile(r"\r\n")),
    ("nonascii", re.compile(r"[^\x00-\x7f]")),
    ("elseif", re.compile(r"else\s+if")),
    ("match", re.compile(r"\bmatch\b")),
    ("lambda", re.compile(r"\bfun\s*\(")),
    ("blankrun", re.compile(r"\n[ \t]*\n[ \t]*\n")),
    ("longline", re.compile(r"[^\n]{101,}")),
    ("trailcomma", re.compile(r",\s*[)\]}>]")),
    ("deepindent", re.compile(r"\n {9,}\S")),
]


def features(src):
    return ",".join(n for n, rx in FEATURES if rx.search(src))


# ---------------------------------------------------------------------------- run

def run_batch(cases):
    n = len(cases)
    srcs = [None] * n
    cls = [None] * n
    skip = [None] * n
    # phase 1: repository files (read, and lex the ones that get a new layout)
    lex_idx = []
    for i, c in enumerate(cases):
        t = c["t"]
        if t in ("witness", "mlstr", "longsig"):
            srcs[i], cls[i] = c["src"], t + (":" + c["name"] if t == "mlstr" else "")
        elif t == "gen":
            prof, srcs[i] = gen_program(c["seed"])
            cls[i] = "gen:" + prof
        elif t == "repo":
            try:
                text = open(os.path.join(core.REPO, c["file"]), encoding="utf-8").read()
            except (OSError, UnicodeDecodeError) as e:
                skip[i] = "unreadable: %s" % e
                continue
            if c.get("perturb") is None:
                srcs[i], cls[i] = text, "repo:verbatim"
            else:
                srcs[i] = text
                lex_idx.append(i)
    if lex_idx:
        rs = core.batch([{"op": "frontend", "src": srcs[i], "comments": True, "tokens": True} for i in lex_idx], timeout=180)
        for i, r in zip(lex_idx, rs):
            if r is None or "crash" in r or r.get("parse_errors") or "tokens" not in r or r.get("parse_panic"):
                skip[i] = "original does not lex/parse cleanly"
                continue
            rng = random.Random(cases[i]["perturb"])
            toks, trailing = jtree.tokens_from_lex(srcs[i], r["tokens"], r.get("comments") or [])
            if not toks:
                skip[i] = "empty"
                continue
            prof, cfg, style = rand_cfg(rng)
            text = jtree.render_perturbed(toks, rng, cfg, style=style)
            if trailing:
                text = text.rstrip("\r\n") + "\n" + "\n".join(trailing) + "\n"
            srcs[i], cls[i] = text, "repo:" + prof
    # phase 2: format
    idx = [i for i in range(n) if skip[i] is None]
    reqs = [{"op": "frontend", "src": srcs[i], "ast": True, "format": True, "format_ast": True, "comments": True} for i in idx]
    resps = core.batch(reqs, timeout=300) if reqs else []
    out = [None] * n
    for i, r in zip(idx, resps):
        out[i] = judge(cases[i], cls[i], srcs[i], r)
    for i in range(n):
        if out[i] is None:
            out[i] = {"status": "held", "key": None, "note": skip[i]}
    return out


def norm_docs(x):
    """Doc comments are comment text: line ends and trailing blanks are whitespace (CRLF input is
    re-written with LF by the formatter)."""
    if isinstance(x, list):
        return [norm_docs(i) for i in x]
    if isinstance(x, dict):
        return {k: ("\n".join(l.rstrip() for l in v.split("\n")) if k == "doc" and isinstance(v, str) else norm_docs(v))
                for k, v in x.items()}
    return x


def strip_comment(t):
    return t.rstrip()


def judge(case, cl, src, r):
    if r is None or "crash" in r:
        c = (r or {}).get("crash", "lost")
        if c in ("timeout", "lost"):
            return {"status": "inconclusive", "key": None, "detail": {"src": src, "crash": c}}
        return {"status": "violated", "key": cl, "sig": "crash:" + core.panic_sig((r or {}).get("stderr", "")),
                "detail": {"src": src, "stderr": (r or {}).get("stderr", "")[-500:]}}
    if r.get("parse_panic") or r.get("lex_panic"):
        return {"status": "held", "key": None}          # not C17's input domain (C01 reports it)
    if r.get("parse_errors"):
        return {"status": "held", "key": None}          # outside the property
    if r.get("format_panic"):
        return {"status": "violated", "key": cl, "sig": "format-" + core.panic_sig(r["format_panic"]),
                "detail": {"src": src, "panic": r["format_panic"]}}
    out = r.get("formatted")
    key = "%s|%s|%s" % (cl, features(src), "changed" if out != src else "same")
    base = {"src": src, "formatted": out}
    if r.get("formatted_parse_panic"):
        return {"status": "violated", "key": key, "sig": "formatted-" + core.panic_sig(r["formatted_parse_panic"]), "detail": base}
    ferrs = r.get("formatted_parse_errors")
    if ferrs:
        return {"status": "violated", "key": key,
                "sig": "formatted-does-not-parse:" + core.norm_msg(ferrs[0].get("msg", "")).replace(" ", "_")[:70],
                "detail": dict(base, errors=ferrs[:2])}
    a, b = r.get("items"), r.get("formatted_items")
    if a is None or b is None:
        return {"status": "inconclusive", "key": None, "detail": dict(base, why="dump missing", keys=sorted(r))}
    a, b = norm_docs(a), norm_docs(b)
    if a != b:
        sig, info = classify_tree_change(a, b)
        return {"status": "violated", "key": key, "sig": sig, "detail": dict(base, **info)}
    ca = [strip_comment(c["text"]) for c in r.get("comments") or []]
    cb = [strip_comment(c) for c in r.get("formatted_comments") or []]
    if ca != cb:
        return {"status": "violated", "key": key, "sig": "comments-changed:" + classify_comments(ca, cb),
                "detail": dict(base, comments_in=ca[:12], comments_out=cb[:12])}
    return {"status": "held", "key": key}


def find_diff_nodes(a, b, path="$"):
    """-> (path, a_node, b_node) of the first difference, descending as far as kinds agree."""
    if isinstance(a, dict) and isinstance(b, dict) and a.get("k") == b.get("k") and set(a) == set(b):
        for k in sorted(a):
            if a[k] != b[k]:
                sub = find_diff_nodes(a[k], b[k], path + "." + k)
                if isinstance(a[k], (dict, list)) and type(a[k]) == type(b[k]):
                    return sub
                return (path + "." + k, a, b)
    if isinstance(a, list) and isinstance(b, list) and len(a) == len(b):
        for i, (x, y) in enumerate(zip(a, b)):
            if x != y:
                return find_diff_nodes(x, y, path + "[]")
    return (path, a, b)


def classify_tree_change(a, b):
    path, x, y = find_diff_nodes(a, b)
    info = {"where": path, "first_difference": jtree.first_diff(jtree.normalize(a), jtree.normalize(b))}
    if isinstance(x, dict) and isinstance(y, dict) and x.get("k") == "str" and y.get("k") == "str":
        info["string_in"], info["string_out"] = x.get("v"), y.get("v")
        return "string-content-changed:" + classify_string_change(x.get("v", ""), y.get("v", "")), info
    if path.endswith(".doc") or (isinstance(x, dict) and isinstance(y, dict) and x.get("doc") != y.get("doc") and "doc" in x):
        return "doc-comment-changed", info
    if jtree.normalize(a) == jtree.normalize(b):
        return "value-used-flag-changed", info
    return "tree-changed:" + str(jtree.diff_class(jtree.normalize(a), jtree.normalize(b))), info


def classify_string_change(s, t):
    if s.replace("\r", "") == t.replace("\r", ""):
        return "carriage-return"
    ls, lt = s.split("\n"), t.split("\n")
    if len(ls) == len(lt):
        if all(p == q or (p.lstrip(" \t") == q.lstrip(" \t")) for p, q in zip(ls, lt)):
            if all(p == q or p.strip() == "" for p, q in zip(ls, lt)):
                return "whitespace-only-line-emptied"
            return "continuation-line-reindent"
        if all(p.strip(" \t") == q.strip(" \t") for p, q in zip(ls, lt)):
            return "continuation-line-whitespace"
    cs = [x for x in ls if x.strip() != ""]
    ct = [x for x in lt if x.strip() != ""]
    if cs == ct:
        return "blank-lines-collapsed"
    if [x.lstrip(" \t") for x in cs] == [x.lstrip(" \t") for x in ct]:
        return "blank-lines-collapsed+reindent"
    if re.sub(r"\s+", "", s) == re.sub(r"\s+", "", t):
        return "whitespace-inside-string"
    return "other"


def classify_comments(a, b):
    if sorted(a) == sorted(b):
        return "reordered"
    if len(b) < len(a) and all(x in a for x in b):
        return "lost"
    if len(b) > len(a):
        return "added"
    if len(a) == len(b) and [x.replace(" ", "").replace("\t", "") for x in a] == [x.replace(" ", "").replace("\t", "") for x in b]:
        return "inner-whitespace"
    return "text"
