"""C33 Printing a syntax tree and parsing it gives the same tree.

A tree is generated from the grammar (gm/gen/jtree.py) directly in the shape of the hook's AST dump,
printed as canonical source, parsed by the real parser (`frontend` op of `garden verif-batch`), and the
dump (positions and `used` erased) must equal the generated tree with no parse errors. The expected
tree comes from the generator, never from a parse.
"""
import glob
import json
import os
import random

from .. import core
from ..gen import jtree

ID = "C33"
LEVEL = "exploration"
RULE = ("cases = syntax trees generated from the grammar: (1) every expression kind placed in every syntactic slot "
        "that admits it (kind-in-slot grid), (2) random programs of 1-4 top-level items (fun/method/test/enum/struct/"
        "import/expression/block) to depth 6 / 40 expression nodes, printed canonically with the equivalent spellings "
        "(else-if vs else{if}, braceless arms, trailing commas, raw vs escaped newlines) chosen at random; a quarter of "
        "the random cases are additionally laid out with random whitespace that respects the grammar's layout rules. "
        "distinct key = shape of the tree (kinds and arities, names and literal values erased)")
ASSUME = ["the AST dump hook (src/verif.rs) walks the real AST faithfully",
          "layout rules that garden documents as disambiguation (touching `f(`, `Name{`, `.x`; `return` value on the "
          "same line; spaced operators; no keywords as names; no lambda at the start of a top-level expression) are "
          "part of the grammar, so the printer obeys them instead of flagging them",
          "string contents ending in a backslash are excluded until the C12 lexer defect is fixed (jtree.JTREE_TRAILING_BACKSLASH)"]
BATCH = 60
FLOOR = {"quick": 300, "thorough": 3000}
BUDGET = {"quick": 40, "thorough": 780}

CORPUS = os.path.join(core.VERIF, "corpus", "C33")

# ---------------------------------------------------------------------------- kind-in-slot grid

KINDS = ["int", "float", "str", "var", "binop", "paren", "list", "tuple", "dict", "struct_lit", "call", "mcall", "dot",
         "ns", "funlit", "assert", "if", "while", "for", "try", "break", "continue", "match", "let", "assign",
         "assign_update", "return"]
OPERAND_OK = {"int", "float", "str", "var", "paren", "list", "tuple", "dict", "struct_lit", "call", "mcall", "dot", "ns",
              "funlit", "assert", "if", "match"}
SLOTS = ["stmt", "toplevel", "let_value", "assign_value", "arg", "arg2", "binop_lhs", "binop_rhs", "chain_mid", "recv_dot",
         "recv_mcall", "callee", "ns_recv", "if_cond", "while_cond", "match_scrutinee", "for_iter", "return_value",
         "list_item", "tuple_item", "paren_inner", "arm", "arm_block", "field_value", "dict_key", "dict_value",
         "assert_inner", "lambda_body", "else_block", "test_body", "method_body", "update_value"]


def slot_admits(slot, kind):
    if slot == "callee":
        return kind in OPERAND_OK and kind != "dot"      # `x.f(a)` is a method call by definition
    if slot in ("binop_rhs", "chain_mid", "recv_dot", "recv_mcall", "ns_recv"):
        return kind in OPERAND_OK
    if slot == "binop_lhs":
        return kind in OPERAND_OK or kind == "binop"
    if slot == "toplevel":
        return kind != "funlit"
    return True


def place(slot, e):
    """-> list of top-level items with expression e in the given slot."""
    J = jtree
    v = J.var

    def fun(body):
        return [{"k": "fun", "sym": J.sym("f"), "public": False,
                 "fun": {"k": "funinfo", "doc": None, "name": J.sym("f"), "type_params": [],
                         "params": [{"sym": J.sym("p"), "hint": None}], "ret": None, "body": J.block(body)}}]
    if slot == "toplevel":
        return [{"k": "expr", "expr": e}, {"k": "expr", "expr": v("after")}]
    if slot == "stmt":
        return fun([v("before"), e, v("after")])
    if slot == "let_value":
        return fun([{"k": "let", "dest": J.sym("x"), "hint": None, "value": e}, v("after")])
    if slot == "assign_value":
        return fun([{"k": "assign", "sym": J.sym("x"), "value": e}, v("after")])
    if slot == "update_value":
        return fun([{"k": "assign_update", "sym": J.sym("x"), "op": "-=", "value": e}, v("after")])
    if slot == "arg":
        return fun([{"k": "call", "fun": v("g"), "args": [e]}, v("after")])
    if slot == "arg2":
        return fun([{"k": "mcall", "recv": v("o"), "sym": J.sym("m"), "args": [v("a"), e, v("b")]}])
    if slot == "binop_lhs":
        return fun([J.binop("-", e, v("b")), v("after")])
    if slot == "binop_rhs":
        return fun([J.binop("-", v("a"), e), v("after")])
    if slot == "chain_mid":
        return fun([J.binop("*", J.binop("-", v("a"), e), v("c")), v("after")])
    if slot == "recv_dot":
        return fun([{"k": "dot", "recv": e, "sym": J.sym("fld")}, v("after")])
    if slot == "recv_mcall":
        return fun([{"k": "mcall", "recv": e, "sym": J.sym("m"), "args": []}, v("after")])
    if slot == "callee":
        return fun([{"k": "call", "fun": e, "args": [v("a")]}, v("after")])
    if slot == "ns_recv":
        return fun([{"k": "ns", "recv": e, "sym": J.sym("member")}, v("after")])
    if slot == "if_cond":
        return fun([{"k": "if", "cond": e, "then": J.block([v("t")]), "else": J.block([v("e")])}])
    if slot == "while_cond":
        return fun([{"k": "while", "cond": e, "body": J.block([{"k": "break"}])}])
    if slot == "match_scrutinee":
        return fun([{"k": "match", "scrutinee": e, "cases": [{"variant": J.sym("Some"), "payload": J.sym("x"), "body": J.block([v("x")])}]}])
    if slot == "for_iter":
        return fun([{"k": "for", "dest": J.sym("x"), "iter": e, "body": J.block([v("x")])}])
    if slot == "return_value":
        return fun([{"k": "return", "value": e}, v("after")])
    if slot == "list_item":
        return fun([{"k": "list", "items": [v("a"), e, v("b")]}])
    if slot == "tuple_item":
        return fun([{"k": "tuple", "items": [e]}, {"k": "tuple", "items": [e, v("b")]}])
    if slot == "paren_inner":
        return fun([J.paren(e), v("after")])
    if slot == "arm":
        b = J.block([e])
        return fun([{"k": "match", "scrutinee": v("s"), "cases": [
            {"variant": J.sym("A"), "payload": None, "body": b},
            {"variant": J.sym("B"), "payload": {"k": "destructure", "syms": [J.sym("x"), J.sym("y")]}, "body": J.block([v("x")])}]}])
    if slot == "arm_block":
        return fun([{"k": "match", "scrutinee": v("s"), "cases": [
            {"variant": J.sym("A"), "payload": None, "body": J.block([e, v("z")])},
            {"variant": J.sym("B"), "payload": None, "body": J.block([])}]}])
    if slot == "field_value":
        return fun([{"k": "struct_lit", "type": J.tsym("P"), "fields": [[J.sym("x"), e], [J.sym("y"), v("b")]]}])
    if slot == "dict_key":
        return fun([{"k": "dict", "items": [[e, v("b")]]}])
    if slot == "dict_value":
        return fun([{"k": "dict", "items": [[v("a"), e], [v("c"), v("d")]]}])
    if slot == "assert_inner":
        return fun([{"k": "assert", "value": e}, v("after")])
    if slot == "lambda_body":
        return fun([{"k": "let", "dest": J.sym("g"), "hint": None, "value": {"k": "funlit", "fun": {
            "k": "funinfo", "doc": None, "name": None, "type_params": [], "params": [], "ret": None, "body": J.block([e])}}}])
    if slot == "else_block":
        return fun([{"k": "if", "cond": v("c"), "then": J.block([]), "else": J.block([e])}])
    if slot == "test_body":
        return [{"k": "test", "doc": None, "sym": J.sym("t"), "body": J.block([e])}]
    if slot == "method_body":
        return [{"k": "method", "public": True, "recv_hint": J.hint("List", [J.hint("T")]), "recv_sym": J.sym("this"), "sym": J.sym("m"),
                 "fun": {"k": "funinfo", "doc": None, "name": J.sym("m"), "type_params": [J.tsym("T")], "params": [],
                         "ret": J.hint("Tuple", [J.hint("T"), J.hint("Int")]), "body": J.block([e])}}]
    raise ValueError(slot)


def grid_tree(slot, kind, variant):
    """Deterministic small expression of the given kind (two variants)."""
    rng = random.Random("%s/%s/%d" % (slot, kind, variant))
    g = jtree.Gen(rng, maxdepth=2 + variant, budget=6 + 6 * variant, docs=False)
    e = g.make(kind, 0)
    if slot == "toplevel" and jtree.leftmost_token_kind(e) == "funlit":
        e = jtree.var("x")
    return place(slot, e)


# ---------------------------------------------------------------------------- cases

def gen_cases(tier, seed):
    for p in sorted(glob.glob(os.path.join(CORPUS, "*.json"))):
        c = json.load(open(p))
        c["t"] = "corpus"
        c["name"] = os.path.basename(p)
        yield c
    for slot in SLOTS:
        for kind in KINDS:
            if slot_admits(slot, kind):
                for variant in (0, 1):
                    yield {"t": "grid", "slot": slot, "kind": kind, "variant": variant}
    yield {"_marker": "kind-in-slot", "slots": len(SLOTS), "kinds": len(KINDS), "space": "every expression kind in every slot that admits it, 2 variants"}
    rng = random.Random(seed * 1000003 + 33)
    i = 0
    while True:
        i += 1
        yield {"t": "rand", "seed": rng.getrandbits(48), "layout": "perturbed" if i % 4 == 0 else "canonical"}


def build(case):
    """-> (expected items, source text)"""
    if case["t"] == "corpus":
        return case["items"], case["src"]
    if case["t"] == "grid":
        items = grid_tree(case["slot"], case["kind"], case["variant"])
        toks = jtree.print_tokens(items, None)
        return items, jtree.render_canonical(toks)
    rng = random.Random(case["seed"])
    g = jtree.Gen(rng, maxdepth=rng.choice([2, 3, 4, 5, 6]), budget=rng.choice([6, 12, 25, 40]))
    items = []
    for _ in range(rng.choice([1, 1, 2, 3, 4])):
        g.budget = rng.choice([6, 12, 25, 40])
        items.append(g.item())
    prng = random.Random(case["seed"] ^ 0x5bd1e995)
    toks = jtree.print_tokens(items, prng, trailing_commas=prng.choice([0.0, 0.3, 1.0]),
                              raw_newlines=prng.choice([0.0, 0.5, 1.0]), braceless=prng.choice([0.0, 0.5, 1.0]))
    if case.get("layout") == "perturbed":
        style = prng.choice([None, None, "oneline", "exploded"])
        src = jtree.render_perturbed(toks, prng, {"comment": 0.0, "crlf": 0.0, "comment_blank": 0.0}, style=style)
    else:
        src = jtree.render_canonical(toks)
    return items, src


def shape(x):
    if isinstance(x, list):
        return [shape(i) for i in x]
    if isinstance(x, dict):
        return {k: shape(v) for k, v in x.items() if k not in ("name", "v", "bits", "path", "doc")}
    return None if isinstance(x, str) else x


def run_batch(cases):
    built = []
    for c in cases:
        try:
            built.append(build(c))
        except RecursionError:
            built.append(None)
    reqs = [{"op": "frontend", "src": b[1], "ast": True} for b in built if b is not None]
    resps = iter(core.batch(reqs, timeout=180))
    out = []
    for c, b in zip(cases, built):
        if b is None:
            out.append({"status": "inconclusive", "key": None, "detail": {"why": "generator recursion"}})
            continue
        out.append(judge(c, b[0], b[1], next(resps)))
    return out


def judge(case, items, src, r):
    exp = jtree.normalize(items)
    pre = "layout:" if case.get("layout") == "perturbed" else ""
    key = "shape:" + core.sha(shape(exp))
    if r is None or "crash" in r:
        cls = (r or {}).get("crash", "lost")
        if cls in ("timeout", "lost"):
            return {"status": "inconclusive", "key": None, "detail": {"src": src, "crash": cls}}
        return {"status": "violated", "key": key, "sig": pre + "crash:" + core.panic_sig((r or {}).get("stderr", "")),
                "detail": {"src": src, "stderr": (r or {}).get("stderr", "")[-600:]}}
    if "parse_panic" in r or "ast_panic" in r:
        return {"status": "violated", "key": key, "sig": pre + core.panic_sig(r.get("parse_panic") or r.get("ast_panic")),
                "detail": {"src": src, "panic": r.get("parse_panic") or r.get("ast_panic")}}
    errs = r.get("parse_errors") or []
    if errs:
        return {"status": "violated", "key": key, "sig": pre + "parse-error:" + core.norm_msg(errs[0].get("msg", "")).replace(" ", "_")[:80],
                "detail": {"src": src, "errors": errs[:3]}}
    got = jtree.normalize(r.get("items"))
    if got != exp:
        return {"status": "violated", "key": key, "sig": pre + "tree-mismatch:" + str(jtree.diff_class(exp, got)),
                "detail": {"src": src, "first_difference(expected vs parsed)": jtree.first_diff(exp, got)}}
    return {"status": "held", "key": key}


def replay(case):
    return run_batch([case])[0]
