"""C31 nREPL interrupt stops the running eval and no other.

Same executor and transcript as C30 (gm/gen/g_nrepl.py) with histories built from interrupt / close scenarios
and delays concentrated on the worker's dequeue / flag-reset and the reader's store.

Judged (client-side transcript unless stated):
  (a) an `interrupt` sent after the client received the first `out` of a bounded long eval (and before its
      `done`) must end that eval with status `interrupted`; a value instead = the interrupt was lost.
      Logical promptness (server event log): when the target's eval is the only one active in the process, the
      eval loop observes the flag within 2 interpreter steps of `interrupt.after_store`.
  (b) an eval sent after every interrupt/close that was ever sent to its session must not be `interrupted`
      (covers "interrupt while idle does not cancel the next eval" and interrupts leaking into later evals);
      an eval of a session that never received an interrupt must not be `interrupted` (no other session).
  (c) a `close` sent while a bounded long eval is known to be executing ends it `interrupted`; afterwards the
      session is unknown to eval / interrupt / close and absent from `ls-sessions`.
  (d) event log, logical: a stop whose store falls after the worker's `flag_reset` point of the cycle handling
      eval E and is complete before E's `eval.begin` (the worker is parsing / loading the request) must end E
      `interrupted` (`interrupt-lost:pre-eval-window`); reached with large sources (thousands of definitions +
      a bounded long loop) stopped without waiting for output, and delays on flag_reset / eval.begin.
Not judged from the client side: an interrupt sent after an eval was sent but before its first output (either outcome is allowed).
"""
import random

from . import c30 as base
from ..gen import g_nrepl as G

ID = "C31"
LEVEL = "exploration"
RULE = ("case = one history of interrupt / close scenarios (interrupt while idle then eval; interrupt or close of a "
        "bounded long eval after its first output was received; eval immediately followed by interrupt then "
        "another eval; interrupts aimed at other / closed / unknown sessions while bystander sessions evaluate) on "
        "1..3 connections x 1..3 sessions against a fresh `garden nrepl` with seeded delays (0..40 ms) at dequeue, "
        "flag reset, before/after the interrupt and close stores; non-trivial = at least one eval was answered; "
        "distinct = distinct set of windows of the worker cycle in which the interrupt/close stores landed plus "
        "flusher activity classes, from the server's event log")
ASSUME = ["a 1 500 000-iteration loop cannot finish between the client's receipt of its first output and the "
          "server's handling of an interrupt sent afterwards (6 s of work on an idle machine vs. <= 0.1 s of injected delay)",
          "the process-wide step counter is only compared when exactly one eval is active in the process",
          "watchdogs (40 s; 120 s for a long eval) only ever yield `inconclusive`"]
BATCH = 1
FLOOR = {"quick": 25, "thorough": 150}
BUDGET = {"quick": 36, "thorough": 780}


def gen_cases(tier, seed):
    for c in base.corpus_cases(ID):
        yield c
    rng = random.Random(seed * 1000003 + 31)
    n = 0
    while True:
        c = G.gen_case(rng, "c31")
        c["n"] = n
        n += 1
        yield c


def run_batch(cases):
    return [base.run_case(c, "c31", ID) for c in cases]
