"""C08 An evaluation interrupted anywhere resumes to the same outcome.

Deterministic fault injection: the hooked build sets the session's interrupt flag when the tick counter
reaches chosen values (GDN_VERIF_INTERRUPT_AT). For a program P the uninterrupted JSON-session run is the
baseline; for every single tick k = 1..T (exhaustively) and for random increasing pairs/triples the run
`P, :resume x |S|` must report exactly |S| interruptions and then the same printed output and final result.
"""
import glob
import json
import os
import random

from .. import core, session
from ..gen import prog as G
from ..gen import printer

ID = "C08"
LEVEL = "fault_enumeration"
RULE = ("programs = committed kernels (corpus/C08) + seeded core-fragment programs; for each program EVERY tick "
        "k=1..T is an interrupt point (one run per k), then random increasing 2- and 3-point schedules; a case = one "
        "program x one chunk of schedules; distinct key = (ExpressionState, expression kind, stack-depth class) of "
        "the step at which an interrupt landed, taken from the hook's tick log")
ASSUME = ["the injected flag store is indistinguishable from Ctrl-C / an interrupt request: the eval loop reads the "
          "same AtomicBool on the very next statement (hook H5 sets it before the existing check)",
          "baseline = the uninterrupted run of the same binary (a metamorphic oracle, not a reference semantics)"]
BATCH = 1
FLOOR = {"quick": 20, "thorough": 40}
BUDGET = {"quick": 30, "thorough": 840}
NCHUNK = 16
KCHUNK = 8
TECHNIQUE = "fault enumeration: deterministic interrupt injection at every interpreter step, resumed, compared with the uninterrupted run"


def corpus():
    return sorted(glob.glob(os.path.join(core.VERIF, "corpus", "C08", "*.gdn")))


def gen_cases(tier, seed):
    # a real interrupt request that arrives WHILE a slow built-in (a shell command inside the scratch dir) is running
    for j in range(3):
        yield {"live": j, "delay_ms": [300, 500, 150][j]}
    # kernels first, in few large chunks, so that every kernel is covered at every tick even by a short budget
    for c in range(KCHUNK):
        for path in corpus():
            yield {"corpus": os.path.basename(path), "chunk": c, "nchunk": KCHUNK}
    for path in corpus():
        yield {"corpus": os.path.basename(path), "multi": 0}
    yield {"_marker": "corpus-kernels-every-tick", "kernels": len(corpus())}
    i = 0
    while True:
        s = seed * 104729 + i
        for c in range(NCHUNK):
            yield {"seed": s, "chunk": c}
        yield {"seed": s, "multi": 0}
        if tier == "thorough":
            yield {"seed": s, "multi": 1}
        i += 1


def source(case):
    if "corpus" in case:
        return open(os.path.join(core.VERIF, "corpus", "C08", case["corpus"])).read()
    pr = G.generate(case["seed"], G.Opts(n_main=5, n_funs=2, max_depth=3, errors=0.04))
    src, _ = printer.print_program(pr)
    return src


def run_session(src, ks, sc, ticklog=False):
    # the baseline gets no `:resume` at all: a resume after a final error would re-execute the failed step and its ticks
    # would be counted as ticks of the program
    reqs = [core.run_req(src, 1)] + [core.run_req(":resume", 2 + i) for i in range(len(ks) + (1 if ks else 0))]
    env = {}
    log = None
    if ks:
        env["GDN_VERIF_INTERRUPT_AT"] = ",".join(str(k) for k in ks)
    if ticklog:
        log = os.path.join(sc.dir, "ticks.log")
        if os.path.exists(log):
            os.unlink(log)
        env["GDN_VERIF_EVENT_LOG"] = log
        env["GDN_VERIF_TICK_LOG"] = "1"
    r, resps = core.json_session_file(reqs, timeout=60, scratch=sc, env=env)
    return r, resps, log


def digest(resps, n_int):
    """-> (n interruptions seen before the final answer, printed text before final, final summary)"""
    printed = []
    ints = 0
    final = None
    for x in resps:
        s = session.summarize(x)
        if s[0] == "printed":
            if final is None:
                printed.append(s[1] or "")
            continue
        if s[0] == "printed_stderr":
            continue
        if final is None and (s[0] == "interrupted" or (s[0] == "err" and s[1] == "Interrupted")) and ints < n_int:
            ints += 1
            continue
        if final is None:
            if s[0] == "err":
                pos = s[2] or {}
                final = ("err", s[1], pos.get("start_offset"), pos.get("end_offset"))
            else:
                v = s[1]
                if s[0] == "ok" and isinstance(v, str) and "evaluated to " in v:
                    v = v.split("evaluated to ", 1)[1]
                    v = v[:-1] if v.endswith(".") else v
                final = (s[0], v)
    return ints, "".join(printed), final


def run_batch(cases):
    out = []
    with core.Scratch("gm-c08-") as sc:
        for case in cases:
            out.append(run_case(case, sc))
    return out


def run_live(case, sc):
    """Interrupt by request while `shell::run` is inside its subprocess, then resume: the command's side effect (one
    line appended to a file in the scratch dir) must have happened exactly once per call, the output and the final
    value must be those of the uninterrupted run. Timing only decides WHERE the interrupt lands; whatever the landing
    point, the expected outcome is the same, so the verdict does not depend on the clock."""
    import time
    from .. import session as S
    log = os.path.join(sc.dir, "effects_%d.log" % case["live"])
    prog = ('import "__shell.gdn" as sh\n'
            'println("before")\n'
            'let r1 = sh::run("bash", ["-c", "echo one >> %s; sleep 1.2; echo out1"])\n'
            'println("middle")\n'
            'let r2 = sh::run("bash", ["-c", "echo two >> %s; echo out2"])\n'
            'println("after")\n'
            '7 * 6\n') % (log, log)
    ls = S.LiveSession(cwd=sc.dir)
    try:
        got, st = ls.read_until(lambda v: S.resp_kind(v) == "ready", timeout=30)
        if st != "ok":
            return {"status": "inconclusive", "key": None, "detail": {"why": "no ready"}}
        ls.send({"method": "run", "input": prog, "id": 1})
        time.sleep(case["delay_ms"] / 1000.0 + 0.25)
        ls.send({"method": "interrupt"})
        printed, finals, interrupted = [], [], 0
        deadline = time.time() + 60
        pending_resumes = 0
        while time.time() < deadline:
            part, st = ls.read_until(lambda v: S.resp_kind(v) not in ("printed", "printed_stderr"), timeout=30)
            for v in part:
                k = S.resp_kind(v)
                if k == "printed":
                    printed.append(S.resp_body(v).get("s") or "")
            if st != "ok":
                break
            v = part[-1]
            sm = S.summarize(v)
            if S.resp_kind(v) == "interrupted" and S.resp_body(v).get("stack_frame_name") is None:
                continue                    # the reader thread's ack
            if sm[0] == "interrupted" or (sm[0] == "err" and sm[1] == "Interrupted"):
                interrupted += 1
                ls.send({"method": "run", "input": ":resume", "id": 10 + interrupted})
                continue
            finals.append(sm[:2])
            break
        effects = open(log).read().split() if os.path.exists(log) else []
        detail = {"program": prog, "printed": printed, "final": finals, "interruptions": interrupted, "effects": effects,
                  "stderr": ls.stderr_text()[-500:]}
        if not ls.alive() or "panicked at" in ls.stderr_text():
            return {"status": "violated", "key": None, "sig": "crash-after-interrupt:" + core.panic_sig(ls.stderr_text()), "detail": detail}
        if not finals:
            return {"status": "inconclusive", "key": None, "detail": detail}
        key = "live|interruptions=%d" % min(interrupted, 2)
        if effects != ["one", "two"]:
            sig = "side-effect-repeated" if len(effects) > 2 else "side-effect-lost"
            return {"status": "violated", "key": key, "sig": sig + ":builtin-interrupted-by-request", "detail": detail}
        if "".join(printed) != "before\nmiddle\nafter\n":
            return {"status": "violated", "key": key, "sig": "output-differs:builtin-interrupted-by-request", "detail": detail}
        v = finals[0][1] or ""
        if finals[0][0] != "ok" or not (v == "42" or v.endswith("evaluated to 42.")):
            return {"status": "violated", "key": key, "sig": "final-result-differs:builtin-interrupted-by-request", "detail": detail}
        return {"status": "held", "key": key}
    finally:
        ls.close()


def run_case(case, sc):
    if "live" in case:
        return run_live(case, sc)
    src = source(case)
    r0, resps0, log = run_session(src, [], sc, ticklog=True)
    if r0.cls in core.CRASH:
        # a crash without any interrupt belongs to C02; not judged here
        return {"status": "inconclusive", "key": None, "detail": {"baseline_crash": r0.brief(), "src": src}}
    if r0.cls == "timeout":
        return {"status": "inconclusive", "key": None, "detail": {"baseline_timeout": True}}
    _, out0, fin0 = digest(resps0, 0)
    ticks = []
    try:
        for line in open(log):
            j = json.loads(line)
            if j.get("ev") == "tick":
                ticks.append(j)
    except OSError:
        pass
    T = len(ticks)
    if T == 0 or fin0 is None:
        return {"status": "inconclusive", "key": None, "detail": {"no_ticks": True, "src": src[:300]}}
    if "seed" in case and T > 700:
        # a long program costs thousands of runs; the generator supplies plenty of shorter ones
        return {"status": "held", "key": None}
    if "chunk" in case:
        n = case.get("nchunk", NCHUNK)
        scheds = [[k] for k in range(1, T + 1) if k % n == case["chunk"]]
    else:
        rng = random.Random(hash((case.get("seed", 0), case.get("corpus", ""), case["multi"])) & 0xFFFFFFFF)
        scheds = []
        for _ in range(12):
            n = min(rng.choice([2, 2, 3, 4]), T)
            base = sorted(rng.sample(range(1, T + 1), n))
            # every earlier interrupt re-executes one step, shifting later ticks by one
            ks = [b + i for i, b in enumerate(base)]
            # consecutive ticks are interesting: interrupt the re-executed step again
            if rng.random() < 0.3:
                ks = [ks[0], ks[0] + 1] + [k for k in ks[2:] if k > ks[0] + 1]
            scheds.append(ks)
    keys = set()
    for ks in scheds:
        r, resps, _ = run_session(src, ks, sc)
        detail = {"src": src, "schedule": ks, "ticks": T, "baseline": {"printed": out0[-600:], "final": fin0},
                  "site": [ticks[k - 1] if k <= T else None for k in ks]}
        wit = dict(case, only=ks)
        if r.cls in core.CRASH:
            return {"status": "violated", "key": None, "sig": "crash-after-interrupt:" + core.crash_sig(r),
                    "detail": dict(detail, observed=r.brief()), "case": wit}
        if r.cls == "timeout":
            return {"status": "inconclusive", "key": None, "detail": detail}
        ints, out1, fin1 = digest(resps, len(ks))
        detail["observed"] = {"interruptions": ints, "printed": out1[-600:], "final": fin1}
        if ints != len(ks):
            return {"status": "violated", "key": None, "sig": "interrupt-not-reported", "detail": detail, "case": wit}
        if out1 != out0:
            sig = "output-lost" if len(out1) < len(out0) else ("output-repeated" if len(out1) > len(out0) else "output-differs")
            return {"status": "violated", "key": None, "sig": sig, "detail": detail, "case": wit}
        if fin1 != fin0:
            return {"status": "violated", "key": None, "sig": "final-result-differs", "detail": detail, "case": wit}
        for k in ks:
            if k <= T:
                t = ticks[k - 1]
                keys.add("%s|%s|d%d" % (t["state"], t["kind"], min(t["depth"], 4)))
    return {"status": "held", "key": None, "keys": sorted(keys)}


def replay(case):
    """A recorded witness carries `only`: the single schedule that failed."""
    if "only" not in case:
        return run_batch([case])[0]
    with core.Scratch("gm-c08-") as sc:
        src = source(case)
        r0, resps0, _ = run_session(src, [], sc)
        _, out0, fin0 = digest(resps0, 0)
        r, resps, _ = run_session(src, case["only"], sc)
        ints, out1, fin1 = digest(resps, len(case["only"]))
        ok = r.cls not in core.CRASH and ints == len(case["only"]) and out1 == out0 and fin1 == fin0
        return {"status": "held" if ok else "violated", "sig": "replayed-schedule-differs",
                "detail": {"baseline": [out0, fin0], "observed": [ints, out1, fin1, r.brief()]}}
