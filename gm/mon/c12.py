"""C12 Printed values read back as equal values.

For an abstract value V (gm.ref.bval) built from *safe* source (no literal that ends in a backslash
before its closing quote): T = what `print(string_repr(V))` writes, and what the session shows as the
value of V. Then
  (0) both texts are the same;
  (1) the program T evaluates without error;
  (2) print(string_repr(T)) writes T again (fixpoint);
  (3) an independent reader of Garden literal syntax (gm.ref.bval.read) maps T to V;
  (4) for values without floats, `(T) == (V)` is True in Garden.
"""
import random

from ..gen import b_sess
from ..gen import b_values as gv
from ..ref import bval

ID = "C12"
LEVEL = "exploration"
RULE = ("case = one literal-syntax value; exhaustive part: every string of length <= 3 over {a, \", \\, newline, tab, "
        "CR, e-acute, emoji} (585), the strings of length <= 2 again as dict key / list item / struct field / enum "
        "payload, boundary ints and floats; random part: values of depth <= 4 (lists, tuples, dicts, Option/Result/"
        "Bool/Unit, user enums, structs) with strings up to 40 code points from a hostile alphabet; "
        "distinct key = (shape of the value to depth 2 with string classes, checks applied)")
ASSUME = ["gm/ref/bval.py reader implements the documented literal syntax and the four documented escapes",
          "Python's float repr and Rust's float parser/printer are both correctly rounded shortest-round-trip"]
BATCH = 80
FLOOR = {"quick": 150, "thorough": 400}
BUDGET = {"quick": 40, "thorough": 600}


def gen_cases(tier, seed):
    for s in gv.strings_exhaustive(3):
        yield {"v": gv.S(s), "style": 0}
    yield {"_marker": "strings-len<=3", "alphabet": ["a", "\"", "\\", "\\n", "\\t", "\\r", "e-acute", "emoji"], "count": 585}
    for s in gv.strings_exhaustive(2):
        yield {"v": gv.D((s, gv.I(1))), "style": 0}
        yield {"v": gv.L(gv.S(s), gv.S(s)), "style": 1}
        yield {"v": gv.PATH(s), "style": 0}
        yield {"v": gv.E("BBlue", gv.S(s)), "style": 1}
        yield {"v": gv.T(gv.S(s)), "style": 0}
    for n in gv.INT_EDGE + [MAXV - 2 for MAXV in (bval.MAX,)] + [10 ** k for k in range(1, 19)] + [-(10 ** k) for k in range(1, 19)]:
        yield {"v": gv.I(n), "style": 0}
    for x in gv.FLOAT_EDGE + [-y for y in gv.FLOAT_EDGE if y != 0.0] + [10.0 ** k for k in range(-20, 23)]:
        yield {"v": gv.F(x), "style": 0}
    for v in gv.c13_pool():
        yield {"v": v, "style": 0}
    yield {"_marker": "containers-of-short-strings+numeric-edges+literal-pool"}
    rng = random.Random(seed * 7919 + 12)
    while True:
        k = rng.random()
        if k < 0.3:
            yield {"v": gv.S(gv.rand_string(rng, rng.choice([4, 8, 40]))), "style": rng.choice([0, 1])}
        elif k < 0.4:
            yield {"v": gv.F(gv.rand_float(rng)), "style": 0}
        elif k < 0.45:
            yield {"v": gv.I(gv.rand_int(rng)), "style": 0}
        else:
            yield {"v": gv.rand_value(rng, rng.choice([1, 2, 3, 4])), "style": rng.choice([0, 1])}


def tag(v):
    return v[0]


def run_batch(cases):
    n = len(cases)
    srcs = [bval.src(c["v"], style=c.get("style", 0), safe=True) for c in cases]
    ins = []
    for s in srcs:
        ins.append("print(string_repr(%s))" % s)
        ins.append(s)
    o1 = b_sess.eval_many(ins, preamble=gv.PREAMBLE, timeout=120)
    results = [None] * n
    texts = [None] * n
    for i, c in enumerate(cases):
        v = c["v"]
        e1, e2 = o1[2 * i], o1[2 * i + 1]
        key = bval.shape(v, 2)
        bad = None
        for e, what in ((e1, "string_repr"), (e2, "repl")):
            r = e["res"]
            if r[0] == "crash":
                bad = {"status": "violated", "key": key, "sig": "crash:" + r[1],
                       "detail": {"src": srcs[i][:500], "step": what, "stderr": r[2]}}
                break
            if r[0] in ("timeout", "lost", "skipped"):
                bad = {"status": "inconclusive", "key": None, "detail": {"src": srcs[i][:500], "step": what, "observed": r[:2]}}
                break
            if r[0] == "err":
                # the safe source itself must evaluate; if it does not, the construction is not supported
                bad = {"status": "violated", "key": key, "sig": "value-source-does-not-evaluate:%s" % tag(v),
                       "detail": {"src": srcs[i][:500], "step": what, "observed": r[:2]}}
                break
        if bad:
            results[i] = bad
            continue
        t = e1["out"]
        t2 = e2["res"][1]
        if t != t2:
            results[i] = {"status": "violated", "key": key, "sig": "repl-display-differs-from-string_repr:%s" % tag(v),
                          "detail": {"src": srcs[i][:500], "string_repr": t[:500], "repl": (t2 or "")[:500]}}
            continue
        try:
            back = bval.read(t)
            ok = bval.equal(back, v)
            why = None if ok else "reads as another value"
        except bval.ReadError as ex:
            ok, why = False, "not literal syntax: %s" % ex
        except RecursionError:
            ok, why = True, None
        if not ok:
            results[i] = {"status": "violated", "key": key, "sig": "printed-form-denotes-other-value:%s" % tag(v),
                          "detail": {"src": srcs[i][:500], "printed": t[:500], "why": why}}
            continue
        texts[i] = t
    # round 2: the printed text as a program
    idx = [i for i in range(n) if texts[i] is not None]
    ins2 = []
    for i in idx:
        ins2.append("print(string_repr(%s))" % texts[i])
        ins2.append("(%s) == (%s)" % (texts[i], srcs[i]))
    o2 = b_sess.eval_many(ins2, preamble=gv.PREAMBLE, timeout=120)
    for k, i in enumerate(idx):
        v = cases[i]["v"]
        key = bval.shape(v, 2)
        e3, e4 = o2[2 * k], o2[2 * k + 1]
        det = {"src": srcs[i][:500], "printed": texts[i][:500]}
        r3, r4 = e3["res"], e4["res"]
        verdict = None
        for r, what in ((r3, "print again"), (r4, "compare")):
            if r[0] == "crash":
                verdict = {"status": "violated", "key": key, "sig": "crash:" + r[1], "detail": dict(det, step=what, stderr=r[2])}
                break
            if r[0] in ("timeout", "lost", "skipped"):
                verdict = {"status": "inconclusive", "key": None, "detail": dict(det, step=what, observed=r[:2])}
                break
        if verdict is None:
            if r3[0] == "err":
                verdict = {"status": "violated", "key": key, "sig": "printed-form-does-not-evaluate:%s" % tag(v),
                           "detail": dict(det, observed=r3[:2])}
            elif e3["out"] != texts[i]:
                verdict = {"status": "violated", "key": key, "sig": "print-read-print-not-a-fixpoint:%s" % tag(v),
                           "detail": dict(det, second=e3["out"][:500])}
            elif not bval.has_float(v):
                if r4[0] == "err":
                    verdict = {"status": "violated", "key": key, "sig": "printed-form-does-not-evaluate:%s" % tag(v),
                               "detail": dict(det, step="compare", observed=r4[:2])}
                elif r4[1] != "True":
                    verdict = {"status": "violated", "key": key, "sig": "read-back-not-equal:%s" % tag(v),
                               "detail": dict(det, observed=r4[:2])}
        results[i] = verdict or {"status": "held", "key": key + (" +eq" if not bval.has_float(v) else " -eq")}
    return results
