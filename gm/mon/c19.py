"""C19 Rename changes exactly the occurrences of one variable.

For every occurrence (definition or use) of every local variable / parameter of a generated program the
real `garden reftest-rename FILE OFFSET --new-name fresh` must produce exactly the text in which the
occurrences of that binder - known independently from the generator's binder ids - are replaced, and the
renamed program must print what the original prints.
"""
import random

from .. import core
from ..gen import prog as G
from ..gen import printer

ID = "C19"
LEVEL = "exploration"
RULE = ("cases = (seeded shadowing-heavy program, occurrence index); every def/use occurrence of every binder is a "
        "rename request; expected text = generator's occurrence set replaced; distinct key = (binder kind, role of the "
        "clicked occurrence, number of occurrences bucket, whether another binder shares the name, offset inside name)")
ASSUME = ["the generator's binder ids follow conventional lexical scoping (same model as gm/ref/interp.py)",
          "the LSP half of the property (textDocument/rename returns the same edits) is decided by C29's edit check"]
BATCH = 1
FLOOR = {"quick": 30, "thorough": 60}
BUDGET = {"quick": 35, "thorough": 840}
FRESH = "verif_fresh_name"


def gen_cases(tier, seed):
    i = 0
    while True:
        yield {"seed": seed * 2750159 + i, "profile": i % 3}
        i += 1


PROFILES = [dict(shadow=0.9, n_main=8, n_funs=3), dict(shadow=0.6, n_main=5, n_funs=2, max_depth=4),
            dict(shadow=0.95, n_main=10, n_funs=1, closures=True)]


def build(case):
    pr = G.generate(case["seed"], G.Opts(errors=0.0, **PROFILES[case["profile"]]))
    src, p = printer.print_program(pr)
    return pr, src, p


def expected_text(src, occs):
    out, i = [], 0
    for st, en in sorted(occs):
        out.append(src[i:st])
        out.append(FRESH)
        i = en
    out.append(src[i:])
    return "".join(out)


def run_batch(cases):
    res = []
    with core.Scratch("gm-c19-") as sc:
        for case in cases:
            res.append(run_case(case, sc))
    return res


def run_case(case, sc):
    pr, src, p = build(case)
    path = sc.file(src)
    by_bid = {}
    names = {}
    kinds = {}
    for bid, name, st, en, role, kind in p.binders:
        by_bid.setdefault(bid, []).append((st, en))
        names.setdefault(name, set()).add(bid)
        if role == "def":
            kinds[bid] = kind
    rng = random.Random(case["seed"])
    occs = list(p.binders)
    if len(occs) > 12:
        occs = rng.sample(occs, 12)
    keys = set()
    base_run = None
    for bid, name, st, en, role, kind in occs:
        off = st if rng.random() < 0.6 else rng.randrange(st, en)
        r = core.run_garden(["reftest-rename", path, str(off), "--new-name", FRESH], timeout=30, cwd=sc.dir)
        exp = expected_text(src, by_bid[bid])
        key = "%s|%s|n%d|%s|%s" % (kinds.get(bid, "?"), role, min(len(by_bid[bid]), 5),
                                   "shared-name" if len(names[name]) > 1 else "unique-name", "start" if off == st else "inside")
        detail = {"src": src, "offset": off, "name": name, "binder_kind": kinds.get(bid), "role": role,
                  "expected_ranges": sorted(by_bid[bid]), "observed": r.brief()}
        wit = dict(case, only=[bid, off])
        if r.cls in core.CRASH:
            return {"status": "violated", "sig": "crash:" + core.crash_sig(r), "detail": detail, "case": wit, "key": None}
        if r.cls == "timeout":
            return {"status": "inconclusive", "key": None, "detail": detail}
        if r.cls == "badreq":
            return {"status": "violated", "sig": "rename-refused:%s:%s" % (kinds.get(bid, "?"), role), "detail": detail, "case": wit, "key": None}
        if r.out != exp:
            got = diff_ranges(src, r.out)
            detail["observed_changed_ranges"] = got
            want = sorted(by_bid[bid])
            if got is not None and set(map(tuple, got)) < set(want):
                sig = "occurrences-missed"
            elif got is not None and set(map(tuple, got)) > set(want):
                sig = "unrelated-occurrences-renamed"
            else:
                sig = "wrong-occurrences-renamed"
            return {"status": "violated", "sig": sig + ":" + str(kinds.get(bid, "?")), "detail": detail, "case": wit, "key": None}
        keys.add(key)
    # behaviour of one renamed program
    if occs:
        bid = occs[0][0]
        new_src = expected_text(src, by_bid[bid])
        r1 = core.run_garden(["run", path], timeout=30, cwd=sc.dir)
        r2 = core.run_garden(["run", sc.file(new_src)], timeout=30, cwd=sc.dir)
        if r1.cls not in ("timeout",) and r2.cls not in ("timeout",):
            if r1.out != r2.out or (r1.err.split("\n")[0] != r2.err.split("\n")[0]):
                return {"status": "violated", "sig": "renamed-program-behaves-differently", "key": None,
                        "detail": {"src": src, "renamed": new_src, "orig": r1.brief(), "new": r2.brief()}}
    return {"status": "held", "key": None, "keys": sorted(keys)}


def diff_ranges(src, out):
    """Ranges of src that were replaced by FRESH in out, or None if out is not src with such replacements."""
    ranges = []
    i = j = 0
    n = len(FRESH)
    while j < len(out):
        if out.startswith(FRESH, j):
            # find how much of src was consumed: identifier characters
            k = i
            while k < len(src) and (src[k].isalnum() or src[k] == "_"):
                k += 1
            ranges.append([i, k])
            i = k
            j += n
            continue
        if i < len(src) and src[i] == out[j]:
            i += 1
            j += 1
            continue
        return None
    if i != len(src):
        return None
    return ranges
