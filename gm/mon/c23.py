"""C23 Reported source positions are consistent.

Oracle: gm.ref.a_pos.pos_problems (written from the property statement): a position lies inside the file, starts
and ends on character boundaries, its line/column agree with its start offset and its end line/end column with
its end offset. Applied to every position the front end produces for a text:

  in-process dump (hook, pos:true)  every AST node, symbol, type hint, brace, operator; every token and comment
                                    from the lexer; every parse error and its notes; every check diagnostic,
                                    its notes and its fixes
  `garden check --json` (CLI)       1-based line / byte column of every diagnostic: the line exists, the column is
                                    inside it and on a character boundary, the end is not before the start; on a
                                    text-keyed sample and on every text for which the hook saw a problem
  JSON session (CLI)                the `position` objects of errors and warnings of `run` requests (parse errors of
                                    arbitrary texts; runtime errors and warnings of template programs that touch
                                    nothing outside the interpreter), including region evaluation (offset/end_offset)

The workload puts multi-line string literals, non-ASCII text and comments on as many lines as possible.
"""
import json
import random

from .. import core
from .. import session
from ..gen import a_front as F
from ..gen import text as T
from ..ref import a_pos as P

ID = "C23"
LEVEL = "exploration"
RULE = ("inputs = committed regressions + every repository .gdn file (as is, and with multi-line strings / non-ASCII "
        "spliced in) + endless seeded stream weighted towards multi-line string literals, non-ASCII text, Unicode "
        "whitespace, comments and parse errors + template programs with runtime errors for the JSON session; every "
        "reported position is judged; distinct key = (where the position came from: AST node kind / token / comment / "
        "parse error / diagnostic / fix / note / check --json / session error / session warning, shape of the span: "
        "empty | one line | multi-line, ASCII or not before it on its line)")
ASSUME = ["the AST dump of the hook prints the six Position fields of the real nodes unchanged",
          "columns are byte columns (as the lexer computes them) and lines end at LF only"]
BATCH = 100
FLOOR = {"quick": 120, "thorough": 200}
BUDGET = {"quick": 45, "thorough": 600}
CLI_PERCENT = 3.0
SESSION_PERCENT = 4.0
PATH = "/verif/input.gdn"

CLASSES = [
    (18, "corpus_multiline"), (10, "corpus_nonascii"), (8, "corpus_unicode_ws"), (10, "corpus_mutation"),
    (6, "corpus_truncation"), (5, "corpus_unbalance"), (12, "snippet"), (10, "snippet_mutation"), (6, "token_soup"),
    (4, "soup"), (4, "corpus_splice"), (4, "corpus_respace"), (2, "nest"), (14, "runtime"),
]

# ---- template programs for the JSON session: they only compute, print and fail ----------------------------

_PRE = ['let s = "a\nb"\n', '// é 日本\n', 'let t = "é"\n', "", "", '"x\n\ny"\n', "fun f(x) { x }\n", '/// doc\n/// é\nfun g() { 1 }\n',
        'let w = "\U0001F600\n"\n']
_FAIL = ['error("boom")', '1 / 0', '[1].get(5)', 'undefined_var', '"a" + 1', 'assert(1 == 2)', 'let x: Int = "s"', 'f()',
         'None.or_throw()', '"é".substring(0, 99)', '[1, 2].get("x")', 'todo()', 'Some(1) + 1', '"x\ny" + 1', 'error("é\nü")',
         'foo(1,\n  2)', '1 +\n  "s"', 'let (a, b) = 1', 'no_such_ns::f()', '"s".no_such_method()', 'if 1 { 2 }', 'while "s" {}',
         'for x in 5 {}', 'match 1 { Some(q) => q None => 0 }', 'fun(x) { x }(1, 2)', 'dbg(\n"é\n")\nerror("e")', 'return 1',
         '1 2', 'let  =', '"unclosed', '(1,,)', 'x = 1', 'break']
_WRAP = ["{F}", "{F}", "é_ = 1\n{F}", "fun h() {{\n  {F}\n}}\nh()", "fun h() {{ let q = \"a\nb\" {F} }}\nh()", "let z = [1,\n\"é\",\n{F}]",
         "if True {{ {F} }}", "test t {{ {F} }}", "fun h(a: Int): String {{ {F} }}\nh(1)", "  \t {F}  // trailing é", "1\n\n{F}\n\n2",
         "let u = \"é\" {F}"]


def runtime_program(rng):
    return rng.choice(_PRE) + rng.choice(_PRE) + rng.choice(_WRAP).replace("{F}", rng.choice(_FAIL)).replace("{{", "{").replace("}}", "}") \
        + rng.choice(["", "\n", "\n// é"])


_OPENERS = ["", "", "fun f() {\n  ", "foo(", "let x = [1,\n ", "if c {\n g(", "match m {\n  A => ", "(", "test t { assert(h(\n"]


def eof_after_token(rng, t):
    toks = [k for k in T.tokens(t) if k[2] != "ws"]
    multi = [k for k in toks if "\n" in t[k[0]:k[1]].rstrip("\n")]
    if multi and rng.random() < 0.8:
        a, b, _k = rng.choice(multi)
    elif toks:
        a, b, _k = rng.choice(toks)
    else:
        return t
    if rng.random() < 0.5:
        # keep the text before the token: whatever was open there stays open
        return t[:b] + rng.choice(["", "", "\n", "  ", "\n\n"])
    return rng.choice(_OPENERS) + t[a:b] + rng.choice(["", "", "\n", " "])


def gen_cases(tier, seed):
    for c in F.committed(ID):
        yield c
    rng = random.Random(seed * 131 + 23)
    for name, t in T.corpus_files():
        if len(t) > 40000:
            continue
        yield {"cls": "corpus", "src": t, "name": name}
        if len(t) < 8000:
            yield {"cls": "corpus_multiline", "src": T.sanitize(T.splice_nonascii(rng, T.multiline_strings(rng, t, p=0.8))), "name": name}
    for f in _FAIL:
        for w in _WRAP[:6]:
            yield {"cls": "runtime", "src": '"é\n"\n' + w.replace("{F}", f).replace("{{", "{").replace("}}", "}"), "session": True}
    yield {"_marker": "fixed-part", "space": "committed + whole corpus (plain and with multi-line/non-ASCII strings) + "
                                             "runtime-error templates x wrappers", "templates": len(_FAIL), "wrappers": 6}
    rng2 = random.Random(seed * 977 + 5)
    table = [(w, c) for w, c in CLASSES if c != "runtime"]
    stream = T.texts(rng2, None, classes=table, max_len=5000)
    while True:
        x = rng2.random()
        if x < 0.14:
            yield {"cls": "runtime", "src": T.sanitize(runtime_program(rng2)), "session": True}
        elif x < 0.24:
            # the text stops right after a token (preferably a literal or comment that spans lines): "reached the
            # end of the file" errors point at that last token
            cls, t = next(stream)
            t = T.sanitize(T.multiline_strings(rng2, t, p=0.9))
            # in the form the CLI reads a file, so that `check --json` is compared diagnostic by diagnostic
            yield {"cls": "eof_after_token", "src": F.cli_normalize(eof_after_token(rng2, t))}
        else:
            cls, t = next(stream)
            if rng2.random() < 0.35 and cls.startswith(("corpus", "snippet")):
                t = T.sanitize(T.multiline_strings(rng2, t))
            yield {"cls": cls, "src": t}


# --------------------------------------------------------------------------- walking the dump

POS_FIELDS = ("pos", "open", "close", "op_pos", "path_pos")


def walk(node, out, where="ast"):
    """Collect (where, six numbers) from every node of the dump."""
    if isinstance(node, dict):
        k = node.get("k", where)
        for f in POS_FIELDS:
            v = node.get(f)
            if isinstance(v, list) and len(v) == 6 and all(isinstance(x, int) for x in v):
                out.append((k if f == "pos" else "%s.%s" % (k, f), v))
        for key, v in node.items():
            if key in POS_FIELDS:
                continue
            if isinstance(v, (dict, list)):
                walk(v, out, k)
    elif isinstance(node, list):
        for v in node:
            walk(v, out, where)


def collect(resp):
    out = []
    walk(resp.get("items") or [], out)
    for t in resp.get("tokens") or []:
        out.append(("token", t["pos"]))
    for c in resp.get("comments") or []:
        out.append(("comment", c["pos"]))
    for e in resp.get("parse_errors") or []:
        out.append(("parse_error", e["pos"]))
        for n in e.get("notes") or []:
            out.append(("parse_error.note", n["pos"]))
    for d in resp.get("diagnostics") or []:
        if d.get("path") == PATH:
            out.append(("diagnostic", d["pos"]))
        for n in d.get("notes") or []:
            if n.get("path") == PATH:
                out.append(("diagnostic.note", n["pos"]))
        if d.get("path") == PATH:
            for f in d.get("fixes") or []:
                out.append(("fix", f["pos"]))
    return out


def shape(t, p):
    start, end = p[0], p[1]
    if not (0 <= start <= end <= t.n):
        return "bad"
    seg = t.b[start:end]
    ls = t.starts[t.line_of(start)]
    s = "empty" if start == end else ("multiline" if b"\n" in seg else "oneline")
    if any(c >= 0x80 for c in t.b[ls:start]):
        s += "+nonascii-before"
    if any(c >= 0x80 for c in seg):
        s += "+nonascii-inside"
    return s


def judge_positions(t, plist, prefix=""):
    """-> (keys, problems[(sig, where, pos, problems)])."""
    keys = set()
    bad = []
    for where, p in plist:
        pr = P.pos_problems(t, p)
        keys.add("%s%s|%s" % (prefix, where, shape(t, p)))
        if pr:
            sig = "%s:%s" % (pr[0], prefix + where)
            if pr[0] in ("end-line", "end-column") and 0 <= p[0] <= p[1] <= t.n and b"\n" in t.b[p[0]:p[1]]:
                sig = "%s-of-multiline-span:%s" % (pr[0], prefix + where)
            bad.append((sig, where, p, pr))
    return keys, bad


# --------------------------------------------------------------------------- CLI: check --json

def check_json(sc, t, src, expect=None):
    path = sc.file(src)
    r = core.run_garden(["check", "--json", path], timeout=30, cwd=sc.dir)
    if r.cls not in ("ok", "diag"):
        return None, {"check": r.brief()}
    bad = []
    n = 0
    seen = []
    for line in r.out.split("\n"):
        line = line.strip()
        if not line.startswith("{"):
            continue
        try:
            d = json.loads(line)
        except ValueError:
            continue
        n += 1
        seen.append((d.get("line_number"), d.get("end_line_number"), d.get("column"), d.get("end_column")))
        pr = P.line_col_problems(t, d.get("line_number"), d.get("column"), d.get("end_line_number"), d.get("end_column"))
        if pr:
            bad.append(("check-json:%s" % pr[0], d, pr))
    # The same diagnostics were dumped in-process with their byte offsets and judged by pos_problems; the
    # exported 1-based line / column numbers must be those positions (lines + 1), nothing else.
    if expect is not None and not bad and sorted(seen) != sorted(expect):
        bad.append(("check-json:differs-from-diagnostic-positions",
                    {"cli": sorted(seen)[:6], "positions": sorted(expect)[:6]}, ["differs"]))
    return (n, bad), None


# --------------------------------------------------------------------------- CLI: JSON session

def session_positions(resp, path):
    out = []
    b = session.resp_body(resp)
    v = b.get("value") if isinstance(b, dict) else None
    if isinstance(v, dict):
        for e in v.get("Err") or []:
            p = e.get("position")
            if isinstance(p, dict) and p.get("path") == path:
                out.append(("session.error", p))
    for w in (b.get("warnings") or []) if isinstance(b, dict) else []:
        p = w.get("position")
        if isinstance(p, dict) and p.get("path") == path:
            out.append(("session.warning", p))
    p = resp.get("position")
    if isinstance(p, dict) and p.get("path") == path:
        out.append(("session.response", p))
    return out


def six(p):
    return [p.get("start_offset"), p.get("end_offset"), p.get("line_number"), p.get("end_line_number"), p.get("column"),
            p.get("end_column")]


def run_session(sc, items):
    """items: [(index, src, region or None)] -> {index: (positions[(where, six)], status)}; one process for all."""
    reqs = []
    for j, (i, src, region) in enumerate(items):
        path = "%s/s%d.gdn" % (sc.dir, j)
        d = {"method": "run", "input": src, "path": path, "id": 2 * j}
        if region:
            d["offset"], d["end_offset"] = region
        reqs.append(d)
        reqs.append({"method": "run", "input": ":abort", "id": 2 * j + 1})
    r, resps = core.json_session_file(reqs, timeout=120, scratch=sc, cwd=sc.dir)
    out = {}
    if r.cls not in ("ok", "diag"):
        return out, r
    for resp in resps:
        for j, (i, src, region) in enumerate(items):
            path = "%s/s%d.gdn" % (sc.dir, j)
            ps = session_positions(resp, path)
            if ps:
                out.setdefault(i, []).extend((w + (".region" if region else ""), six(p)) for w, p in ps)
    return out, r


def pick_region(src):
    """A token-aligned region of the text for region evaluation (byte offsets)."""
    toks = [t for t in T.tokens(src) if t[2] not in ("ws", "comment")]
    if len(toks) < 2:
        return None
    a = toks[len(toks) // 3][0]
    b = toks[-1][1]
    return (len(src[:a].encode("utf-8")), len(src[:b].encode("utf-8")))


def _clip(s, n=1500):
    return s if len(s) <= n else s[:n] + "...[%d chars]" % len(s)


def run_batch(cases):
    reqs = [{"op": "frontend", "src": c["src"], "path": PATH, "ast": True, "pos": True, "check": True, "comments": True,
             "tokens": True} for c in cases]
    resps = core.batch(reqs, timeout=300)
    res = [None] * len(cases)
    sess_items = []
    texts = [None] * len(cases)
    with core.Scratch("gm-c23-") as sc:
        for i, (c, resp) in enumerate(zip(cases, resps)):
            src = c["src"]
            if resp is None or "crash" in resp or any(f in resp for f in F.PANIC_FIELDS):
                res[i] = {"status": "inconclusive", "key": None, "detail": {"why": "front end crashed (see C01)"}}
                continue
            t = P.Text(src)
            texts[i] = t
            keys, bad = judge_positions(t, collect(resp))
            perr = bool(resp.get("parse_errors"))
            # exported line numbers can only disagree with the offsets in a way the line/column rules cannot see when
            # a diagnostic spans lines: those texts always go through the CLI, the others on a sample
            multi = any(d["pos"][2] != d["pos"][3] for d in (resp.get("parse_errors") or []) + (resp.get("diagnostics") or [])
                        if isinstance(d.get("pos"), list) and len(d["pos"]) == 6)
            want_cli = bool(bad) or multi or F.sampled(src, CLI_PERCENT, "c23")
            cj_bad = []
            if want_cli and (perr or resp.get("diagnostics")):
                # `garden check` works on the line-normalised text (LF endings, final newline added); only when
                # that is the text the hook saw can the two outputs be compared diagnostic by diagnostic
                norm = F.cli_normalize(src)
                if norm == src:
                    src_d = resp.get("parse_errors") or resp.get("diagnostics") or []
                    expect = [(d["pos"][2] + 1, d["pos"][3] + 1, d["pos"][4], d["pos"][5]) for d in src_d]
                    got, err = check_json(sc, t, src, expect)
                else:
                    got, err = check_json(sc, P.Text(norm), src, None)
                if got is not None:
                    n, cj_bad = got
                    if n:
                        keys.add("check-json|%s" % ("perr" if perr else "diag"))
            # the session evaluates code: only texts that cannot run (parse errors) or my own templates
            if c.get("session") or (perr and F.sampled(src, SESSION_PERCENT, "c23s")):
                region = pick_region(src) if (not perr and F.sampled(src, 30, "reg")) else None
                sess_items.append((i, src, region))
            if bad or cj_bad:
                sig = bad[0][0] if bad else cj_bad[0][0]
                detail = {"src": _clip(src), "problems": [{"where": w, "pos": p, "problems": pr,
                                                           "text": _clip(t.slice(max(0, p[0]), max(0, min(p[1], p[0] + 80))), 100)}
                                                          for _s, w, p, pr in bad[:5]],
                          "check_json": [(s, d) for s, d, _pr in cj_bad[:3]], "sigs": sorted(set(b[0] for b in bad))[:10]}
                res[i] = {"status": "violated", "key": sorted(keys)[0] if keys else None, "sig": sig, "detail": detail, "_keys": keys}
            else:
                res[i] = {"status": "held", "key": None, "_keys": keys}
        if sess_items:
            got, r = run_session(sc, sess_items)
            for i, src, region in sess_items:
                if res[i] is None or res[i]["status"] != "held":
                    continue
                ps = got.get(i)
                if not ps:
                    continue
                keys, bad = judge_positions(texts[i], ps)
                res[i]["_keys"] |= keys
                if bad:
                    res[i] = {"status": "violated", "key": None, "sig": bad[0][0], "_keys": res[i]["_keys"],
                              "detail": {"src": _clip(src), "region": region,
                                         "problems": [{"where": w, "pos": p, "problems": pr} for _s, w, p, pr in bad[:5]]}}
    # one result per case carries one key; spread the set of keys seen over the batch so that all are counted
    pool = set()
    for r in res:
        pool |= r.pop("_keys", set()) if r else set()
    pool = sorted(pool)
    for r in res:
        if r["status"] != "inconclusive" and r.get("key") is None and pool:
            r["key"] = pool.pop()
    # any keys left over: attach as a combined key to the last non-inconclusive result
    return res
