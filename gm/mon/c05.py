"""C05 Core-language programs behave as the reference semantics says.

Differential execution: a random typed program of the core fragment (gm/gen/prog.py) is printed to a
file, run with `garden run`, and its stdout and outcome (success / first line of the exception) are
compared with what the independent reference interpreter gm/ref/interp.py computes from the tree.
"""
import random

from .. import core
from ..gen import prog as G
from ..gen import printer
from ..ref import interp

ID = "C05"
LEVEL = "exploration"
RULE = ("cases = seeded random core-fragment programs (5-60 statements; let/assign/+=, if/else, while, for with "
        "destructuring, break/continue/return in nested blocks, named and recursive functions, closures, match over "
        "Option/Result/user enums, structs); distinct key = multiset signature of (statement/expression kinds used, "
        "outcome class, number of output lines bucket)")
ASSUME = ["gm/ref/interp.py implements the documented semantics (DESIGN Appendix C); the printer gm/gen/printer.py "
          "prints the tree it is given (every nested operand parenthesised, one statement per line)",
          "sibling evaluation order and capture-then-assign are excluded by construction (undocumented)"]
BATCH = 6
FLOOR = {"quick": 300, "thorough": 3000}
BUDGET = {"quick": 40, "thorough": 780}

PROFILES = [
    {},
    {"n_main": 14, "n_funs": 4},
    {"n_main": 5, "n_funs": 2, "max_depth": 4},
    {"errors": 0.1},
    {"shadow": 0.9, "n_main": 10},
    {"closures": True, "n_funs": 5, "n_main": 6},
]


def gen_cases(tier, seed):
    i = 0
    while True:
        yield {"seed": seed * 1000003 + i, "profile": i % len(PROFILES)}
        i += 1


def kinds(pr):
    ks = set()

    def f(n):
        k = n.get("k")
        if k in ("while", "for", "break", "continue", "return", "match", "lambda", "callv", "letd", "upd",
                 "assign", "throw", "field", "structlit", "variant"):
            ks.add(k)
        if k == "if" and n.get("els") is None:
            ks.add("if-noelse")
        if k == "call" and not n.get("builtin"):
            ks.add("call")
    G.walk(pr, f)
    return ks


def build(case):
    pr = G.generate(case["seed"], G.Opts(**PROFILES[case["profile"]]))
    src, _ = printer.print_program(pr)
    return pr, src


def first_exc_line(err):
    for line in err.split("\n"):
        if line.startswith("Exception:") or line.startswith("Error:"):
            return line
    return None


def run_batch(cases):
    out = []
    with core.Scratch("gm-c05-") as sc:
        for case in cases:
            pr, src = build(case)
            try:
                exp = interp.run(pr)
            except interp.Budget:
                out.append({"status": "held", "key": None})
                continue
            path = sc.file(src)
            r = core.run_garden(["run", path], timeout=30, cwd=sc.dir)
            out.append(judge(case, pr, src, exp, r))
    return out


def judge(case, pr, src, exp, r):
    cls = r.cls
    key = "%s|%s|lines%d" % (",".join(sorted(kinds(pr))), exp["outcome"][0], min(len(exp["stdout"].split("\n")) // 5, 6))
    detail = {"src": src, "expected": {"stdout": exp["stdout"][-800:], "outcome": exp["outcome"]},
              "observed": r.brief()}
    if cls in core.CRASH or cls.startswith("signal"):
        return {"status": "violated", "key": key, "sig": "crash:" + core.crash_sig(r), "detail": detail}
    if cls == "timeout":
        return {"status": "inconclusive", "key": None, "detail": detail}
    if "Parse error" in r.err or cls == "diag":
        return {"status": "violated", "key": key, "sig": "generated-program-rejected", "detail": detail}
    if r.out != exp["stdout"]:
        return {"status": "violated", "key": key, "sig": "stdout-differs", "detail": detail}
    line = first_exc_line(r.err)
    if exp["outcome"][0] == "ok":
        if line is not None or r.err.strip():
            return {"status": "violated", "key": key, "sig": "unexpected-error", "detail": detail}
    else:
        if line is None:
            return {"status": "violated", "key": key, "sig": "missing-error", "detail": detail}
        msg = exp["outcome"][1]
        if msg is not None and line != "Exception: " + msg.split("\n")[0]:
            return {"status": "violated", "key": key, "sig": "wrong-error", "detail": detail}
    return {"status": "held", "key": key}
