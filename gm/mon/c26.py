"""C26 Test verdicts are independent and the exit status is honest.

A case is one generated test file (gm/gen/dtests.py) whose tests have verdicts known by construction.
mode "test" (`garden test`):
  * full run: set of `Failed:` names == tests whose kind fails; exit status != 0 iff that set is non-empty;
    the `Ran N tests: P passed and F failed` line equals the per-test verdicts;
  * every test alone (`-n <name>`, names are mutually substring-free) has the same verdict;
  * random permutations of the file give the same verdict for every test;
  * a substring filter (`-n <fragment>`) selects exactly the tests whose name contains the fragment, and exit
    status / summary are those of the selected tests only;
  * sometimes the tests are split over two files given on one command line;
  * sometimes a second test with the NAME of an existing one and the opposite verdict is added to another file
    (both orders on the command line, `-n name`, the second file alone) or to the same file: every definition
    runs its own body, counts and exit status are those of all definitions.
mode "sbx" (`garden sandboxed-test FILE OFFSET`, JSON on stdout):
  * offset outside any test: every test is listed, its description has the class its kind predicts
    (passed / assertion message / exception message / exceeded resource limit / sandboxed) and the summary
    string counts exactly those classes;
  * offset inside test i (first byte, last byte or a random byte of the definition): only test i is listed and its description is the one
    it got when all tests ran; the top-level description names its class;
  * permutations as above.
"""
import json
import random
import re

from .. import core
from ..gen import dtests

ID = "C26"
LEVEL = "exploration"
TECHNIQUE = "runtime-monitoring"
RULE = ("case = one generated file of 1..12 tests of known kinds (pass, assertion failure in body / in callee, "
        "exception at depth 0/3/50/in nested blocks, unbound-variable probes for leaked locals, recursion to depth "
        "1500-4000, loops of 10^2..2.5x10^4 iterations, sandbox-forbidden call, and for the sandbox infinite loop / "
        "recursion) run whole, alone per test (-n / cursor offset), permuted, filtered by substring, and split over "
        "two files; distinct key = (mode, profile, sorted multiset of kinds bucketed, which sub-checks ran)")
ASSUME = ["tests in generated files share no mutable state (Garden has no top-level mutable variables reachable "
          "from tests; the generator uses only local variables and pure helpers)",
          "sandbox limits are the documented fixed ones (100 000 ticks, stack 1 000); generated kinds keep a 2x "
          "margin from both limits"]
BATCH = 1
FLOOR = {"quick": 8, "thorough": 60}
BUDGET = {"quick": 25, "thorough": 700}

FAILED_RE = re.compile(r"^Failed: (\S+)", re.M)
FAILED_AT_RE = re.compile(r"^Failed: (\S+) (\S+?):\d+", re.M)
RAN_RE = re.compile(r"^Ran (\d+) tests?: (.*)$", re.M)


def corpus_cases():
    """Committed regression inputs (every defect found so far), /verif/corpus/<ID>/*.json."""
    import glob
    import os
    out = []
    for p in sorted(glob.glob(os.path.join(core.VERIF, "corpus", ID, "*.json"))):
        with open(p) as f:
            out.append(json.load(f))
    return out


def gen_cases(tier, seed):
    rng = random.Random(seed * 10007 + 26)
    for c in corpus_cases():
        yield c
    # fixed regression shapes first
    for mode in ("test", "sbx"):
        for profile in ("one_fail", "all_pass", "all_fail", "midloops"):
            yield dict(dtests.gen_spec(rng, mode, profile), perms=2, alone=4, filters=2, cseed=rng.getrandbits(32))
    for where in ("other_file", "same_file", "other_file"):
        sp = dtests.gen_spec(rng, "test", "samename")
        sp["twin"] = dtests.gen_twin(rng, sp["tests"], where)
        yield dict(sp, perms=1, alone=2, filters=1, cseed=rng.getrandbits(32))
    yield {"_marker": "profiles", "space": "one file per (mode, profile)"}
    while True:
        mode = "test" if rng.random() < 0.6 else "sbx"
        q = tier == "quick"
        yield dict(dtests.gen_spec(rng, mode), perms=2 if q else 5, alone=4 if q else 0, filters=2 if q else 3,
                   cseed=rng.getrandbits(32))


# ----------------------------------------------------------------------------- garden test

def parse_test_output(r):
    """-> (failed names list, (n, passed, failed) | None | "none")"""
    failed = FAILED_RE.findall(r.out)
    m = RAN_RE.search(r.out)
    summ = None
    if m:
        n = int(m.group(1))
        rest = m.group(2)
        if rest == "it passed." and n == 1:
            summ = (1, 1, 0)
        elif rest == "they all passed.":
            summ = (n, n, 0)
        else:
            mm = re.match(r"(\d+) passed and (\d+) failed\.$", rest)
            if mm:
                summ = (n, int(mm.group(1)), int(mm.group(2)))
    elif "No tests found." in r.out:
        summ = "none"
    return failed, summ


class Bad(Exception):
    def __init__(self, sig, what, **detail):
        Exception.__init__(self, sig)
        self.sig = sig
        self.detail = dict(detail, what=what)


class Inconclusive(Exception):
    pass


def run(args, cwd, timeout=60):
    r = core.run_garden(args, cwd=cwd, timeout=timeout)
    if r.timed_out:
        r2 = core.run_garden(args, cwd=cwd, timeout=timeout * 5)
        if r2.timed_out:
            raise Inconclusive("watchdog: garden %s" % " ".join(args))
        r = r2
    if r.cls in core.CRASH or r.cls.startswith("signal"):
        raise Bad("crash:" + core.crash_sig(r), "garden %s crashed" % args[0], run=r.brief(), args=args)
    return r


def judge_test_run(r, selected, where):
    """selected: list of test dicts that must have run. Checks verdict set, summary, exit status."""
    exp_failed = sorted(t["name"] for t in selected if dtests.verdict_test(t["kind"]) == "fail")
    failed, summ = parse_test_output(r)
    ctx = {"where": where, "run": r.brief(), "expected_failed": exp_failed,
           "kinds": {t["name"]: t["kind"] for t in selected}}
    if sorted(failed) != exp_failed:
        import collections
        cf, ce = collections.Counter(failed), collections.Counter(exp_failed)
        wrong = sorted(set((cf - ce) + (ce - cf)))
        kinds = sorted({t["kind"] for t in selected if t["name"] in wrong})
        if any(sum(1 for t in selected if t["name"] == w) > 1 for w in wrong):
            kinds = ["same-name-definitions"]
        raise Bad("wrong-verdict:%s:%s" % (where, ",".join(kinds) or "unknown-name"),
                  "set of failed tests differs from the verdicts known by construction", **ctx)
    # same-named tests: the `Failed: name file:line` line of a failure inside the test body names the file of
    # the definition that failed
    pairs = FAILED_AT_RE.findall(r.out)
    for t in selected:
        if t.get("_file") and t["kind"] in dtests.BODY_FAIL:
            if (t["name"], t["_file"]) not in pairs:
                raise Bad("wrong-definition-ran:" + where,
                          "the failing definition of a test name is not the one reported as failed", test=t, **ctx)
            pairs.remove((t["name"], t["_file"]))
    n = len(selected)
    if n == 0:
        if summ != "none" and summ != (0, 0, 0):
            raise Bad("summary-mismatch:" + where, "no test selected but a summary was printed", **ctx)
    else:
        if summ in (None, "none"):
            raise Bad("summary-missing:" + where, "no `Ran N tests` line", **ctx)
        if summ != (n, n - len(exp_failed), len(exp_failed)):
            raise Bad("summary-mismatch:" + where, "summary counts differ from the per-test verdicts",
                      summary=summ, **ctx)
    want_rc = 1 if exp_failed else 0
    if (r.rc != 0) != (want_rc != 0):
        raise Bad("exit-status-dishonest:%s:%s" % (where, "fail-but-0" if want_rc else "pass-but-nonzero"),
                  "exit status does not say whether a selected test failed", **ctx)


def check_test_mode(spec, sc, rng):
    ts = spec["tests"]
    sub = set()
    src, _ = dtests.render(spec)
    sc.file(src, name="all.gdn")
    r = run(["test", "all.gdn"], sc.dir)
    judge_test_run(r, ts, "full")
    sub.add("full")
    # alone
    for t in pick(spec, ts, rng):
        r = run(["test", "-n", t["name"], "all.gdn"] if rng.random() < 0.5 else ["test", "all.gdn", "-n", t["name"]],
                sc.dir)
        judge_test_run(r, [t], "alone")
    sub.add("alone")
    # permutations
    if len(ts) > 1:
        for k in range(spec.get("perms", 2)):
            order = list(range(len(ts)))
            rng.shuffle(order)
            if k == 0:
                order = order[::-1] if order == list(range(len(ts))) else order
            psrc, _ = dtests.render(spec, order)
            sc.file(psrc, name="perm%d.gdn" % k)
            r = run(["test", "perm%d.gdn" % k], sc.dir)
            judge_test_run(r, ts, "permuted")
        sub.add("perm")
    # substring filters
    frags = ["tga_", "tgb_", "_", "zzzz"]
    t = rng.choice(ts)
    i = rng.randint(1, len(t["name"]) - 3)
    frags.append(t["name"][i:i + rng.randint(2, 4)])
    frags.append(t["name"][-3:])
    for frag in rng.sample(frags, spec.get("filters", 3)):
        sel = [t for t in ts if frag in t["name"]]
        r = run(["test", "-n", frag, "all.gdn"], sc.dir)
        judge_test_run(r, sel, "filter")
    sub.add("filter")
    # two files on one command line
    if len(ts) >= 2 and rng.random() < 0.4:
        cut = rng.randint(1, len(ts) - 1)
        a, _ = dtests.render(spec, tests=ts[:cut])
        b, _ = dtests.render(spec, tests=ts[cut:])
        sc.file(a, name="part_a.gdn")
        sc.file(b, name="part_b.gdn")
        r = run(["test", "part_a.gdn", "part_b.gdn"], sc.dir)
        judge_test_run(r, ts, "two-files")
        t = rng.choice(ts)
        r = run(["test", "-n", t["name"], "part_b.gdn", "part_a.gdn"], sc.dir)
        judge_test_run(r, [t], "two-files-alone")
        sub.add("2files")
    if spec.get("twin"):
        check_twin(spec, sc, rng)
        sub.add("samename-" + spec["twin"]["where"])
    return sub


def check_twin(spec, sc, rng):
    """Two selected tests with the same name and different verdicts: each definition runs its own body."""
    ts = spec["tests"]
    tw = spec["twin"]
    orig = ts[tw["of"]]
    twin = {"name": orig["name"], "kind": tw["kind"], "p": tw["p"]}
    if tw["where"] == "other_file":
        rest = [t for i, t in enumerate(ts) if i != tw["of"]]
        cut = int(tw["cut"] * (len(rest) + 1))
        fa = [dict(t, _file="twin_a.gdn") for t in rest[:cut] + [orig]]
        fb = [dict(t, _file="twin_b.gdn") for t in ([twin] + rest[cut:] if tw["first"] else rest[cut:] + [twin])]
        a, _ = dtests.render(spec, tests=fa)
        b, _ = dtests.render(spec, tests=fb)
        sc.file(a, name="twin_a.gdn")
        sc.file(b, name="twin_b.gdn")
        judge_test_run(run(["test", "twin_a.gdn", "twin_b.gdn"], sc.dir), fa + fb, "samename-two-files")
        judge_test_run(run(["test", "twin_b.gdn", "twin_a.gdn"], sc.dir), fa + fb, "samename-two-files")
        order = ["twin_a.gdn", "twin_b.gdn"]
        rng.shuffle(order)
        judge_test_run(run(["test", "-n", orig["name"]] + order, sc.dir), [fa[-1], fb[0 if tw["first"] else -1]],
                       "samename-two-files-filter")
        judge_test_run(run(["test", "twin_b.gdn"], sc.dir), fb, "samename-one-of-two-files")
    else:
        both = list(ts)
        both.insert(tw["of"] if tw["first"] else tw["of"] + 1 if tw["cut"] < 0.5 else len(both), twin)
        both = [dict(t, _file="twin_same.gdn") for t in both]
        src, _ = dtests.render(spec, tests=both)
        sc.file(src, name="twin_same.gdn")
        judge_test_run(run(["test", "twin_same.gdn"], sc.dir), both, "samename-one-file")
        judge_test_run(run(["test", "-n", orig["name"], "twin_same.gdn"], sc.dir),
                       [t for t in both if t["name"] == orig["name"]], "samename-one-file-filter")


# ----------------------------------------------------------------------------- sandboxed-test

FIXED = {"passed": "pass", "exceeded resource limit": "limit", "sandboxed": "sandboxed", "interrupted": "interrupted"}
ALONE_DESC = {"pass": "passing", "failed": "failing", "errored": "erroring", "limit": "exceeded resource limit",
              "sandboxed": "sandboxed"}


def sbx(args, cwd):
    r = run(["sandboxed-test"] + args, cwd)
    try:
        j = json.loads(r.out.strip().split("\n")[-1])
        assert isinstance(j.get("tests"), dict) and isinstance(j.get("description"), str)
    except Exception:
        raise Bad("sbx-output-not-json", "sandboxed-test did not print its JSON summary", run=r.brief(), args=args)
    return j, r


def desc_class(d):
    return FIXED.get(d, "message")


def class_ok(kind_class, desc):
    c = desc_class(desc)
    if kind_class in ("failed", "errored"):
        return c == "message"
    return c == kind_class


def summary_string(classes):
    parts = []
    for cls, word in (("pass", "passed"), ("failed", "failed"), ("errored", "errored"),
                      ("limit", "exceeded resource limit"), ("sandboxed", "sandboxed")):
        n = sum(1 for c in classes if c == cls)
        if n:
            parts.append("%d %s" % (n, word))
    return ", ".join(parts) if parts else "No tests"


def judge_sbx_all(j, r, ts, where):
    ctx = {"where": where, "run": r.brief(), "kinds": {t["name"]: t["kind"] for t in ts}}
    got = j["tests"]
    if sorted(got) != sorted(t["name"] for t in ts):
        raise Bad("sbx-test-set:" + where, "the tests listed are not the tests of the file", **ctx)
    for t in ts:
        want = dtests.verdict_sbx(t["kind"])
        d = got[t["name"]]["description"]
        if not class_ok(want, d):
            raise Bad("sbx-wrong-verdict:%s:%s:%s->%s" % (where, t["kind"], want, desc_class(d)),
                      "verdict of a test differs from the verdict known by construction",
                      test=t, got=d, **ctx)
    exp = summary_string([dtests.verdict_sbx(t["kind"]) for t in ts])
    if j["description"] != exp:
        raise Bad("sbx-summary-mismatch:" + where, "summary string differs from the per-test verdicts",
                  expected_summary=exp, got_summary=j["description"], **ctx)
    return {t["name"]: got[t["name"]]["description"] for t in ts}


def check_sbx_mode(spec, sc, rng):
    ts = spec["tests"]
    sub = set()
    src, ranges = dtests.render(spec)
    sc.file(src, name="all.gdn")
    end_off = len(src.encode("utf-8")) - 5
    j, r = sbx(["all.gdn", str(rng.choice((0, 3, end_off)))], sc.dir)
    together = judge_sbx_all(j, r, ts, "all")
    sub.add("all")
    for t in pick(spec, ts, rng):
        lo, hi = ranges[t["name"]]
        off = rng.choice((lo, hi - 1, lo, hi - 1, rng.randint(lo, hi - 1)))
        j, r = sbx(["all.gdn", str(off)], sc.dir)
        ctx = {"where": "cursor", "offset": off, "test": t, "run": r.brief()}
        if list(j["tests"]) != [t["name"]]:
            raise Bad("sbx-cursor-selects-wrong-tests", "cursor inside a test did not run exactly that test", **ctx)
        d = j["tests"][t["name"]]["description"]
        want = dtests.verdict_sbx(t["kind"])
        if not class_ok(want, d):
            raise Bad("sbx-wrong-verdict:cursor:%s:%s->%s" % (t["kind"], want, desc_class(d)),
                      "verdict of a test run alone differs from the verdict known by construction", got=d, **ctx)
        if d != together[t["name"]]:
            raise Bad("sbx-verdict-depends-on-other-tests:%s" % t["kind"],
                      "description alone differs from the description when all tests ran",
                      alone=d, together=together[t["name"]], **ctx)
        if j["description"] != ALONE_DESC[want]:
            raise Bad("sbx-summary-mismatch:cursor", "top-level description does not name the verdict",
                      got_summary=j["description"], expected_summary=ALONE_DESC[want], **ctx)
    sub.add("cursor")
    if len(ts) > 1:
        for k in range(spec.get("perms", 2)):
            order = list(range(len(ts)))
            rng.shuffle(order)
            psrc, _ = dtests.render(spec, order)
            sc.file(psrc, name="perm%d.gdn" % k)
            j, r = sbx(["perm%d.gdn" % k, "0"], sc.dir)
            got = judge_sbx_all(j, r, ts, "permuted")
            if got != together:
                raise Bad("sbx-verdict-depends-on-order", "descriptions change when the file is permuted",
                          first=together, permuted=got, order=order)
        sub.add("perm")
    return sub


# ----------------------------------------------------------------------------- driver glue

def pick(spec, ts, rng):
    k = spec.get("alone")
    if not k or len(ts) <= k:
        return ts
    return rng.sample(ts, k)


def bucket_kinds(ts):
    ks = sorted({t["kind"] for t in ts})
    return ",".join(ks)


def run_case(spec):
    rng = random.Random(spec.get("cseed", 0))
    with core.Scratch("gm-c26-") as sc:
        try:
            if spec["mode"] == "test":
                sub = check_test_mode(spec, sc, rng)
            else:
                sub = check_sbx_mode(spec, sc, rng)
        except Bad as b:
            src, _ = dtests.render(spec)
            return {"status": "violated", "key": None, "sig": b.sig, "detail": dict(b.detail, source=src[-2500:])}
        except Inconclusive as e:
            return {"status": "inconclusive", "key": None, "detail": {"what": str(e)}}
    n = len(spec["tests"])
    key = "%s %s n=%s [%s] %s" % (spec["mode"], spec.get("profile"), n if n < 4 else "4+",
                                  bucket_kinds(spec["tests"]), "+".join(sorted(sub)))
    return {"status": "held", "key": key}


def run_batch(cases):
    return [run_case(c) for c in cases]
