"""C15 Inferred types of lists and branches cover every element.

Two kinds of cases.

"row": one row a of the real `unify` matrix (`types` op of `garden verif-batch`, unify=true) over a
subterm-closed universe U of well-formed, error-free types. For every b in U with unify(a, b) = c:
    c is a well-formed, error-free type;
    a <: c and b <: c by the reference relation (gm/ref/dtypes.py) and by the real `is_subtype`
      (results outside U are appended to the universe in a second request);
    unify(a, a) = a exactly (JSON equality, including the enum/struct kind).
`unify` answering "no combined type" is not judged: the property only speaks about the type it returns.

"src": one generated function whose body combines expressions of known static types (parameters with
hints, `[]`, `None`, `Some(e)`, `Ok(e)`, `Err(e)`, tuples, literals, `throw`) in a list literal, dict
literal, if / else-if / else, match arms or try / catch, bound to `let r`. Many functions go into one
document that is opened in `garden reftest-lsp`; the published diagnostics say whether the checker
rejected the combination, the hover on `r` is the combined type. If the checker reports no error inside
the function: every combined type must be a subtype (reference relation) of the reported type, and if all
combined types are equal the reported type is that type. One function per document is also run through
`garden check --json` and `garden reftest-hover` (caret comment) and must give the same answers.
"""
import functools
import json
import random
import re

from .. import core
from ..ref import dtypes as T
from .c14 import bucket, close, explicit_case

ID = "C15"
LEVEL = "exploration"
TECHNIQUE = "runtime-monitoring"
RULE = ("row cases: one row of the real unify matrix over (a) all 761 types of depth <= 1 in 15 block-pair "
        "universes covering every ordered pair, (b) seeded 192-type universes of families of perturbed nominal "
        "skeletons of depth <= 2 (quick) / <= 3 (thorough); key = (constructor of a with its components' "
        "constructors, depth, how many b gave: no join / a / b / a third type, bucketed). src cases: one generated "
        "function combining 2-4 expressions of known type in a list / dict / if / else-if / match / try; key = "
        "(form, accepted or rejected, constructors of the combined types, relation of the result to them)")
ASSUME = ["gm/ref/dtypes.py is a faithful reading of the documentation",
          "a parameter with a type hint has exactly that static type; `[]` : List<NoValue>, `None` : "
          "Option<NoValue>, `Ok(e)` : Result<t, NoValue> (prelude doc comments and hover reftests)"]
N_ROW = 192
N_SRC = 64
BATCH = N_ROW + N_SRC
FLOOR = {"quick": 150, "thorough": 400}
BUDGET = {"quick": 25, "thorough": 700}
BLOCK = 128
SNIPPETS_PER_DOC = 16


def d1_blocks():
    u = T.depth1_universe()
    return [u[i:i + BLOCK] for i in range(0, len(u), BLOCK)]


def gen_cases(tier, seed):
    nb = len(d1_blocks())
    pairs = 0
    for i in range(nb):
        for j in range(i + 1, nb):
            spec = {"k": "d1pair", "i": i, "j": j}
            n = len(universe(json.dumps(spec, sort_keys=True)))
            for r in range(n):
                yield {"t": "row", "u": spec, "row": r}
            pairs += 1
    yield {"_marker": "depth<=1", "types": len(T.depth1_universe()), "universes": pairs,
           "space": "every ordered pair of types of depth <= 1 over the signature"}
    d = 2 if tier == "quick" else 3
    rng = random.Random(seed * 9176 + 15)
    k = 0
    while True:
        spec = {"k": "nomfam", "seed": seed * 1000003 + k, "n": N_ROW, "d": d if k % 2 else 2}
        for r in range(N_ROW):
            yield {"t": "row", "u": spec, "row": r}
        for _ in range(N_SRC):
            yield gen_snippet(rng, d)
        k += 1


@functools.lru_cache(maxsize=8)
def universe(spec_key):
    spec = json.loads(spec_key)
    if spec["k"] == "d1pair":
        b = d1_blocks()
        return tuple(close(b[spec["i"]] + b[spec["j"]]))
    if spec["k"] == "nomfam":
        return tuple(T.nominal_family_universe(random.Random(spec["seed"]), spec["n"], spec["d"]))
    if spec["k"] == "explicit":
        return tuple(T.from_json(j) for j in spec["types"])
    raise core.HarnessError("unknown universe spec %r" % (spec,))


# ----------------------------------------------------------------------------- row cases

def run_rows(cases, idxs_by_spec, res):
    keys = list(idxs_by_spec)
    unis = [universe(k) for k in keys]
    resps = core.batch([{"op": "types", "types": [T.to_json(t) for t in u], "unify": True} for u in unis],
                       timeout=300)
    second = []          # (group position, extras list)
    for g, (k, u, resp) in enumerate(zip(keys, unis, resps)):
        if not resp or "unify" not in resp:
            continue
        index = {t: j for j, t in enumerate(u)}
        extras, seen = [], set()
        for i in idxs_by_spec[k]:
            r = cases[i]["row"]
            if r >= len(u):
                continue
            for c in resp["unify"][r]:
                if c is None:
                    continue
                ct = T.from_json(c)
                if ct is not None and ct not in index and ct not in seen:
                    seen.add(ct)
                    extras.append(ct)
        if extras:
            second.append((g, extras))
    resps2 = core.batch([{"op": "types", "types": [T.to_json(t) for t in list(unis[g]) + ex], "unify": False}
                         for g, ex in second], timeout=300) if second else []
    ext = {g: (ex, r2) for (g, ex), r2 in zip(second, resps2)}
    for g, (k, u, resp) in enumerate(zip(keys, unis, resps)):
        idxs = idxs_by_spec[k]
        if not resp or "crash" in resp or "unify" not in resp:
            for i in idxs:
                if resp and resp.get("crash") in core.CRASH:
                    res[i] = {"status": "violated", "key": None,
                              "sig": "crash:" + core.panic_sig(resp.get("stderr", "")),
                              "detail": {"what": "evaluating unify crashed", "resp": resp}}
                else:
                    res[i] = {"status": "inconclusive", "key": None, "detail": {"resp": resp}}
            continue
        disp = resp.get("display", [])
        if any(disp[j] != T.show(u[j]) for j in range(min(len(disp), len(u)))):
            for i in idxs:
                res[i] = {"status": "inconclusive", "key": None,
                          "detail": {"what": "hook decoded a type differently from the model"}}
            continue
        index = {t: j for j, t in enumerate(u)}
        rows = resp["subtype"]
        if g in ext:
            ex, r2 = ext[g]
            if not r2 or "subtype" not in r2:
                for i in idxs:
                    res[i] = {"status": "inconclusive", "key": None, "detail": {"what": "second request failed"}}
                continue
            for j, t in enumerate(ex):
                index[t] = len(u) + j
            rows = r2["subtype"]
        for i in idxs:
            res[i] = check_row(cases[i], u, resp["unify"], rows, index)


def check_row(case, u, uni, rows, index):
    i = case["row"]
    if i >= len(u):
        return {"status": "inconclusive", "key": None, "detail": {"what": "row out of range"}}
    a = u[i]
    ja = T.to_json(a)
    cnt = {"none": 0, "a": 0, "b": 0, "new": 0}

    def viol(sig, what, types, **extra):
        d = {"what": what, "types": [T.show(t) for t in types]}
        d.update(extra)
        return {"status": "violated", "key": None, "sig": sig, "detail": d,
                "case": dict(explicit_case(close([t for t in types if t is not None])), t="row")}

    for j, b in enumerate(u):
        c = uni[i][j]
        if i == j:
            if c != ja:
                return viol("unify-not-idempotent:%s" % T.head(a), "unify(a, a) is not a", [a], got=c)
        if c is None:
            cnt["none"] += 1
            continue
        ct = T.from_json(c)
        if ct is None:
            return viol("unify-returns-error-type:%s,%s" % (T.head(a), T.head(b)),
                        "unify returned an error type for error-free input", [a, b], got=c)
        if not T.well_formed(ct):
            return viol("unify-result-ill-formed:%s,%s" % (T.head(a), T.head(b)),
                        "unify returned a type that is not well-formed", [a, b], got=T.show(ct))
        for side, x in (("left", a), ("right", b)):
            if not T.subtype(x, ct):
                return viol("join-not-upper-bound:ref:%s:%s,%s" % (side, T.head(a), T.head(b)),
                            "an argument of unify is not a subtype (reference) of the result", [a, b, ct],
                            result=T.show(ct), argument=T.show(x))
            ix, ic = index.get(x), index.get(ct)
            if ix is None or ic is None or rows[ix][ic] != "1":
                return viol("join-not-upper-bound:real:%s:%s,%s" % (side, T.head(a), T.head(b)),
                            "an argument of unify is not a subtype (real is_subtype) of the result", [a, b, ct],
                            result=T.show(ct), argument=T.show(x))
        cnt["a" if ct == a else "b" if ct == b else "new"] += 1
    key = "row %s(%s) d%d %s" % (T.head(a), ",".join(T.head(c) for c in T.children(a)), T.depth(a),
                                 " ".join("%s=%s" % (k, bucket(v)) for k, v in sorted(cnt.items())))
    return {"status": "held", "key": key}


# ----------------------------------------------------------------------------- source-level cases

HINT_ATOMS = [T.NOVALUE, T.UNIT, T.BOOL, T.INT, T.STRING, ("tp", "T"), ("tp", "U")]
FORMS = ("list", "list", "dict", "if", "elif", "match", "try", "list_of_if")


def hintable(rng, d):
    for _ in range(50):
        t = T.rand_type(rng, d, HINT_ATOMS) if rng.random() < 0.5 else T.rand_nominal(rng, d, HINT_ATOMS)
        if not T.has_any(t):
            return t
    return T.INT


def variant(rng, t):
    for _ in range(20):
        v = T.perturb(rng, t, 0.4)
        if not T.has_any(v):
            return v
    return t


def gen_snippet(rng, d):
    """-> case {"t": "src", "form", "params": [type json | None], "branches": [expr tree]}
    expr tree: ["p", k] | ["lit", src, type json] | ["some"|"ok"|"err"|"list1", e] | ["tuple", e1, e2]"""
    form = rng.choice(FORMS)
    nb = {"if": 2, "try": 2, "match": 2, "elif": 3, "list_of_if": 3}.get(form) or rng.randint(1, 4)
    base = hintable(rng, min(d, 2))
    params = []
    branches = []
    mode = rng.random()
    for _ in range(nb):
        if mode < 0.25:
            t = base                                   # all equal
        elif mode < 0.8:
            t = variant(rng, base) if rng.random() < 0.8 else base
        else:
            t = hintable(rng, min(d, 2))
        k = rng.random()
        if k < 0.12:
            params.append(None)                        # parameter without a hint: Any
            e = ["p", len(params) - 1]
        else:
            params.append(T.to_json(t))
            e = ["p", len(params) - 1]
        w = rng.random()
        if mode >= 0.25 and w < 0.3:
            wrap = rng.choice(("some", "ok", "err", "list1", "tuple"))
            if wrap == "tuple":
                e = ["tuple", e, ["lit", "1", T.to_json(T.INT)]]
            else:
                e = [wrap, e]
        elif mode >= 0.25 and w < 0.42:
            e = rng.choice((["lit", "[]", T.to_json(T.ud("List", T.NOVALUE))],
                            ["lit", "None", T.to_json(T.ud("Option", T.NOVALUE))],
                            ["lit", "throw(\"x\")", T.to_json(T.NOVALUE)],
                            ["lit", "1", T.to_json(T.INT)], ["lit", "\"s\"", T.to_json(T.STRING)],
                            ["lit", "True", T.to_json(T.BOOL)]))
        branches.append(e)
    return {"t": "src", "form": form, "params": params, "branches": branches}


def expr_src(e):
    k = e[0]
    if k == "p":
        return "p%d" % e[1]
    if k == "lit":
        return e[1]
    if k == "some":
        return "Some(%s)" % expr_src(e[1])
    if k == "ok":
        return "Ok(%s)" % expr_src(e[1])
    if k == "err":
        return "Err(%s)" % expr_src(e[1])
    if k == "list1":
        return "[%s]" % expr_src(e[1])
    if k == "tuple":
        return "(%s, %s)" % (expr_src(e[1]), expr_src(e[2]))
    raise ValueError(e)


def expr_type(e, params):
    k = e[0]
    if k == "p":
        j = params[e[1]]
        return T.ANY if j is None else T.from_json(j)
    if k == "lit":
        return T.from_json(e[2])
    if k == "some":
        return T.ud("Option", expr_type(e[1], params))
    if k == "ok":
        return T.ud("Result", expr_type(e[1], params), T.NOVALUE)
    if k == "err":
        return T.ud("Result", T.NOVALUE, expr_type(e[1], params))
    if k == "list1":
        return T.ud("List", expr_type(e[1], params))
    if k == "tuple":
        return T.tup(expr_type(e[1], params), expr_type(e[2], params))
    raise ValueError(e)


def snippet_src(case, name):
    """-> (lines, index of the `let r` line within lines)"""
    ps = ["c: Bool", "o: Option<Int>"]
    for k, j in enumerate(case["params"]):
        ps.append("p%d" % k if j is None else "p%d: %s" % (k, T.hint(T.from_json(j))))
    b = [expr_src(e) for e in case["branches"]]
    form = case["form"]
    lines = ["fun %s<T, U>(%s) {" % (name, ", ".join(ps))]
    let = len(lines)
    if form == "list":
        lines.append("  let r = [%s]" % ", ".join(b))
    elif form == "dict":
        lines.append("  let r = Dict[%s]" % ", ".join("\"k%d\" => %s" % (i, x) for i, x in enumerate(b)))
    elif form == "if":
        lines.append("  let r = if c { %s } else { %s }" % (b[0], b[1]))
    elif form == "elif":
        lines.append("  let r = if c { %s } else if c { %s } else { %s }" % (b[0], b[1], b[2]))
    elif form == "match":
        lines += ["  let r = match o {", "    Some(_) => %s" % b[0], "    None => %s" % b[1], "  }"]
    elif form == "try":
        lines.append("  let r = try { %s } catch (e) { %s }" % (b[0], b[1]))
    elif form == "list_of_if":
        lines.append("  let r = [if c { %s } else { %s }, %s]" % (b[0], b[1], b[2]))
    else:
        raise ValueError(form)
    lines += ["  r", "}", ""]
    return lines, let


HEADER = ["struct Box<T> { value: T }", ""]
FENCE_RE = re.compile(r"```garden\n(.*?)\n```", re.S)


def judge_snippet(case, has_error, hover):
    """hover: display string or None."""
    params = case["params"]
    tys = [expr_type(e, params) for e in case["branches"]]
    form = case["form"]
    heads = ",".join(sorted({T.head(t) for t in tys}))
    all_equal = all(t == tys[0] for t in tys)
    detail = {"source": "\n".join(snippet_src(case, "dsnip")[0]), "combined": [T.show(t) for t in tys],
              "hover": hover, "checker_error": has_error}
    if has_error:
        if all_equal and tys[0] != T.ANY:
            # equal types must combine to that type; a checker error here is a refusal to combine equal types
            return {"status": "violated", "key": None, "sig": "equal-types-rejected:%s" % form, "detail": detail}
        return {"status": "held", "key": "src %s rejected [%s]" % (form, heads)}
    if hover is None:
        return {"status": "inconclusive", "key": None, "detail": dict(detail, what="no hover result")}
    try:
        x = T.parse_display(hover)
    except T.ParseError as e:
        return {"status": "violated", "key": None, "sig": "combined-type-is-error:%s" % form,
                "detail": dict(detail, what="no checker error but the reported type is not a type: %s" % e)}
    wrapper = {"list": "List", "list_of_if": "List", "dict": "Dict"}.get(form)
    if wrapper:
        if x[0] != "ud" or x[1] != wrapper or len(x[2]) != 1:
            return {"status": "violated", "key": None, "sig": "literal-type-wrong-constructor:%s" % form,
                    "detail": detail}
        x = x[2][0]
    for t in tys:
        if not T.subtype(t, x):
            return {"status": "violated", "key": None,
                    "sig": "combined-type-not-supertype:%s:%s" % (form, T.head(t)),
                    "detail": dict(detail, element=T.show(t), reported=T.show(x))}
    if all_equal and x != tys[0]:
        return {"status": "violated", "key": None, "sig": "equal-types-changed:%s" % form,
                "detail": dict(detail, reported=T.show(x))}
    rel = "eq-all" if all_equal else "one-of" if x in tys else "new"
    return {"status": "held", "key": "src %s ok [%s] %s" % (form, heads, rel)}


def run_snippets(cases, idxs, res, rng):
    for start in range(0, len(idxs), SNIPPETS_PER_DOC):
        chunk = idxs[start:start + SNIPPETS_PER_DOC]
        lines = list(HEADER)
        spans = []
        for n, i in enumerate(chunk):
            sl, let = snippet_src(cases[i], "dsnip_%d" % n)
            spans.append((len(lines), len(lines) + len(sl) - 1, len(lines) + let))
            lines += sl
        text = "\n".join(lines) + "\n"
        uri = "file:///dsnip.gdn"
        reqs = [{"jsonrpc": "2.0", "method": "textDocument/didOpen",
                 "params": {"textDocument": {"uri": uri, "languageId": "garden", "version": 1, "text": text}}}]
        for n, (_, _, let) in enumerate(spans):
            reqs.append({"jsonrpc": "2.0", "id": n + 1, "method": "textDocument/hover",
                         "params": {"textDocument": {"uri": uri}, "position": {"line": let, "character": 6}}})
        with core.Scratch("gm-c15-") as sc:
            p = sc.file("".join(json.dumps(r) + "\n" for r in reqs), name="session.jsonl")
            r = core.run_garden(["reftest-lsp", p], cwd=sc.dir, timeout=120)
            if r.cls in core.CRASH:
                for i in chunk:
                    res[i] = {"status": "inconclusive", "key": None,
                              "detail": {"what": "LSP replay crashed (C28 territory)", "run": r.brief()}}
                continue
            msgs = core.parse_concat_json(r.out)
            err_lines = set()
            hovers = {}
            got_diag = False
            for m in msgs:
                if m.get("method") == "textDocument/publishDiagnostics":
                    got_diag = True
                    for d in m["params"].get("diagnostics", []):
                        if d.get("severity") == 1:
                            for ln in range(d["range"]["start"]["line"], d["range"]["end"]["line"] + 1):
                                err_lines.add(ln)
                elif "id" in m:
                    v = None
                    rs = m.get("result")
                    if isinstance(rs, dict):
                        mm = FENCE_RE.search(rs.get("contents", {}).get("value", ""))
                        if mm:
                            v = mm.group(1).strip()
                    hovers[m["id"]] = v
            if not got_diag or r.timed_out:
                for i in chunk:
                    res[i] = {"status": "inconclusive", "key": None,
                              "detail": {"what": "no diagnostics published", "run": r.brief()}}
                continue
            for n, i in enumerate(chunk):
                lo, hi, _ = spans[n]
                has_error = any(lo <= ln <= hi for ln in err_lines)
                res[i] = judge_snippet(cases[i], has_error, hovers.get(n + 1))
            # one snippet of the document also through the real CLI commands
            n = rng.randrange(len(chunk))
            i = chunk[n]
            if res[i]["status"] == "held":
                cli = cli_cross_check(cases[i], sc, any(spans[n][0] <= ln <= spans[n][1] for ln in err_lines),
                                      hovers.get(n + 1))
                if cli is not None:
                    res[i] = cli


def cli_cross_check(case, sc, lsp_error, lsp_hover):
    sl, let = snippet_src(case, "dsnip_cli")
    lines = list(HEADER) + sl
    k = len(HEADER) + let
    lines.insert(k + 1, "  //  ^")
    path = sc.file("\n".join(lines) + "\n", name="cli.gdn")
    c = core.run_garden(["check", "--json", path], cwd=sc.dir, timeout=60)
    h = core.run_garden(["reftest-hover", path], cwd=sc.dir, timeout=60)
    if c.cls in core.CRASH or h.cls in core.CRASH or c.timed_out or h.timed_out:
        return {"status": "inconclusive", "key": None, "detail": {"check": c.brief(), "hover": h.brief()}}
    err = False
    for line in c.out.split("\n"):
        line = line.strip()
        if line.startswith("{"):
            try:
                err = err or json.loads(line).get("severity") == "error"
            except ValueError:
                pass
    hover = h.out.strip().split("\n")[0].strip() if h.out.strip() else None
    r = judge_snippet(case, err, hover)
    if r["status"] != "held":
        r["detail"] = dict(r.get("detail", {}), via="garden check --json + garden reftest-hover")
        return r
    if err != lsp_error or (not err and hover != lsp_hover):
        return {"status": "inconclusive", "key": None,
                "detail": {"what": "CLI and LSP disagree about the same function", "cli": [err, hover],
                           "lsp": [lsp_error, lsp_hover], "source": "\n".join(lines)}}
    r["key"] += " +cli"
    return r


# ----------------------------------------------------------------------------- driver glue

def run_batch(cases):
    res = [None] * len(cases)
    rows = {}
    snips = []
    for i, c in enumerate(cases):
        if c.get("t") == "src":
            snips.append(i)
        else:
            rows.setdefault(json.dumps(c["u"], sort_keys=True), []).append(i)
    if rows:
        run_rows(cases, rows, res)
    if snips:
        run_snippets(cases, snips, res, random.Random(len(snips) * 7919 + len(json.dumps(cases[snips[0]]))))
    return res
