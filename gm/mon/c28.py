"""C28 The LSP server answers every request and never dies.

Each case is a whole client session against the real `garden lsp` (stdio, Content-Length framing).
After every client message a sentinel request with an unknown method is sent; the server answers
messages in order, so everything that arrives before the sentinel's MethodNotFound answer is what the
server had to say about the message. Verdict per message (conservation law over the transcript):

  * a request (JSON-RPC: has an `id` that is a number or string, and a method) gets exactly one response,
    carrying the same id, with exactly one of `result` / `error`, before the sentinel's answer;
  * a notification gets no response; the only notification the server may send is
    textDocument/publishDiagnostics, once, after didOpen / didChange / didClose;
  * the process is alive after every message; it ends only after `exit` (exit code 0 after `shutdown`,
    1 without, as LSP 3.17 defines) or when its input is closed;
  * the published diagnostics equal what `garden check --json` reports for the same text (same path via
    --override-path) as multisets of (message, severity, range); the command line's (line, byte column)
    is turned into an absolute place and then into an LSP position by gm.ref.lsppos (UTF-16 columns).
    Texts that `garden check` rewrites before checking (CRLF, no final newline, `// args: ` line) are
    compared with the same checker pipeline run in process (frontend op of the hook).

Messages the JSON-RPC / LSP specifications do not classify (id null / boolean / float / array / object,
a message with an id but no method, JSON that is not an object, a body that is not JSON) may be answered
or not, but never with a foreign id and never by dying.
"""
import hashlib
import json
import os
import random
import urllib.parse

from .. import core
from .. import lspclient
from ..gen import fdocs
from ..ref import lsppos

ID = "C28"
LEVEL = "exploration"
TECHNIQUE = "runtime monitoring of the real language server under generated client histories (sentinel-delimited transcript)"
RULE = ("cases are whole sessions: optional initialize/initialized, 6-20 messages drawn from didOpen / didChange / didClose "
        "(valid and damaged), all 10 textDocument requests + initialize + shutdown with positions inside, on line/document "
        "boundaries, splitting surrogate pairs, far outside, on closed / never-opened / non-file URIs, damaged or missing "
        "params, unknown methods, requests before initialize, unclassifiable ids, non-object and non-JSON bodies, header "
        "variants; documents from gm.gen.fdocs (programs with non-ASCII literals, truncated / spliced / CRLF variants, tiny "
        "hostile texts) and, when importable, gm.gen.text; ends with shutdown+exit, exit alone, EOF or nothing. A case is "
        "distinct and non-trivial by the set of (method, variant, outcome) triples it observed (key = digest of the set); "
        "the triples themselves are counted in coverage.message_outcomes")
ASSUME = ["the server handles messages strictly in order (single-threaded loop), so the sentinel's answer delimits a message's output",
          "gm/ref/lsppos.py is a faithful reading of LSP 3.17 positions",
          "byte streams with a wrong Content-Length are out of scope (they are not a sequence of messages)"]
BATCH = 1
FLOOR = {"quick": 10, "thorough": 150}
BUDGET = {"quick": 45, "thorough": 780}

POS_METHODS = ["textDocument/completion", "textDocument/definition", "textDocument/hover", "textDocument/signatureHelp",
               "textDocument/documentHighlight", "textDocument/references", "textDocument/rename"]
DOC_METHODS = ["textDocument/documentSymbol", "textDocument/formatting"]
ALL_REQ = POS_METHODS + DOC_METHODS + ["textDocument/codeAction"]
NOTIF_METHODS = ["initialized", "textDocument/didOpen", "textDocument/didChange", "textDocument/didClose", "exit"]
JUNK = [None, 1, -1, 1.5, "x", [], {}, True, 2 ** 32, 2 ** 63, -2 ** 63 - 1, "file:///nonexistent/zzz.gdn", "", [1, 2], {"a": 1}]

_COV_ENV = "GM_C28_COVDIR"


# --------------------------------------------------------------------------- generation

def _texts(rng):
    """Endless stream of documents."""
    ext = None
    try:
        from ..gen import text as atext
        corpus = atext.corpus_files()
        ext = atext.texts(random.Random(rng.random()), None, corpus=corpus, max_len=3000)
    except Exception:
        ext = None
    while True:
        if ext is not None and rng.random() < 0.3:
            try:
                cls, t = next(ext)
                if len(t) <= 8000 and "nest" not in cls:
                    yield t
                    continue
            except Exception:
                ext = None
        yield fdocs.hostile(rng)


def _pos_for(rng, text, kind=None, method=None):
    """An LSP position for a document, of a given kind."""
    lf = lsppos.Doc(text, lsppos.EOL_LF)
    kind = kind or rng.choice(["inside", "trigger", "trigger", "trigger", "trigger", "trigger", "trigger", "line-end", "doc-end",
                               "doc-end", "line-start", "past-line", "past-doc", "huge", "mid-surrogate", "zero", "zero"])
    nl = lf.line_count()
    l = rng.randrange(nl)
    content = lf.lines[l][1]
    ll = lsppos.u16len(content)
    if kind == "inside":
        return kind, {"line": l, "character": rng.randint(0, ll)}
    if kind == "trigger":
        # where the handlers have something to say: after '.', '::' (completion), after '(' / ',' (signature help),
        # at the start / inside / end of identifiers (hover, definition, references, rename, highlight)
        want = {"textDocument/completion": ".:w", "textDocument/signatureHelp": "(,"}.get(method, "w.(")
        cands = []
        for li, (_s, cont, _t) in enumerate(lf.lines):
            col = 0
            prev_word = False
            for ch in cont:
                w = ch.isalnum() or ch == "_"
                if "w" in want and w and (not prev_word or rng.random() < 0.3):
                    cands.append((li, col))
                col += 2 if ord(ch) > 0xFFFF else 1
                if (ch in want and not w) or ("w" in want and w and rng.random() < 0.2):
                    cands.append((li, col))
                prev_word = w
        if cands:
            li, col = rng.choice(cands)
            return kind, {"line": li, "character": col}
        return "inside", {"line": l, "character": rng.randint(0, ll)}
    if kind == "line-end":
        return kind, {"line": l, "character": ll}
    if kind == "line-start":
        return kind, {"line": l, "character": 0}
    if kind == "doc-end":
        e = lf.end_position()
        return kind, {"line": e[0], "character": e[1]}
    if kind == "past-line":
        return kind, {"line": l, "character": ll + rng.choice([1, 2, 100, 65536])}
    if kind == "past-doc":
        return kind, {"line": nl + rng.choice([0, 1, 1000]), "character": rng.choice([0, 5])}
    if kind == "huge":
        return kind, {"line": rng.choice([4294967295, 2147483648, l]), "character": rng.choice([4294967295, 2147483647])}
    if kind == "mid-surrogate":
        col = 0
        for ch in content:
            if ord(ch) > 0xFFFF:
                return kind, {"line": l, "character": col + 1}
            col += 1
        return "inside", {"line": l, "character": rng.randint(0, ll)}
    return "zero", {"line": 0, "character": 0}


def _damage(rng, params):
    """Return a damaged deep copy of params (drop a key or put junk somewhere)."""
    p = json.loads(json.dumps(params))
    paths = []

    def walk(x, path):
        if isinstance(x, dict):
            for k, v in x.items():
                paths.append(path + [k])
                walk(v, path + [k])
        elif isinstance(x, list):
            for i, v in enumerate(x):
                paths.append(path + [i])
                walk(v, path + [i])
    walk(p, [])
    if not paths or rng.random() < 0.1:
        return rng.choice(JUNK)
    path = rng.choice(paths)
    cur = p
    for k in path[:-1]:
        cur = cur[k]
    if rng.random() < 0.3 and isinstance(cur, dict):
        del cur[path[-1]]
    else:
        cur[path[-1]] = rng.choice(JUNK)
    return p


def _request_params(rng, method, uri, text):
    kind, pos = _pos_for(rng, text, method=method)
    if method in POS_METHODS:
        params = {"textDocument": {"uri": uri}, "position": pos}
        if method == "textDocument/references":
            params["context"] = {"includeDeclaration": rng.random() < 0.5}
        if method == "textDocument/rename":
            params["newName"] = rng.choice(["renamed", "é", "", "x y", "a" * 300])
        if method == "textDocument/completion" and rng.random() < 0.3:
            params["context"] = {"triggerKind": 2, "triggerCharacter": "."}
        return kind, params
    if method == "textDocument/documentSymbol":
        return "doc", {"textDocument": {"uri": uri}}
    if method == "textDocument/formatting":
        return "doc", {"textDocument": {"uri": uri}, "options": {"tabSize": rng.choice([2, 4, 0]), "insertSpaces": True}}
    kind2, pos2 = _pos_for(rng, text)
    a, b = pos, pos2
    if rng.random() < 0.8 and (a["line"], a["character"]) > (b["line"], b["character"]):
        a, b = b, a
    if rng.random() < 0.2:
        e = lsppos.Doc(text, lsppos.EOL_LF).end_position()
        a, b = {"line": 0, "character": 0}, {"line": e[0], "character": e[1]}
        kind, kind2 = "whole", "whole"
    return kind + "+" + kind2, {"textDocument": {"uri": uri}, "range": {"start": a, "end": b}, "context": {"diagnostics": []}}


def gen_session(rng, texts):
    msgs = []
    rid = [0]
    docs = {}        # uri -> current text (open)
    closed = {}      # uri -> last text
    ndoc = [0]

    def next_id():
        rid[0] += 1
        k = rng.random()
        if k < 0.8:
            return rid[0]
        if k < 0.9:
            return "r%d" % rid[0]
        if k < 0.95:
            return -rid[0]
        return rid[0] + 2 ** 40

    def add(m, tag, resp, rid_=None, diag=None, maynotify=False, raw=None, hdr=None):
        msgs.append({"m": m, "raw": raw, "tag": tag, "hdr": hdr,
                     "exp": {"resp": resp, "id": rid_, "diag": diag, "maynotify": maynotify}})

    def request(method, params, tag, **kw):
        i = next_id()
        m = {"jsonrpc": "2.0", "id": i, "method": method}
        if params is not _MISSING:
            m["params"] = params
        add(m, tag, "one", i, hdr=rng.choice([None, None, None, "lower", "extra", "spaces"]), **kw)

    def new_uri():
        ndoc[0] += 1
        name = rng.choice(["doc%d.gdn", "doc%d.gdn", "sub/doc%d.gdn", "d o c%d.gdn", "dé%d.gdn", "doc%d.txt"]) % ndoc[0]
        return "file://@ROOT@/ws/" + urllib.parse.quote(name)

    if rng.random() < 0.85:
        request("initialize", {"processId": None, "rootUri": "file://@ROOT@/ws", "capabilities": {}}, "initialize:ok")
        if rng.random() < 0.9:
            add({"jsonrpc": "2.0", "method": "initialized", "params": {}}, "initialized:ok", "none")
    n = rng.randint(6, 20)
    for _ in range(n):
        k = rng.random()
        if k < 0.10 or (not docs and k < 0.6):
            uri = new_uri() if (rng.random() < 0.8 or not closed) else rng.choice(list(closed))
            text = next(texts)
            if rng.random() < 0.1 and docs:
                uri = rng.choice(list(docs))          # re-open an open document
            docs[uri] = text
            closed.pop(uri, None)
            add({"jsonrpc": "2.0", "method": "textDocument/didOpen",
                 "params": {"textDocument": {"uri": uri, "languageId": "garden", "version": 1, "text": text}}},
                "didOpen:ok", "none", diag={"uri": uri, "text": text})
        elif k < 0.18 and docs:
            uri = rng.choice(list(docs))
            base = docs[uri]
            text = rng.choice([next(texts), fdocs.hostile(rng, base), fdocs.splice(rng, base), base + rng.choice([".", "::", "(", "\n", " x."])])
            changes = [{"text": text}]
            if rng.random() < 0.2:
                changes = [{"text": next(texts)}, {"text": text}]
            docs[uri] = text
            add({"jsonrpc": "2.0", "method": "textDocument/didChange",
                 "params": {"textDocument": {"uri": uri, "version": 2}, "contentChanges": changes}},
                "didChange:ok", "none", diag={"uri": uri, "text": text})
        elif k < 0.21 and docs:
            uri = rng.choice(list(docs))
            closed[uri] = docs.pop(uri)
            add({"jsonrpc": "2.0", "method": "textDocument/didClose", "params": {"textDocument": {"uri": uri}}},
                "didClose:ok", "none", diag={"uri": uri, "clear": True})
        elif k < 0.26:
            # damaged document notifications: at most one publishDiagnostics, never a response, never death
            meth = rng.choice(["textDocument/didOpen", "textDocument/didChange", "textDocument/didClose"])
            uri = rng.choice(list(docs) + list(closed) + ["file://@ROOT@/ws/ghost.gdn"])
            if meth.endswith("didOpen"):
                params = {"textDocument": {"uri": uri, "languageId": "garden", "version": 1, "text": next(texts)}}
            elif meth.endswith("didChange"):
                params = {"textDocument": {"uri": uri, "version": 3}, "contentChanges": [{"text": next(texts)}]}
            else:
                params = {"textDocument": {"uri": uri}}
            params = _damage(rng, params)
            m = {"jsonrpc": "2.0", "method": meth, "params": params}
            if rng.random() < 0.15:
                del m["params"]
            # we no longer know what the server believes about this uri
            docs.pop(uri, None)
            closed.pop(uri, None)
            add(m, meth.split("/")[-1] + ":damaged", "none", maynotify=True)
        elif k < 0.75:
            method = rng.choice(ALL_REQ)
            c = rng.random()
            if docs and c < 0.72:
                uri = rng.choice(list(docs))
                kind, params = _request_params(rng, method, uri, docs[uri])
                request(method, params, "%s:%s" % (method.split("/")[-1], kind))
            elif closed and c < 0.78:
                uri = rng.choice(list(closed))
                kind, params = _request_params(rng, method, uri, closed[uri])
                request(method, params, "%s:closed-doc" % method.split("/")[-1])
            elif c < 0.88:
                uri = rng.choice(["file://@ROOT@/ws/never-opened.gdn", "file:///", "http://example.com/x.gdn", "untitled:Untitled-1",
                                  "file://otherhost/x.gdn", "not a uri", "", "file://@ROOT@/ws", "file://@ROOT@/ws/%ff.gdn",
                                  "file://@ROOT@/ws/ondisk.gdn"])
                kind, params = _request_params(rng, method, uri, "fun f() {}\n")
                request(method, params, "%s:foreign-uri" % method.split("/")[-1])
            else:
                uri = rng.choice(list(docs) or ["file://@ROOT@/ws/never-opened.gdn"])
                kind, params = _request_params(rng, method, uri, docs.get(uri, "x\n"))
                if rng.random() < 0.2:
                    request(method, _MISSING, "%s:no-params" % method.split("/")[-1])
                else:
                    request(method, _damage(rng, params), "%s:damaged" % method.split("/")[-1])
        elif k < 0.80:
            request(rng.choice(["workspace/symbol", "textDocument/foo", "$/cancelRequestX", "", "shutdownX", "textDocument/hover ",
                                "TEXTDOCUMENT/HOVER", "é", "workspace/executeCommand"]),
                    rng.choice([{}, None, [], {"textDocument": {"uri": "file:///x"}}]), "unknown-request")
        elif k < 0.84:
            m = {"jsonrpc": "2.0", "method": rng.choice(["$/cancelRequest", "$/setTrace", "workspace/didChangeConfiguration",
                                                          "textDocument/didSave", "textDocument/hover", "foo", "shutdown"]),
                 "params": rng.choice([{}, {"id": 1}, None, []])}
            if m["method"] == "shutdown":
                continue
            add(m, "unknown-or-idless-notification", "none")
        elif k < 0.86:
            # a request whose method is a notification name: still a request, needs its one answer
            meth = rng.choice(["initialized", "textDocument/didClose", "textDocument/didOpen", "textDocument/didChange"])
            i = next_id()
            add({"jsonrpc": "2.0", "id": i, "method": meth, "params": rng.choice([{}, {"textDocument": {"uri": "file://@ROOT@/ws/ghost2.gdn"}}])},
                "notification-method-with-id", "one", i, maynotify=True)
        elif k < 0.91:
            # unclassifiable / malformed envelopes
            c = rng.random()
            if c < 0.2:
                i = next_id()
                m = {"id": i, "method": rng.choice(ALL_REQ)}      # no jsonrpc member: an invalid request, has an id
                add(m, "no-jsonrpc-member", "one", i)
            elif c < 0.32:
                i = next_id()
                meth = rng.choice([5, None, [], {"a": 1}, True])
                # `"method": null` reads as "no method" (a response from the client): unclassifiable, like an absent one
                add({"jsonrpc": "2.0", "id": i, "method": meth}, "method-not-a-string" if meth is not None else "method-null",
                    "one" if meth is not None else "any", i)
            elif c < 0.44:
                add({"jsonrpc": "2.0", "id": rng.choice([None, True, 1.5, [1], {"x": 1}]), "method": rng.choice(ALL_REQ + ["foo"]),
                     "params": {}}, "odd-id", "any")
            elif c < 0.56:
                add({"jsonrpc": "2.0", "id": next_id(), "result": None}, "client-response", "any")
            elif c < 0.64:
                add(rng.choice([[], [1, 2], 5, "str", None, True, [{"jsonrpc": "2.0", "id": 99, "method": "foo"}]]), "non-object-json", "none")
            elif c < 0.93:
                # bodies that are not JSON; several fail EARLY in the body and have a long tail, so a reader that stops
                # at the first syntax error instead of consuming Content-Length bytes loses the framing
                tail = ", \"params\": {\"textDocument\": {\"uri\": \"file://@ROOT@/ws/x.gdn\"}, \"position\": {\"line\": 0, \"character\": 0}}}"
                add(None, "non-json-body", "none", raw=rng.choice(["", "{", "[1,2", "﻿{}", "{\"jsonrpc\": \"2.0\", \"id\": 1, ",
                                                                   "nul\u0000l", "{'a': 1}", "Content-Length: 5", "\r\n",
                                                                   "{\"jsonrpc\": \"2.0\", \"id\": 1, \"method\": " + tail,
                                                                   "{\"jsonrpc\": \"2.0\",, \"id\": 1, \"method\": \"shutdown\"" + tail,
                                                                   "{\"a\": 1,}" + " " * 40, "[1, 2,]" + tail, "}{" + tail,
                                                                   "{\"jsonrpc\": 2.0.0, \"id\": 3" + tail, "x" * 300]))
            else:
                i = next_id()
                add({"jsonrpc": "1.0", "id": i, "method": "textDocument/hover", "params": {}, "extra": {"deep": [1, 2, 3]}},
                    "odd-jsonrpc-version", "one", i)
        elif k < 0.94:
            request("initialize", rng.choice([{"capabilities": {}}, {}, None, _MISSING, {"processId": "x"}, [1]]), "initialize:again")
        elif k < 0.97:
            request("shutdown", rng.choice([_MISSING, None, {}]), "shutdown:mid-session")
            msgs[-1]["shutdown"] = True
        else:
            # a burst of identical ids: every one of them still needs its own answer
            i = next_id()
            for _ in range(2):
                msgs.append({"m": {"jsonrpc": "2.0", "id": i, "method": "textDocument/documentSymbol",
                                   "params": {"textDocument": {"uri": rng.choice(list(docs) or ["file:///x.gdn"])}}},
                             "raw": None, "tag": "reused-id", "hdr": None,
                             "exp": {"resp": "one", "id": i, "diag": None, "maynotify": False}})
    end = rng.choice(["shutdown-exit", "shutdown-exit", "shutdown-exit", "exit", "eof", "none"])
    return {"msgs": msgs, "end": end}


class _Missing:
    pass


_MISSING = _Missing()


def gen_cases(tier, seed):
    cdir = os.path.join(core.VERIF, "corpus", "C28")
    if os.path.isdir(cdir):
        for fn in sorted(os.listdir(cdir)):
            if fn.endswith(".json"):
                try:
                    c = json.load(open(os.path.join(cdir, fn), encoding="utf-8"))
                except ValueError:
                    continue
                if isinstance(c, dict) and "msgs" in c:
                    yield c
    rng = random.Random(seed * 104729 + 28)
    texts = _texts(rng)
    while True:
        yield gen_session(rng, texts)


# --------------------------------------------------------------------------- running

def prepare(tier, seed):
    import tempfile
    d = tempfile.mkdtemp(prefix="gm-c28-cov-")
    os.environ[_COV_ENV] = d


def extra_evidence():
    d = os.environ.get(_COV_ENV)
    counts = {}
    if d and os.path.isdir(d):
        for fn in os.listdir(d):
            try:
                for line in open(os.path.join(d, fn), encoding="utf-8"):
                    line = line.rstrip("\n")
                    if line:
                        counts[line] = counts.get(line, 0) + 1
            except OSError:
                pass
        import shutil
        shutil.rmtree(d, ignore_errors=True)
    return {"message_outcomes_distinct": len(counts), "messages": sum(counts.values()),
            "message_outcomes": dict(sorted(counts.items(), key=lambda kv: -kv[1])[:120])}


def _record(triples):
    d = os.environ.get(_COV_ENV)
    if not d or not os.path.isdir(d):
        return
    try:
        with open(os.path.join(d, "w%d" % os.getpid()), "a", encoding="utf-8") as f:
            for t in triples:
                f.write(t + "\n")
    except OSError:
        pass


def _frame(payload, hdr):
    body = payload if isinstance(payload, bytes) else json.dumps(payload, ensure_ascii=False).encode("utf-8")
    n = len(body)
    if hdr == "lower":
        return b"content-length: %d\r\n\r\n" % n + body
    if hdr == "extra":
        return b"Content-Type: application/vscode-jsonrpc; charset=utf-8\r\nContent-Length: %d\r\n\r\n" % n + body
    if hdr == "spaces":
        return b"Content-Length:   %d  \r\n\r\n" % n + body
    return b"Content-Length: %d\r\n\r\n" % n + body


def _same_id(a, b):
    return type(a) is type(b) and a == b


def _subst(x, root):
    return json.loads(json.dumps(x).replace("@ROOT@", root))


def _uri_path(uri):
    if not isinstance(uri, str) or not uri.startswith("file://"):
        return None
    return urllib.parse.unquote(uri[len("file://"):])


def run_session(case, timeout=25.0):
    """-> result dict for the framework."""
    with core.Scratch("gm-c28-") as sc:
        root = sc.dir
        ws = os.path.join(root, "ws")
        os.makedirs(os.path.join(ws, "sub"), exist_ok=True)
        with open(os.path.join(ws, "ondisk.gdn"), "w", encoding="utf-8") as f:
            f.write("fun on_disk(x: Int): Int { x + 1 }\nfun user() { on_disk(1) }\n")
        probe = lspclient.Probe(ws, tmpdir=root)
        triples = []
        viol = []
        diag_obs = []       # (spec index, expected spec, observed notification)
        shutdown_seen = False
        try:
            for idx, spec in enumerate(case["msgs"]):
                if spec.get("raw") is not None:
                    payload = spec["raw"].replace("@ROOT@", root).encode("utf-8")
                else:
                    payload = _subst(spec["m"], root) if not isinstance(spec["m"], _Missing) else None
                exp = spec["exp"]
                before, sent, st = probe.exchange(_frame(payload, spec.get("hdr")), timeout)
                tag = spec["tag"]
                if st == "dead":
                    rc = probe.srv.wait_exit(5)
                    err = probe.srv.stderr_text()
                    run = core.Run(rc, "", err, False, 0)
                    sig = "server-died:" + (core.crash_sig(run) if run.cls in core.CRASH else run.cls)
                    triples.append("%s|died" % tag)
                    viol.append((sig, {"message_index": idx, "message": _clip(payload), "tag": tag, "rc": rc, "stderr": err[-1500:]}))
                    break
                if st == "timeout":
                    triples.append("%s|timeout" % tag)
                    return {"status": "inconclusive", "key": None, "timeout_at": idx,
                            "detail": {"message_index": idx, "message": _clip(payload), "tag": tag, "why": "no sentinel answer in %ss" % timeout,
                                       "stderr": probe.srv.stderr_text()[-800:]}}
                # the sentinel itself
                if not (isinstance(sent.get("error"), dict) and sent["error"].get("code") == -32601 and "result" not in sent):
                    viol.append(("sentinel-not-method-not-found", {"message_index": idx, "sentinel_answer": sent}))
                resps = [m for m in before if isinstance(m, dict) and "method" not in m]
                notes = [m for m in before if isinstance(m, dict) and "method" in m and "id" not in m]
                srvreq = [m for m in before if not isinstance(m, dict) or ("method" in m and "id" in m)]
                if srvreq:
                    viol.append(("unexpected-server-message", {"message_index": idx, "tag": tag, "messages": _clip(srvreq)}))
                if probe.srv.framing_errors:
                    viol.append(("malformed-frame-from-server", {"message_index": idx, "errors": probe.srv.framing_errors[:3]}))
                    probe.srv.framing_errors = []
                # ---- responses
                outcome = "noresp"
                if exp["resp"] == "one":
                    rid = _subst(exp["id"], root)
                    mine = [m for m in resps if _same_id(m.get("id"), rid)]
                    other = [m for m in resps if not _same_id(m.get("id"), rid)]
                    if len(mine) != 1 or other:
                        sig = "request-not-answered" if not mine and not other else (
                            "request-answered-twice" if len(mine) > 1 else "response-with-foreign-id")
                        viol.append((sig + ":" + _tagclass(tag), {"message_index": idx, "message": _clip(payload), "tag": tag,
                                                                  "responses": _clip(resps)}))
                    for m in mine[:1]:
                        if ("result" in m) == ("error" in m) or m.get("jsonrpc") != "2.0":
                            viol.append(("malformed-response", {"message_index": idx, "tag": tag, "response": _clip(m)}))
                        outcome = "error%s" % m["error"].get("code") if isinstance(m.get("error"), dict) else (
                            "null" if m.get("result") is None else ("empty" if m.get("result") in ([], {}) else "result"))
                elif exp["resp"] == "none":
                    if resps:
                        viol.append(("response-to-notification:" + _tagclass(tag), {"message_index": idx, "message": _clip(payload), "tag": tag,
                                                                                    "responses": _clip(resps)}))
                else:
                    want = payload.get("id") if isinstance(payload, dict) else None
                    if len(resps) > 1 or any(not (m.get("id") == want and type(m.get("id")) is type(want)) for m in resps):
                        viol.append(("odd-message-misanswered", {"message_index": idx, "message": _clip(payload), "responses": _clip(resps)}))
                    outcome = "answered" if resps else "ignored"
                # ---- notifications
                bad = [m for m in notes if m.get("method") != "textDocument/publishDiagnostics"]
                if bad:
                    viol.append(("unexpected-notification", {"message_index": idx, "tag": tag, "notifications": _clip(bad)}))
                pubs = [m for m in notes if m.get("method") == "textDocument/publishDiagnostics"]
                if exp.get("diag"):
                    d = _subst(exp["diag"], root)
                    if len(pubs) != 1:
                        viol.append(("publish-diagnostics-count", {"message_index": idx, "tag": tag, "expected": 1, "observed": len(pubs)}))
                    else:
                        diag_obs.append((idx, d, pubs[0]))
                        outcome = "diags%d" % min(len((pubs[0].get("params") or {}).get("diagnostics") or []), 3)
                elif exp.get("maynotify"):
                    if len(pubs) > 1:
                        viol.append(("publish-diagnostics-count", {"message_index": idx, "tag": tag, "expected": "<=1", "observed": len(pubs)}))
                elif pubs:
                    viol.append(("unexpected-notification", {"message_index": idx, "tag": tag, "notifications": _clip(pubs)}))
                if spec.get("shutdown"):
                    shutdown_seen = True
                triples.append("%s|%s" % (tag, outcome))
            else:
                # ---- end of session
                end = case.get("end", "none")
                if end in ("shutdown-exit", "exit"):
                    if end == "shutdown-exit":
                        r, _o, st = probe.request("verif-shutdown", "shutdown", None, timeout)
                        if st != "ok" or not isinstance(r, dict) or "result" not in r or r.get("result") is not None:
                            viol.append(("shutdown-not-answered-with-null", {"response": _clip(r), "status": st}))
                        shutdown_seen = True
                    probe.srv.send({"jsonrpc": "2.0", "method": "exit"})
                    rc = probe.srv.wait_exit(20)
                    want = 0 if shutdown_seen else 1
                    if rc is None:
                        viol.append(("no-exit-after-exit", {"end": end}))
                    elif rc != want:
                        run = core.Run(rc, "", probe.srv.stderr_text(), False, 0)
                        viol.append(("exit-code:%s" % ("after-shutdown" if shutdown_seen else "without-shutdown"),
                                     {"end": end, "rc": rc, "expected": want, "stderr": run.err[-800:]}))
                    triples.append("end:%s|rc%s" % (end, rc))
                elif end == "eof":
                    probe.srv.close_stdin()
                    rc = probe.srv.wait_exit(20)
                    if rc is None:
                        viol.append(("no-exit-after-eof", {}))
                    elif rc not in (0, 1):
                        viol.append(("crash-at-eof", {"rc": rc, "stderr": probe.srv.stderr_text()[-800:]}))
                    triples.append("end:eof|rc%s" % rc)
                else:
                    if not probe.srv.alive():
                        viol.append(("server-died:after-last-message", {"stderr": probe.srv.stderr_text()[-800:]}))
        finally:
            probe.close()
        # ---- diagnostics content (after the session, so that nothing we write can influence it)
        if not viol or all(v[0].startswith("publish") for v in viol):
            memo = {}
            for idx, d, pub in diag_obs:
                v = judge_diagnostics(sc, d, pub, memo)
                if v == "inconclusive":
                    continue
                if v:
                    viol.append((v[0], dict(v[1], message_index=idx)))
                    break
        _record(triples)
        key = hashlib.sha1("\n".join(sorted(set(triples))).encode("utf-8")).hexdigest()[:12]
        if viol:
            sig, detail = viol[0]
            detail = dict(detail, all_sigs=sorted(set(v[0] for v in viol))[:8])
            return {"status": "violated", "key": "violated:" + sig, "sig": sig, "detail": detail}
        return {"status": "held", "key": key}


def _tagclass(tag):
    return tag.split(":")[0]


def _clip(x, n=1500):
    s = json.dumps(x, ensure_ascii=False, default=str) if not isinstance(x, (bytes, str)) else (
        x.decode("utf-8", "replace") if isinstance(x, bytes) else x)
    return s if len(s) <= n else s[:n] + "...[%d chars]" % len(s)


# --------------------------------------------------------------------------- diagnostics oracle

def check_fixed_point(text):
    if "\r\n" in text or not text.endswith("\n"):
        return False
    return not any(line.startswith("// args: ") for line in text.split("\n"))


def expected_diagnostics(sc, path, text, memo):
    """[(message, severity, (sl, sc, el, ec))] as the command line reports them, or None (inconclusive)."""
    k = (path, text)
    if k in memo:
        return memo[k]
    lf = lsppos.Doc(text, lsppos.EOL_LF)
    out = None
    if check_fixed_point(text):
        f = sc.file(text, suffix=".gdn")
        r = core.run_garden(["check", "--json", f, "--override-path", path], timeout=90, cwd=sc.dir)
        if r.cls in ("ok", "diag"):
            out = []
            for line in r.out.split("\n"):
                line = line.strip()
                if not line:
                    continue
                try:
                    j = json.loads(line)
                except ValueError:
                    out = None
                    break
                rng_ = []
                for ln, col in ((j["line_number"], j["column"]), (j["end_line_number"], j["end_column"])):
                    li = ln - 1
                    if li < 0 or li >= lf.line_count():
                        rng_ = None
                        break
                    pos = lf.position_of(min(lf.lines[li][0] + col, lf.nbytes))
                    if pos is None:
                        rng_ = None
                        break
                    rng_.extend(pos)
                if rng_ is None:
                    out = None
                    break
                out.append((j["message"], {"error": 1, "warning": 2}.get(j["severity"], j["severity"]), tuple(rng_)))
    else:
        h = core.batch([{"op": "frontend", "src": text, "path": path, "check": True}], timeout=90)[0]
        if h and "parse_errors" in h and "check_panic" not in h and "crash" not in h:
            out = []
            items = [(e["msg"], 1, e["pos"]) for e in h["parse_errors"]]
            if not items:
                items = [(d["msg"], {"Error": 1, "Warning": 2}.get(d["severity"], d["severity"]), d["pos"])
                         for d in h.get("diagnostics") or []]
            for msg, sev, pos in items:
                a, b = lf.position_of(min(pos[0], lf.nbytes)), lf.position_of(min(pos[1], lf.nbytes))
                if a is None or b is None:
                    out = None
                    break
                out.append((msg, sev, a + b))
    memo[k] = out
    return out


def judge_diagnostics(sc, d, pub, memo):
    params = pub.get("params") or {}
    got_uri = params.get("uri")
    if _uri_path(got_uri) != _uri_path(d["uri"]):
        return ("publish-diagnostics-uri", {"expected": d["uri"], "observed": got_uri})
    diags = params.get("diagnostics")
    if not isinstance(diags, list):
        return ("publish-diagnostics-malformed", {"observed": _clip(params)})
    if d.get("clear"):
        if diags:
            return ("diagnostics-not-cleared-on-close", {"observed": _clip(diags)})
        return None
    want = expected_diagnostics(sc, _uri_path(d["uri"]), d["text"], memo)
    if want is None:
        return "inconclusive"
    got = []
    for x in diags:
        try:
            r = x["range"]
            got.append((x["message"], x.get("severity"), (r["start"]["line"], r["start"]["character"], r["end"]["line"], r["end"]["character"])))
        except (KeyError, TypeError):
            return ("publish-diagnostics-malformed", {"observed": _clip(x)})
    if sorted(got, key=repr) != sorted(want, key=repr):
        only_lsp = [g for g in got if g not in want]
        only_cli = [w for w in want if w not in got]
        msgs_equal = sorted((g[0], g[1]) for g in got) == sorted((w[0], w[1]) for w in want)
        return ("diagnostics-differ:" + ("ranges" if msgs_equal else "messages"),
                {"text": d["text"], "only_lsp": only_lsp[:4], "only_check": only_cli[:4], "n_lsp": len(got), "n_check": len(want)})
    return None


# --------------------------------------------------------------------------- driver entry

def run_batch(cases):
    out = []
    for c in cases:
        r = run_session(c)
        if r["status"] == "inconclusive" and "timeout_at" in r:
            # a real hang never answers: look again, alone, with a much larger budget
            r2 = run_session(c, timeout=100.0)
            if r2["status"] == "inconclusive" and "timeout_at" in r2:
                d = r2["detail"]
                r = {"status": "violated", "key": "violated:hang", "sig": "no-answer:" + _tagclass(d.get("tag", "?")), "detail": d}
            else:
                r = r2
        r.pop("timeout_at", None)
        out.append(r)
    return out


def replay(case):
    return run_batch([case])[0]
