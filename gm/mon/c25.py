"""C25 Sandboxed runs always finish within their step budget.

Every case is one `playground-run` / `sandboxed-test` process with stdin an open pipe that is never written.
Verdicts use logical observations wherever one exists:
  * crashed          - exit taxonomy (panic / SIGABRT stack overflow / SIGSEGV), with the phase (build / operation /
                       after the result was printed) read from markers in the output;
  * blocked          - the main thread sleeps in read(0, ...) at consecutive /proc polls (gm/ref/e_strace.run);
  * past the budget  - the hooked build is asked (GDN_VERIF_INTERRUPT_AT) to flag tick 100000+slack; an `inject`
                       event in the event log proves that the interpreter executed more steps than the fixed budget;
  * wrong outcome    - a program that cannot terminate by construction must end in the tick- or stack-limit error;
                       bounded recursion below / above the fixed stack limit must give its value / the limit error;
  * wall clock only as a last resort: a watchdog firing while the process is runnable is re-run alone with a 10x
    budget; only if that also expires is it reported (otherwise the slow run is held and counted as "slow").
"""
import json
import os
import random

from .. import core
from ..gen import e_sandbox as G
from ..ref import e_strace as S

ID = "C25"
LEVEL = "exploration"
RULE = ("case families: moddeep (values nested 20..200 levels from 7 constructors, then one of 7 display operations), "
        "imports (multi-file projects: layered diamond import graphs depth 8..26 x width 2..3, with "
        "cycles / skip edges, long chains), sequel (10 layouts in which an earlier test / toplevel call / shared function exhausts the "
        "budget and a non-terminating unit follows in the same process), nonterm (15 looping/recursing shapes x 20 loop bodies x phase shift x {top, function, test} x "
        "{playground-run, sandboxed-test}), depth (bounded recursion around the 1000-frame limit), builtin (every "
        "built-in stub with canonical arguments, stdin never written), nest (values nested 10^2..4*10^4 deep built in a "
        "loop from 9 constructors, then one of 18 operations), long (single long ticks: string doubling, big reprs, huge "
        "range), expmem (thorough only, observation). distinct key = (family, mode, placement, shape/constructor/"
        "operation, size class, outcome class)")
ASSUME = ["the fixed sandbox limits are 100000 ticks and 1000 frames (src/sandboxed_playground.rs, src/test_runner.rs)",
          "main-thread stack = 8 MiB (set explicitly by the runner); dev profile",
          "a main thread asleep in read(0) on a pipe nobody writes is blocked forever",
          "memory growth is outside the property: allocation failure under the harness rlimit is an observation"]
BATCH = 4
FLOOR = {"quick": 40, "thorough": 200}
BUDGET = {"quick": 36, "thorough": 780}

TICK_LIMIT = 100000
TICK_ERR = "Reached the tick limit"
STACK_ERR = "Reached the stack limit"
BASE_TIMEOUT = {"quick": 12.0, "thorough": 40.0}
_TIER = ["quick"]

NEST_OPCLASS = {"none": "none", "drop": "drop", "final-value": "display", "string_repr": "display", "println": "display",
                "dbg": "display", "throw-repr": "display", "interpolate": "display", "eq-self": "eq", "eq-copy": "eq",
                "neq": "eq", "contains": "eq", "assert-fail": "display", "in-list": "typeof", "dict-value": "typeof",
                "as-arg": "call", "return-from-fun": "call", "match": "typeof", "closure-capture": "capture"}
CHEAP_CTORS = ["struct", "enum", "structlist", "structopt"]
LEVELS_PER_STEP = {"struct": 2, "structlist": 2, "structopt": 2}
TYPED_CTORS = ["list", "tuple", "some", "ok", "err", "dictv", "mix"]


def prepare(tier, seed):
    _TIER[0] = tier


def by_id():
    return {b["id"]: b for b in G.vocabulary()}


# ------------------------------------------------------------------------------------------ cases

def gen_cases(tier, seed):
    _TIER[0] = tier
    voc = G.vocabulary()
    rng = random.Random(seed * 7919 + 25)
    wheres = ["top", "fun", "test"]
    cdir = os.path.join(core.VERIF, "corpus", ID)
    for name in sorted(os.listdir(cdir)) if os.path.isdir(cdir) else []:
        if name.endswith(".gdn"):
            for mode in ("playground", "sbtest"):
                yield {"t": "corpus", "file": name, "mode": mode, "where": "file"}
    # core i: multi-file projects whose import graph has many paths to the same file (loading happens outside
    # the tick budget, so only a visited-set keeps it linear)
    for ii, (layout, depth, width) in enumerate(IMPORT_CORE):
        yield {"t": "imports", "layout": layout, "depth": depth, "width": width, "where": "file",
               "mode": "playground" if (ii + seed) % 2 == 0 else "sbtest"}
    # core m: moderately deep values (20..200 levels: far below the stack-overflow findings, cheap in ticks) that are
    # then displayed; the display must cost time polynomial in the depth
    for mi, (ctor, depth, op) in enumerate(MODDEEP_CORE):
        fv = op == "final-value"   # only the playground prints the final value (toplevel or function result)
        yield {"t": "moddeep", "ctor": ctor, "n": depth, "k": 1, "op": op,
               "where": wheres[(mi + seed) % 2] if fv else wheres[(mi + seed) % 3],
               "mode": "playground" if fv or (mi + seed) % 2 == 0 else "sbtest"}
    # core 0: the budget is exhausted by an EARLIER unit (test, toplevel expression, shared function) and a
    # non-terminating unit follows in the same process
    for li, layout in enumerate(SEQUEL_LAYOUTS):
        n = len(G.NONTERM_SHAPES)
        yield {"t": "sequel", "layout": layout, "mode": "playground" if layout.startswith("P") else "sbtest",
               "where": "file", "body": (li + seed) % len(G.LOOP_BODIES),
               # the first unit always runs into the TICK limit (a loop), the others rotate over all shapes
               "shapes": [TICK_SHAPES[(li + seed) % len(TICK_SHAPES)]] +
                         [G.NONTERM_SHAPES[(li * 4 + j * 5 + seed) % n] for j in range(1, 4)]}
    # core 1: every non-terminating shape in both modes (placement and body rotate with the seed)
    for si, shape in enumerate(G.NONTERM_SHAPES):
        for mi, mode in enumerate(("playground", "sbtest")):
            yield {"t": "nonterm", "shape": shape, "body": (si * 3 + mi + seed) % len(G.LOOP_BODIES),
                   "phase": (si + seed) % 7, "mode": mode, "where": wheres[(si + mi + seed) % 3]}
    # core 2: recursion depth around the fixed frame limit
    for d in (10, 500, 900, 1100, 1500, 5000):
        for mode in ("playground", "sbtest"):
            yield {"t": "depth", "d": d, "mode": mode, "where": "top" if mode == "playground" else "test"}
    # core 3: every built-in once per mode (a blocking built-in shows as a sleeping read(0))
    for b in voc:
        if b["id"] == "prelude::throw":
            continue
        yield {"t": "builtin", "b": b["id"], "mode": "sbtest" if (len(b["id"]) + seed) % 2 else "playground",
               "where": "top"}
    for where in wheres:
        for mode in ("playground", "sbtest"):
            yield {"t": "builtin", "b": "prelude::read_line", "mode": mode, "where": where}
    # core 4: deep values, cheap constructors (tick-bounded depth) and typed constructors (time-bounded depth)
    ops = sorted(x for x in G.NEST_OPS if x != "none")
    for i, op in enumerate(ops):
        yield {"t": "nest", "ctor": CHEAP_CTORS[(i + seed) % 4], "n": 250, "k": 4, "op": op,
               "mode": "playground" if (i + seed) % 2 else "sbtest", "where": wheres[(i + seed) % 3]}
    for i, ctor in enumerate(TYPED_CTORS):
        yield {"t": "nest", "ctor": ctor, "n": 300, "k": 1, "op": ops[(i * 5 + seed) % len(ops)],
               "mode": "playground" if (i + seed) % 2 == 0 else "sbtest", "where": "top"}
    for di, (depth, k) in enumerate(((2000, 4), (6000, 10), (20000, 10), (40000, 10))):
        for oi, op in enumerate(("drop", "string_repr", "eq-copy", "final-value")):
            ctor = CHEAP_CTORS[(di + oi + seed) % 4]
            yield {"t": "nest", "ctor": ctor, "n": depth // (k * LEVELS_PER_STEP.get(ctor, 1)), "k": k, "op": op,
                   "mode": "playground" if (di + oi) % 2 == 0 else "sbtest", "where": "top"}
    # core 5: long single ticks
    for kind in LONG_KINDS:
        yield {"t": "long", "kind": kind, "size": LONG_SIZES[kind][0], "mode": "playground", "where": "top"}
    yield {"_marker": "core", "shapes": len(G.NONTERM_SHAPES), "builtins": len(voc), "nest_ops": len(ops),
           "space": "each non-terminating shape x 2 modes; recursion depths around the limit; every built-in; every "
                    "nest operation on a 1000-deep struct/enum chain; every typed constructor at depth 300; "
                    "depths 2000..40000 x 4 operations; every long-tick kind"}
    if tier == "thorough":
        for kind in ("string-double-loop", "list-double-loop"):
            yield {"t": "expmem", "kind": kind, "mode": "playground", "where": "top"}
    while True:
        r = rng.random()
        mode = rng.choice(("playground", "sbtest"))
        where = rng.choice(wheres)
        if r < 0.06:
            op = rng.choice(MODDEEP_OPS)
            fv = op == "final-value"
            yield {"t": "moddeep", "ctor": rng.choice(MODDEEP_CTORS), "n": rng.randint(20, 200), "k": 1, "op": op,
                   "mode": "playground" if fv else mode, "where": rng.choice(wheres[:2]) if fv else where}
        elif r < 0.11:
            layout = rng.choice(IMPORT_LAYOUTS)
            yield {"t": "imports", "layout": layout, "where": "file", "mode": mode,
                   "depth": rng.randint(8, 26) if layout != "chain" else rng.choice([50, 150, 300]),
                   "width": rng.choice([2, 2, 3])}
        elif r < 0.22:
            layout = rng.choice(SEQUEL_LAYOUTS)
            yield {"t": "sequel", "layout": layout, "mode": "playground" if layout.startswith("P") else "sbtest",
                   "where": "file", "shapes": [rng.choice(TICK_SHAPES if rng.random() < 0.7 else G.NONTERM_SHAPES)] +
                                              [rng.choice(G.NONTERM_SHAPES) for _ in range(3)],
                   "body": rng.randrange(len(G.LOOP_BODIES))}
        elif r < 0.45:
            yield {"t": "nonterm", "shape": rng.choice(G.NONTERM_SHAPES), "body": rng.randrange(len(G.LOOP_BODIES)),
                   "phase": rng.randrange(0, 40), "mode": mode, "where": where,
                   "extra_tests": rng.choice([0, 0, 1, 3]) if mode == "sbtest" else 0,
                   "cursor": rng.random() < 0.3}
        elif r < 0.55:
            yield {"t": "depth", "d": rng.choice([rng.randint(1, 900), rng.randint(1100, 3000), rng.randint(900, 1100)]),
                   "mode": mode, "where": where}
        elif r < 0.62:
            b = rng.choice(voc)
            if b["id"] == "prelude::throw":
                continue
            yield {"t": "builtin", "b": b["id"], "mode": mode, "where": where}
        elif r < 0.9:
            if rng.random() < 0.7:
                k = rng.choice([1, 2, 4, 10])
                depth = rng.choice([300, 1000, 2500, 3500, 8000, 15000, 25000, 32000, 45000])
                if k == 1:
                    depth = min(depth, 8000)
                ctor = rng.choice(CHEAP_CTORS)
                yield {"t": "nest", "ctor": ctor, "n": max(1, depth // (k * LEVELS_PER_STEP.get(ctor, 1))), "k": k,
                       "op": rng.choice(ops), "mode": mode, "where": where}
            else:
                depth = rng.choice([50, 200, 400, 700] + ([1000, 1500] if tier == "thorough" else []))
                yield {"t": "nest", "ctor": rng.choice(TYPED_CTORS), "n": depth, "k": 1, "op": rng.choice(ops),
                       "mode": mode, "where": where}
        else:
            kind = rng.choice(LONG_KINDS)
            yield {"t": "long", "kind": kind, "size": rng.choice(LONG_SIZES[kind]), "mode": mode, "where": where}


LONG_KINDS = ["str-double-len", "str-double-repr", "str-double-chars", "str-double-lines", "str-double-eq",
              "str-double-index", "str-double-split", "list-concat-repr", "huge-range", "big-list-repr", "big-dict",
              "sort-reversed", "str-double-print"]
LONG_SIZES = {"str-double-len": [20, 24, 25], "str-double-repr": [18, 22], "str-double-chars": [12, 16, 18],
              "str-double-lines": [14, 18], "str-double-eq": [20, 24], "str-double-index": [20, 24],
              "str-double-split": [12, 16], "list-concat-repr": [8, 12], "huge-range": [6, 9, 12],
              "big-list-repr": [1000, 5000], "big-dict": [500, 3000], "sort-reversed": [50, 400],
              "str-double-print": [16, 20]}


def long_program(kind, size):
    dbl = "let s = \"ab\\n\"\nlet i = 0\nwhile i < %d {\n  s = s ^ s\n  i += 1\n}\n" % size
    if kind == "str-double-len":
        return dbl + "s.len()\n"
    if kind == "str-double-repr":
        return dbl + "string_repr(s).len()\n"
    if kind == "str-double-chars":
        return dbl + "s.chars().len()\n"
    if kind == "str-double-lines":
        return dbl + "s.lines().len()\n"
    if kind == "str-double-eq":
        return dbl + "let t = s ^ \"\"\ns == t\n"
    if kind == "str-double-index":
        return dbl + "s.index_of(\"zz\")\n"
    if kind == "str-double-split":
        return dbl + "s.split(\"b\").len()\n"
    if kind == "str-double-print":
        return dbl + "println(s)\n1\n"
    if kind == "list-concat-repr":
        return ("let l = [1, 2]\nlet i = 0\nwhile i < %d {\n  l = l.concat(l)\n  i += 1\n}\nstring_repr(l).len()\n" % size)
    if kind == "huge-range":
        return "range(0, 1%s).len()\n" % ("0" * size)
    if kind == "big-list-repr":
        return "let l = range(0, %d)\nstring_repr([l, l, l]).len()\n" % size
    if kind == "big-dict":
        return ("let d = Dict[\"a\" => 0]\nlet i = 0\nwhile i < %d {\n  d = d.set(string_repr(i), i)\n  i += 1\n}\n"
                "d.items().len()\n" % size)
    if kind == "sort-reversed":
        return "let l = range(0, %d)\nsort_nums(l).len()\n" % size
    raise ValueError(kind)


def nest_program(c):
    step_k = c["k"]
    defs, body = G.nest_build(c["ctor"], c["n"])
    if step_k > 1:
        one = {"struct": "VBoxed(VBox{ x: %s })", "enum": "VNode(%s)", "list": "[%s]", "some": "Some(%s)",
               "structlist": "VLBox{ x: [%s] }", "structopt": "VOBox{ x: Some(%s) }"}.get(c["ctor"])
        if one:
            expr = "v"
            for _ in range(step_k):
                expr = one % expr
            defs, body = G.nest_build(c["ctor"], c["n"])
            lines = body.split("\n")
            lines = [("  v = " + expr) if ln.startswith("  v = ") else ln for ln in lines]
            body = "\n".join(lines)
    return defs + body + "println(\"VB\")\n" + G.NEST_OPS[c["op"]] + "\n"


MODDEEP_CTORS = ["list", "tuple", "some", "structlist", "dictlist", "mix", "ok"]
MODDEEP_OPS = ["final-value", "println", "dbg", "string_repr", "assert-fail", "throw-repr", "interpolate"]
# a list-holding constructor first in every batch of 4 (the batch's single 10x re-run goes to the first watchdog)
MODDEEP_CORE = [("list", 60, "final-value"), ("tuple", 120, "string_repr"), ("structlist", 40, "println"),
                ("some", 200, "dbg"), ("mix", 30, "assert-fail"), ("dictlist", 50, "final-value"),
                ("list", 150, "throw-repr"), ("tuple", 20, "interpolate")]
MODDEEP_TIMEOUT = 6.0
IMPORT_LAYOUTS = ["diamond", "diamond-cycle", "diamond-skip", "chain", "chain-cycle"]
# deepest diamonds first, one per batch of 4, so that a 10x re-run (one per batch) is always available to them
IMPORT_CORE = [("diamond", 26, 2), ("chain", 200, 1), ("diamond-cycle", 12, 2), ("diamond", 8, 3),
               ("diamond", 20, 3), ("chain-cycle", 60, 1), ("diamond-skip", 14, 2), ("diamond-cycle", 24, 2)]
IMPORT_TIMEOUT = 6.0


def import_project(c, root):
    """Write a multi-file project under `root`; -> (path of main.gdn, source of main, number of files).
    diamond: `depth` layers of `width` files, every file imports ALL files of the next layer (width^depth paths,
    width*depth files); -cycle: the last layer imports the first layer and every file imports itself;
    -skip: every file also imports the layer after next; chain: a_0 -> a_1 -> ... ; chain-cycle: the last imports a_0."""
    import shutil
    shutil.rmtree(root, ignore_errors=True)
    os.makedirs(root)
    lay, depth, width = c["layout"], c["depth"], c["width"]
    if lay.startswith("chain"):
        width = 1
    sides = "abc"[:width]
    n = 0
    for i in range(depth + 1):
        for sd in sides:
            lines = []
            targets = []
            if i < depth:
                targets += [(i + 1, t) for t in sides]
                if lay == "diamond-skip" and i + 2 <= depth:
                    targets += [(i + 2, t) for t in sides]
            elif lay.endswith("cycle"):
                targets += [(0, t) for t in sides]
            if lay == "diamond-cycle":
                targets.append((i, sd))
            for (j, t) in targets:
                lines.append('import "./%s_%d.gdn"' % (t, j))
            lines.append("public fun %s_%d(): Int { %d }" % (sd, i, i))
            with open(os.path.join(root, "%s_%d.gdn" % (sd, i)), "w") as f:
                f.write("\n".join(lines) + "\n")
            n += 1
    main = "".join('import "./%s_0.gdn"\n' % sd for sd in sides)
    main += ("fun vcount(n: Int): Int {\n  let i = 0\n  while i < n {\n    i += 1\n  }\n  i\n}\n"
             "test vt_main {\n  assert(vcount(3) + a_0() == 3)\n}\n")
    if c["mode"] == "playground":
        main += "vcount(10) + %s\n" % " + ".join("%s_0()" % sd for sd in sides)
    path = os.path.join(root, "main.gdn")
    with open(path, "w") as f:
        f.write(main)
    return path, main, n + 1


TICK_SHAPES = ["while-true", "while-counter", "while-nested", "while-break-inner", "for-in-while"]
SEQUEL_LAYOUTS = ["P-spin-top", "P-spin-ok-top", "P-ok-spin-top", "P-spin-spin-top", "P-shared-fun", "P-spin-rec-top",
                  "S-spins", "S-spin-ok-spin", "S-shared-fun", "S-four"]
_RENAME = __import__("re").compile(r"\b(vf|vg|vh|vc|vloop|spin|VS|vstep|vnext|vmain)\b")


def _unit(shape, body, i):
    """(definitions, statements) of a non-terminating unit whose top-level names carry the suffix i"""
    src = G.nonterm_program(shape, G.LOOP_BODIES[body], i % 3)
    src = _RENAME.sub(lambda m: "%s_%d" % (m.group(1), i), src)
    return G.split_defs(src)


def sequel_program(c):
    """Several units evaluated one after another in ONE sandboxed process; an earlier one uses up the budget.
    -> (source, names of the tests that cannot terminate, number of tests)"""
    sh, body, lay = c["shapes"], c["body"], c["layout"]
    ok = "test vs_ok%d {\n  assert([1, 2].map(fun(x: Int) { x + 1 }) == [2, 3])\n}\n"
    defs, tests, top, spins = [], [], "", []

    def spin_test(i):
        d, b = _unit(sh[i % len(sh)], body, i)
        defs.append(d)
        tests.append("test vs_spin%d {\n%s\n}\n" % (i, G.indent(b)))
        spins.append("vs_spin%d" % i)

    def top_unit(i, shape=None):
        d, b = _unit(shape or sh[i % len(sh)], body, i)
        defs.append(d)
        return b

    if lay == "P-spin-top":
        spin_test(0)
        top = top_unit(1)
    elif lay == "P-spin-ok-top":
        spin_test(0)
        tests.append(ok % 0)
        top = top_unit(1)
    elif lay == "P-ok-spin-top":
        tests.append(ok % 0)
        spin_test(0)
        top = top_unit(1)
    elif lay == "P-spin-spin-top":
        spin_test(0)
        spin_test(1)
        top = top_unit(2)
    elif lay == "P-spin-rec-top":
        spin_test(0)
        top = top_unit(1, "rec-nontail")
    elif lay in ("P-shared-fun", "S-shared-fun"):
        d, b = _unit(sh[0], body, 0)
        defs.append(d + "fun vs_shared() {\n%s\n}\n" % G.indent(b))
        for i in range(3):
            tests.append("test vs_spin%d {\n  vs_shared()\n}\n" % i)
            spins.append("vs_spin%d" % i)
            if i == 0 and lay == "S-shared-fun":
                tests.append(ok % 0)
        if lay == "P-shared-fun":
            top = "let vs_a = 1 + 1\nvs_shared()\nvs_shared()\n"
    elif lay == "S-spins":
        spin_test(0)
        spin_test(1)
    elif lay == "S-spin-ok-spin":
        spin_test(0)
        tests.append(ok % 0)
        spin_test(1)
        tests.append(ok % 1)
    elif lay == "S-four":
        for i in range(4):
            spin_test(i)
    else:
        raise ValueError(lay)
    return "".join(defs) + "".join(tests) + top, spins, len(tests)


def program(c, w):
    """-> (source, name of the test holding the body or None, number of tests)"""
    if c["t"] == "sequel":
        src, spins, ntests = sequel_program(c)
        return src, None, ntests
    if c["t"] == "nonterm":
        src = G.nonterm_program(c["shape"], G.LOOP_BODIES[c["body"]], c["phase"])
    elif c["t"] == "depth":
        src = "fun vrec(n) {\n  if n == 0 { 0 } else { 1 + vrec(n - 1) }\n}\nvrec(%d)\n" % c["d"]
    elif c["t"] == "builtin":
        b = by_id()[c["b"]]
        src = G.header() + G.call_text(b, G.right_vectors(b)[0], w) + "\n"
    elif c["t"] in ("nest", "moddeep"):
        src = nest_program(c)
    elif c["t"] == "long":
        src = long_program(c["kind"], c["size"])
    elif c["t"] == "corpus":
        src = open(os.path.join(core.VERIF, "corpus", ID, c["file"]), encoding="utf-8").read()
        import re as _re
        names = _re.findall(r"^test (\w+)", src, _re.M)
        return src, (names[0] if names else None), len(names)
    elif c["t"] == "expmem":
        if c["kind"] == "string-double-loop":
            src = "let s = \"abcdefgh\"\nwhile True {\n  s = s ^ s\n}\n"
        else:
            src = "let l = [1, 2, 3, 4]\nwhile True {\n  l = l.concat(l)\n}\n"
    else:
        raise ValueError(c["t"])
    full, tname = G.wrap_mode(src, c["mode"], c["where"])
    ntests = 1 if tname else 0
    extra = c.get("extra_tests", 0)
    if extra and c["mode"] == "sbtest":
        pre = "".join("test va_%d {\n  assert(%d == %d)\n}\n" % (i, i, i) for i in range(extra))
        post = "".join("test vz_%d {\n  let q = [1, 2].map(fun(x: Int) { x + %d })\n}\n" % (i, i) for i in range(extra))
        defs, rest = G.split_defs(full)
        full = full.replace("test vt_main {", pre + "test vt_main {", 1) + post
        ntests += 2 * extra
    return full, tname, ntests


# ------------------------------------------------------------------------------------------ running

def _json_lines(text):
    out = []
    for ln in text.split("\n"):
        ln = ln.strip()
        if not ln.startswith("{"):
            continue
        try:
            out.append(json.loads(ln))
        except ValueError:
            pass
    return out


def _run(c, w, timeout, tag):
    if c["t"] == "imports":
        path, src, _ = import_project(c, os.path.join(w.dir, "proj"))
        tname, ntests = "vt_main", 1
    else:
        src, tname, ntests = program(c, w)
        path = os.path.join(w.dir, "prog.gdn")
        with open(path, "w") as f:
            f.write(src)
    evlog = os.path.join(w.logs, "ev-%s.log" % tag)
    try:
        os.unlink(evlog)
    except OSError:
        pass
    slack = 16 + ntests
    env = dict(w.env())
    env["GDN_VERIF_EVENT_LOG"] = evlog
    env["GDN_VERIF_INTERRUPT_AT"] = ",".join(str(TICK_LIMIT + slack + j) for j in (0, 1, 2, 50, 1000))
    if c["mode"] == "playground":
        args = ["playground-run", path]
    else:
        off = 0
        if c.get("cursor") and tname:
            off = src.index("test %s {" % tname) + 6
        args = ["sandboxed-test", path, str(off)]
    rl = (2 << 30) if c["t"] == "expmem" else None
    t = S.run(args, cwd=w.dir, logdir=w.logs, env=env, timeout=timeout, trace=False, tag=tag, extra_rlimit_as=rl,
              stack_bytes=8 << 20)
    injected = False
    try:
        with open(evlog) as f:
            injected = '"ev":"inject"' in f.read()
        os.unlink(evlog)
    except OSError:
        pass
    return t, src, tname, injected


def observe(c, t, tname):
    """-> dict(kind=value|error|limit-tick|limit-stack|sandboxed|interrupted|none, text=..., printed=..., complete=bool)"""
    lines = _json_lines(t.run.out)
    printed = "".join(j["printed"].get("s", "") for j in lines if isinstance(j.get("printed"), dict))
    if c["mode"] == "playground":
        results = [j for j in lines if "error" in j and "value" in j]
        if not results:
            return {"kind": "none", "printed": printed, "complete": False}
        last = results[-1]
        if tname:
            # the body ran inside a test: playground reports a failed test in a value, without the reason
            first = results[0]
            val = first.get("value") or ""
            if last.get("error") is None and ("Failed: %s" % tname) in val:
                return {"kind": "test-failed", "text": val[:200], "printed": printed, "complete": True}
            if last.get("error") is None:
                return {"kind": "value", "text": val[:200], "printed": printed, "complete": True}
        err = last.get("error")
        if err is None:
            return {"kind": "value", "text": (last.get("value") or "")[:200], "printed": printed, "complete": True}
        kind = {TICK_ERR: "limit-tick", STACK_ERR: "limit-stack", "Interrupted": "interrupted",
                "Tried to execute unsafe code in sandboxed mode": "sandboxed"}.get(err, "error")
        return {"kind": kind, "text": err[:200], "printed": printed, "complete": True}
    docs = [j for j in lines if "tests" in j and "description" in j]
    if not docs:
        return {"kind": "none", "printed": printed, "complete": False}
    d = docs[-1]
    if d["description"] == "Parse error":
        return {"kind": "parse-error", "printed": printed, "complete": True}
    if c["t"] == "sequel":
        _, spins, _ = sequel_program(c)
        descs = {n: (d["tests"].get(n) or {}).get("description") for n in spins}
        bad = [(n, x) for n, x in sorted(descs.items()) if x != "exceeded resource limit"]
        if not bad:
            return {"kind": "limit", "text": d["description"][:200], "printed": printed, "complete": True}
        n, x = bad[0]
        kind = "no-test" if x is None else "interrupted" if x == "interrupted" else "value" if x == "passed" else "error"
        return {"kind": kind, "text": "%s: %s" % (n, x), "printed": printed, "complete": True,
                "summary": d["description"]}
    desc = (d["tests"].get(tname or "", {}) or {}).get("description")
    if desc is None:
        return {"kind": "no-test", "text": d["description"], "printed": printed, "complete": True}
    kind = {"passed": "value", "exceeded resource limit": "limit", "sandboxed": "sandboxed",
            "interrupted": "interrupted"}.get(desc, "error")
    return {"kind": kind, "text": desc[:200], "printed": printed, "complete": True, "summary": d["description"]}


def size_class(c):
    if c["t"] == "nest":
        d = c["n"] * c["k"] * LEVELS_PER_STEP.get(c["ctor"], 1)
        return "d<1e3" if d < 1000 else "d<3e3" if d < 3000 else "d<1e4" if d < 10000 else "d<3e4" if d < 30000 else "d>=3e4"
    if c["t"] == "depth":
        return "d<=900" if c["d"] <= 900 else "d>=1100" if c["d"] >= 1100 else "d~1000"
    if c["t"] == "long":
        return str(c["size"])
    return ""


def what(c):
    if c["t"] == "nonterm":
        return "%s body%d" % (c["shape"], c["body"])
    if c["t"] == "sequel":
        return "%s %s" % (c["layout"], "+".join(x.split("-")[0] for x in c["shapes"][:3]))
    if c["t"] == "imports":
        return "%s w%d d%s" % (c["layout"], c["width"], "<=12" if c["depth"] <= 12 else "<=20" if c["depth"] <= 20
                               else "<=26" if c["depth"] <= 26 else ">26")
    if c["t"] == "nest":
        return "%s %s" % (c["ctor"], c["op"])
    if c["t"] == "moddeep":
        return "%s %s d%s" % (c["ctor"], c["op"], "<=50" if c["n"] <= 50 else "<=120" if c["n"] <= 120 else "<=200")
    if c["t"] == "builtin":
        return c["b"]
    if c["t"] in ("long", "expmem"):
        return c["kind"]
    if c["t"] == "corpus":
        return c["file"]
    return ""


def judge(c, t, tname, injected, src):
    o = observe(c, t, tname)
    cls = t.run.cls
    base = "%s %s %s %s %s" % (c["t"], c["mode"], c["where"], what(c), size_class(c))
    detail = {"src": src if len(src) < 1500 else src[:700] + "\n...\n" + src[-700:], "observed": o,
              "rc": t.run.rc, "cls": cls, "stderr": t.run.err[-500:], "stdout_tail": t.run.out[-300:],
              "wall": round(t.wall, 2)}

    def res(status, outcome, sig=None):
        r = {"status": status, "key": None if status == "inconclusive" else "%s -> %s" % (base, outcome)}
        if sig:
            r["sig"] = sig
        if status != "held":
            r["detail"] = detail
        return r

    if injected:
        return res("violated", "past-budget", "tick-budget-exceeded:%s" % c["mode"])
    if t.blocked:
        return res("violated", "blocked", "blocked-on-stdin:%s" % (c.get("b") or c["t"]))
    if cls in core.CRASH or cls.startswith("signal"):
        if c["t"] == "expmem" and "memory allocation" in t.run.err:
            return res("held", "obs:alloc-failure")
        if "has overflowed its stack" in t.run.err:
            if c["t"] == "nest":
                # phase "?" is resolved by run_batch with a differential run (same program without the operation)
                phase = "drop" if o["complete"] else "?"
                return res("violated", "stack-overflow:" + phase, "abort:stack-overflow:" + phase)
            phase = "drop" if o["complete"] else c["t"]
            if c["t"] == "corpus" and c["file"].startswith("deep_"):
                phase = c["file"][5:].split(".")[0]
            return res("violated", "stack-overflow:" + phase, "abort:stack-overflow:" + phase)
        if "memory allocation" in t.run.err:
            return res("violated", "alloc-abort", "abort:alloc:%s" % c["t"])
        return res("violated", "crash", "%s:%s" % (c["t"], core.crash_sig(t.run)))
    if t.run.timed_out:
        return res("inconclusive", "watchdog")
    if not o["complete"]:
        return res("violated", "no-result", "no-result:%s:%s" % (c["mode"], cls))
    if o["kind"] == "interrupted":
        return res("violated", "interrupted", "tick-budget-exceeded:%s" % c["mode"])
    if o["kind"] == "parse-error":
        return res("inconclusive", "parse-error")
    k = o["kind"]
    if c["t"] == "nonterm":
        ok = k in ("limit-tick", "limit-stack", "limit", "test-failed")
        if not ok:
            return res("violated", k, "nonterminating-program-returned:%s:%s" % (k, c["mode"]))
    elif c["t"] == "sequel":
        # playground: the toplevel unit that follows the tests cannot terminate -> the run's final result must be
        # a limit error; sandboxed-test: every looping test must be reported as over its resource limit
        if k not in ("limit-tick", "limit-stack", "limit"):
            return res("violated", k, "nonterminating-unit-after-exhausted-budget-returned:%s:%s" % (k, c["mode"]))
    elif c["t"] == "depth":
        lim = k in ("limit-stack", "limit", "test-failed")
        if c["d"] <= 900 and k != "value":
            return res("violated", k, "stack-limit-too-low:%s" % c["mode"])
        if c["d"] >= 1100 and not lim:
            return res("violated", k, "stack-limit-not-enforced:%s" % c["mode"])
    elif c["t"] == "expmem":
        return res("held", "obs:" + k)
    return res("held", k)


def run_batch(cases):
    tier = _TIER[0]
    base_to = BASE_TIMEOUT.get(tier, 15.0)
    res = []
    reran = False
    with core.Scratch("gm-c25-") as sc:
        w = G.World(sc, os.urandom(4).hex())
        for i, c in enumerate(cases):
            case_to = IMPORT_TIMEOUT if c["t"] == "imports" else MODDEEP_TIMEOUT if c["t"] == "moddeep" else base_to
            t, src, tname, injected = _run(c, w, case_to, "c%d" % i)
            r = judge(c, t, tname, injected, src)
            if r["status"] == "inconclusive" and t.run.timed_out:
                if reran:
                    r["detail"]["note"] = "watchdog; not re-run (one 10x re-run per batch)"
                else:
                    reran = True
                    mult = 1
                    t2, src, tname, injected = _run(c, w, case_to * mult * 10, "r%d" % i)
                    r = judge(c, t2, tname, injected, src)
                    if r["status"] == "inconclusive" and t2.run.timed_out:
                        state = t2.state_at_kill
                        r = {"status": "violated", "key": "%s %s %s -> hang" % (c["t"], c["mode"], what(c)),
                             "sig": ("no-result:import-graph" if c["t"] == "imports" else
                                     "no-result:moderately-deep-display" if c["t"] == "moddeep" else
                                     "no-result-within-10x-budget:%s:%s" % (c["t"], what(c).split(" ")[-1])),
                             "detail": dict(r["detail"], state_at_kill=state, budget_s=case_to * mult * 10)}
                    elif r["status"] == "held":
                        r["key"] = r["key"] + " (slow)"
            if r.get("sig") == "abort:stack-overflow:?":
                # differential attribution: does the program without the operation overflow as well?
                t3, _, tn3, _ = _run(dict(c, op="none"), w, base_to, "d%d" % i)
                if "has overflowed its stack" in t3.run.err:
                    # not the operation: the value is dropped at the end of the test / at exit - unless a
                    # playground run never got as far as the marker printed after the building loop
                    built = c["mode"] != "playground" or c["where"] == "test" or \
                        "VB" in r["detail"]["observed"].get("printed", "")
                    phase = "drop" if built else "build"
                else:
                    phase = NEST_OPCLASS[c["op"]]
                    if c["op"] == "final-value" and c["mode"] == "sbtest":
                        phase = "drop"
                r["sig"] = "abort:stack-overflow:" + phase
                r["key"] = r["key"].replace("stack-overflow:?", "stack-overflow:" + phase)
                r["detail"]["phase_by_differential_run"] = phase
            res.append(r)
    return res
