"""C07 Resuming after a runtime error reproduces the same error.

One JSON session (`garden reftest-json-session`, many histories per process, `:abort` between them):
    setup definitions, E -> r1 (error), `:resume` x3 -> r2, r3, r4, `:abort`
Oracle (metamorphic, nothing about the interpreter is transcribed): r2 = r3 = r4 on (message, position); r2 agrees
with r1 on position and message (assertion failures: r1 says "Assertion failed" and carries the detailed text in
`stack`, so r2's message must occur in r1's stack text). A resume that crashes the session or that succeeds although
nothing changed is a violation too. Every violation seen in the batch is re-run alone in a fresh session and only
reported if it reproduces there (so an earlier history can never be the cause).
"""
import itertools
import random

from .. import core
from ..gen import c_errsites as sites
from ..gen import c_sess
from ..gen import c_vocab

ID = "C07"
LEVEL = "exploration"
RULE = ("case = (error site, context): sites are every built-in function/method read from src/__*.gdn x wrong-typed "
        "argument/receiver position x value pool x arity -1/+1/+2, every operator x wrong operand side, documented value "
        "errors, user function/method/closure arity and hint errors, let/assign/for/while/if/match/struct/dot/namespace/"
        "dict/assert/throw errors; contexts: bare, operand, list item, call/method argument, let initialiser, function at "
        "depth 2, loops, if branch, match arm, closure, method body, block, test body. Core subset x rotating contexts "
        "first, then a seeded random stream over the full product. distinct key = (site class, construct, context, "
        "error template of r1); cases whose first evaluation does not fail are trivial (no key)")
ASSUME = ["`:abort` separates histories inside one process; every violation is confirmed alone in a fresh session",
          "the first evaluation of a site is deterministic"]
BATCH = 120
FLOOR = {"quick": 300, "thorough": 1500}
BUDGET = {"quick": 40, "thorough": 780}

N_RESUME = 3


def gen_cases(tier, seed):
    vocab = c_vocab.vocabulary()
    n = 0
    core_s = sites.core_sites(vocab)
    # every core site in a rotating context (all contexts for language sites)
    for i, s in enumerate(core_s):
        ctxs = sites.contexts_for(s)
        if s["cls"] in ("builtin-fun", "builtin-method", "operator"):
            picks = [ctxs[(i + seed) % len(ctxs)], "bare"] if tier == "quick" else ctxs
        else:
            picks = ctxs
        for c in dict.fromkeys(picks):
            n += 1
            yield {"site": s, "ctx": c, "n": n}
    yield {"_marker": "core-sites", "sites": len(core_s),
           "space": "every language/value-error site x every context; per built-in/operator position one wrong-typed value"}
    if tier == "thorough":
        for s in sites.all_sites(vocab):
            n += 1
            yield {"site": s, "ctx": "bare", "n": n}
        yield {"_marker": "all-sites-bare", "sites": len(sites.all_sites(vocab))}
    for s, c in sites.stream(seed, vocab):
        n += 1
        yield {"site": s, "ctx": c, "n": n}


def template(msg):
    return core.norm_msg(msg or "")[:70]


def requests_for(case, scratch_dir):
    setup, run = sites.embed(case["site"], case["ctx"], case["n"])
    sub = lambda s: s.replace("@S@", scratch_dir)
    return [sub(x) for x in setup], sub(run)


def judge(case, r1, rs):
    """r1, rs = summaries. -> (status, key, sig, detail)"""
    site = case["site"]
    label = "%s:%s" % (site["cls"], site["name"].split("#")[0])
    if r1[0] != "err":
        return "held", None, None, None
    key = "%s %s %s | %s" % (site["cls"], site["name"].split(":")[0] if site["cls"] != "operator" else site["name"],
                            case["ctx"], template(r1[1]))
    c1 = c_sess.err_core(r1)
    detail = {"r1": c_sess.brief(r1), "resumes": [c_sess.brief(x) for x in rs]}
    cores = []
    for x in rs:
        if x[0] == "crash":
            return "violated", key, "resume-crash:%s:%s" % (site["cls"], x[1]), detail
        if x[0] != "err":
            return "violated", key, "resume-not-error:%s" % label, detail
        cores.append(c_sess.err_core(x))
    if any(c != cores[0] for c in cores[1:]):
        return "violated", key, "resume-unstable:%s" % label, detail
    c2 = cores[0]
    if c2[1] != c1[1]:
        return "violated", key, "resume-changes-position:%s" % label, detail
    if c2[0] != c1[0]:
        lenient = r1[1] == "Assertion failed" and c2[0] and r1[3] and c2[0] in r1[3]
        if not lenient:
            return "violated", key, "resume-changes-error:%s" % label, detail
    return "held", key, None, None


def run_histories(cases, sc, isolate=False):
    """-> list of (r1, [r2..]) per case, or None for a case that could not be run (setup failed / lost)."""
    out = [None] * len(cases)
    start = 0
    while start < len(cases):
        reqs = [c_sess.run(x.replace("@S@", sc.dir)) for x in sites.PRELUDE]
        spans = []
        for c in cases[start:]:
            setup, run = requests_for(c, sc.dir)
            a = len(reqs)
            reqs += [c_sess.run(x) for x in setup]
            b = len(reqs)
            reqs.append(c_sess.run(run))
            reqs += [c_sess.run(":resume")] * N_RESUME
            reqs.append(c_sess.run(":abort"))
            spans.append((a, b))
        s = c_sess.run_script(reqs, sc, timeout=180)
        n = len(s.resps)
        restart = None
        for j, (a, b) in enumerate(spans):
            i = start + j
            if b >= n:      # the failing evaluation itself got no answer
                if s.crashed_at is not None and a <= s.crashed_at <= b:
                    out[i] = {"first_crash": c_sess.crash_info(s)}
                    restart = i + 1
                break
            setup_ok = all(s.summary(k)[0] == "ok" for k in range(a, b))
            r1 = s.summary(b)
            rs = []
            for k in range(b + 1, b + 1 + N_RESUME):
                if k < n:
                    rs.append(s.summary(k))
                else:
                    rs.append(c_sess.crash_info(s))
                    restart = i + 1
                    break
            out[i] = {"r1": r1, "rs": rs, "setup_ok": setup_ok}
            if restart is not None:
                break
            if b + 1 + N_RESUME >= n:   # the :abort got no answer
                restart = i + 1
                break
        if restart is None:
            break
        start = restart
    return out


def run_batch(cases):
    res = []
    with core.Scratch("gm-c07-") as sc:
        hs = run_histories(cases, sc)
        confirmed = set()
        for c, h in zip(cases, hs):
            if h is None:
                res.append({"status": "inconclusive", "key": None, "detail": {"note": "history not reached"}})
                continue
            if "first_crash" in h:
                res.append({"status": "inconclusive", "key": None,
                            "detail": {"note": "first evaluation (not a resume) killed the session - C02's domain",
                                       "crash": h["first_crash"][:2]}})
                continue
            if not h["setup_ok"]:
                res.append({"status": "inconclusive", "key": None, "detail": {"note": "setup definition failed", "r1": c_sess.brief(h["r1"])}})
                continue
            st, key, sig, detail = judge(c, h["r1"], h["rs"])
            if st == "violated" and sig in confirmed:
                res.append({"status": "violated", "key": key, "sig": sig, "detail": dict(detail, note="same signature confirmed alone for an earlier history of this batch")})
                continue
            if st == "violated":
                # confirm alone in a fresh session
                h2 = run_histories([c], sc)[0]
                if h2 is None or "first_crash" in h2 or not h2.get("setup_ok"):
                    res.append({"status": "inconclusive", "key": key, "detail": {"note": "violation in batch, could not re-run alone", "batch": detail}})
                    continue
                st2, key2, sig2, detail2 = judge(c, h2["r1"], h2["rs"])
                if st2 != "violated":
                    res.append({"status": "inconclusive", "key": key, "detail": {"note": "violation only after earlier histories in the same process", "batch": detail, "sig": sig}})
                    continue
                setup, run = requests_for(c, "@S@")
                detail2["history"] = setup + [run] + [":resume"] * N_RESUME
                confirmed.add(sig2)
                res.append({"status": "violated", "key": key2, "sig": sig2, "detail": detail2})
            else:
                res.append({"status": st, "key": key})
    return res
