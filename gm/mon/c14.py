"""C14 Subtyping is a preorder with the documented variance.

The real `is_subtype` is evaluated in-process (`types` op of `garden verif-batch`) on finite,
subterm-closed universes U of well-formed, error-free types; one case = one row of the N x N matrix R.
For the row of type a the oracle checks
  (1) R[a][b] == ref.subtype(a, b) for every b in U             (gm/ref/dtypes.py, from the documentation)
  (2) R[a][a]
  (3) for every b with R[a][b]: row(b) is a subset of row(a)      (boolean matrix product R.R <= R)
  (4) R[a][Any] and R[NoValue][a]
  (5) variance laws on R itself, independent of the reference: for every b in U with the same
      constructor and arity as a, R[a][b] == AND_i R[a_i][b_i] (tuples, nominal types),
      R[a][b] == AND_i R[b_i][a_i] and R[a_ret][b_ret] (functions).
"""
import functools
import json
import random

from .. import core
from ..ref import dtypes as T

ID = "C14"
LEVEL = "exploration"
TECHNIQUE = "runtime-monitoring"
RULE = ("case = one row (type a) of the real subtype matrix over a subterm-closed universe U; universes: all 761 "
        "types of depth <= 1 over {Any,NoValue,Unit,Bool,Int,String,T,U; List,Option,Dict,Box,Result; tuples 0..2; "
        "Fun 0..2} exhaustively (all pairs, all triples by matrix product), then seeded universes of 384 types made "
        "of families of perturbed variants of random skeletons of depth <= 2 (quick) / <= 3 (thorough); distinct key "
        "= (constructor of a with the constructors of its components, depth, which of the laws 1-5 had a "
        "non-vacuous instance in the row, bucketed number of supertypes and subtypes in U)")
ASSUME = ["gm/ref/dtypes.py is a faithful reading of the property text and the doc comments of the Type enum",
          "the JSON type decoder of the hook builds the Type values the checker would build from the same hints "
          "(cross-checked through the printed form of every type)"]
N_RANDOM = 384
BATCH = N_RANDOM
FLOOR = {"quick": 150, "thorough": 400}
BUDGET = {"quick": 35, "thorough": 600}


def gen_cases(tier, seed):
    n = len(T.depth1_universe())
    for i in range(n):
        yield {"u": {"k": "d1"}, "row": i}
    yield {"_marker": "depth<=1", "types": n, "pairs": n * n,
           "space": "all types of depth <= 1 over the signature; all pairs; all triples via R.R <= R"}
    d = 2 if tier == "quick" else 3
    k = 0
    while True:
        dd = d if k % 3 else 2
        spec = {"k": "fam", "seed": seed * 1000003 + k, "n": N_RANDOM, "d": dd}
        for i in range(N_RANDOM):
            yield {"u": spec, "row": i}
        k += 1


@functools.lru_cache(maxsize=8)
def universe(spec_key):
    spec = json.loads(spec_key)
    if spec["k"] == "d1":
        return tuple(T.depth1_universe())
    if spec["k"] == "fam":
        return tuple(T.family_universe(random.Random(spec["seed"]), spec["n"], spec["d"]))
    if spec["k"] == "explicit":
        us = []
        for j in spec["types"]:
            t = T.from_json(j)
            if t is None:
                raise core.HarnessError("explicit universe contains an unparseable type")
            us.append(t)
        return tuple(us)
    raise core.HarnessError("unknown universe spec %r" % (spec,))


def bucket(n):
    if n <= 3:
        return str(n)
    return "2^%d" % (n.bit_length() - 1)


def explicit_case(types, row=0):
    return {"u": {"k": "explicit", "types": [T.to_json(t) for t in types]}, "row": row}


def close(types):
    """Subterm-closed list containing `types` first (so row indices survive)."""
    out, seen = [], set()
    for t in types:
        if t not in seen:
            seen.add(t)
            out.append(t)
    for t in list(out):
        for s in sorted(T.subterms(t), key=repr):
            if s not in seen:
                seen.add(s)
                out.append(s)
    for a in (T.ANY, T.NOVALUE):
        if a not in seen:
            seen.add(a)
            out.append(a)
    return out


def run_batch(cases):
    groups = {}
    for i, c in enumerate(cases):
        groups.setdefault(json.dumps(c["u"], sort_keys=True), []).append(i)
    keys = list(groups)
    unis = [universe(k) for k in keys]
    resps = core.batch([{"op": "types", "types": [T.to_json(t) for t in u], "unify": False} for u in unis],
                       timeout=300)
    res = [None] * len(cases)
    for k, u, resp in zip(keys, unis, resps):
        idxs = groups[k]
        if resp is None or "crash" in resp or "subtype" not in resp:
            for i in idxs:
                if resp and resp.get("crash") in core.CRASH:
                    res[i] = {"status": "violated", "key": None,
                              "sig": "crash:" + core.panic_sig(resp.get("stderr", "")),
                              "detail": {"what": "evaluating the subtype matrix crashed", "resp": resp}}
                else:
                    res[i] = {"status": "inconclusive", "key": None, "detail": {"resp": resp}}
            continue
        rows = resp["subtype"]
        n = len(u)
        disp = resp.get("display", [])
        bad_disp = [j for j in range(n) if j < len(disp) and disp[j] != T.show(u[j])]
        if len(rows) != n or bad_disp:
            for i in idxs:
                res[i] = {"status": "inconclusive", "key": None,
                          "detail": {"what": "hook decoded a type differently from the model",
                                     "examples": [(disp[j], T.show(u[j])) for j in bad_disp[:3]]}}
            continue
        bits = [int(r[::-1], 2) for r in rows]           # bit j of bits[i] <=> R[i][j]
        index = {t: j for j, t in enumerate(u)}
        for i in idxs:
            res[i] = check_row(cases[i], u, rows, bits, index)
    return res


def check_row(case, u, rows, bits, index):
    i = case["row"]
    n = len(u)
    if i >= n:
        return {"status": "inconclusive", "key": None, "detail": {"what": "row out of range"}}
    a = u[i]
    row = rows[i]
    laws = set()

    def viol(sig, what, types, **extra):
        d = {"what": what, "types": [T.show(t) for t in types]}
        d.update(extra)
        return {"status": "violated", "key": None, "sig": sig, "detail": d,
                "case": explicit_case(close(types))}

    # (2) reflexivity
    if row[i] != "1":
        return viol("not-reflexive:%s" % T.head(a), "a <: a is false", [a])
    # (4) top and bottom
    ia, inv = index.get(T.ANY), index.get(T.NOVALUE)
    if ia is not None:
        laws.add("top")
        if row[ia] != "1":
            return viol("any-not-top:%s" % T.head(a), "a <: Any is false", [a, T.ANY])
    if inv is not None:
        laws.add("bot")
        if rows[inv][i] != "1":
            return viol("novalue-not-bottom:%s" % T.head(a), "NoValue <: a is false", [T.NOVALUE, a])
    # (1) agreement with the reference
    nsup = 0
    for j in range(n):
        real = row[j] == "1"
        nsup += real
        if real != T.subtype(a, u[j]):
            return viol("subtype-mismatch:%s<:%s:real=%d" % (T.head(a), T.head(u[j]), real),
                        "real relation differs from the reference", [a, u[j]], real=real, reference=not real)
    # (3) transitivity: a <: b and b <: c imply a <: c
    ra = bits[i]
    x = ra & ~(1 << i)
    while x:
        low = x & -x
        j = low.bit_length() - 1
        x ^= low
        miss = bits[j] & ~ra
        if miss:
            c = (miss & -miss).bit_length() - 1
            return viol("not-transitive:%s<:%s<:%s" % (T.head(a), T.head(u[j]), T.head(u[c])),
                        "a <: b and b <: c but not a <: c", [a, u[j], u[c]])
        if bits[j] != ra:
            laws.add("trans")
    # (5) variance, on R itself
    ka = a[0]
    comps = T.children(a)
    if comps and all(c in index for c in comps):
        ha = T.head(a)
        ci = [index[c] for c in comps]
        for j in range(n):
            b = u[j]
            if b[0] != ka or T.head(b) != ha:
                continue
            cb = T.children(b)
            if not all(c in index for c in cb):
                continue
            cj = [index[c] for c in cb]
            if ka == "fun":
                exp = all(rows[q][p] == "1" for p, q in zip(ci[:-1], cj[:-1])) and rows[ci[-1]][cj[-1]] == "1"
            else:
                exp = all(rows[p][q] == "1" for p, q in zip(ci, cj))
            laws.add("var")
            if exp != (row[j] == "1"):
                return viol("variance:%s" % ha, "R[a][b] differs from the componentwise relation on R",
                            [a, b], real=row[j] == "1", componentwise=exp)
    nsub = sum(1 for r in rows if r[i] == "1")
    key = "%s(%s) d%d %s sup=%s sub=%s" % (T.head(a), ",".join(T.head(c) for c in comps), T.depth(a),
                                            "+".join(sorted(laws)), bucket(nsup), bucket(nsub))
    return {"status": "held", "key": key}
