"""C04 Integer and float operators follow the documented arithmetic.

Oracle: gm.ref.arith (Python big ints reduced to i64; IEEE doubles). Every case is one expression
evaluated by the real interpreter through the JSON session; printed value / exception is compared.
"""
import math
import random

from .. import session
from ..ref import arith

ID = "C04"
LEVEL = "exploration"
RULE = ("cases = (operator, lhs, rhs, form) with form in {binop, += / -= twin}; boundary set B x B x all 14 integer "
        "operators and both compound assignments exhaustively, then random i64 pairs and finite double pairs; "
        "distinct key = (form, operator, magnitude class of lhs, magnitude class of rhs, outcome class)")
ASSUME = ["reference model gm/ref/arith.py is a faithful reading of website/operator:*.md and the property text",
          "Rust's decimal float parser is correctly rounded (float literals are exact decimal expansions)"]
BATCH = 400
FLOOR = {"quick": 200, "thorough": 400}
BUDGET = {"quick": 40, "thorough": 600}

MIN, MAX = arith.MIN, arith.MAX
B = sorted(set([0, 1, -1, 2, -2, 3, -3, 7, -7, 10, 62, 63, 64, 65, MIN, MIN + 1, MIN + 2, MAX, MAX - 1, MAX - 2,
                1 << 31, -(1 << 31), (1 << 31) - 1, 1 << 32, -(1 << 32), (1 << 32) - 1, (1 << 32) + 1,
                1 << 62, -(1 << 62), (1 << 62) - 1, 3037000499, 3037000500, -3037000500, 2097151, 2097152,
                MAX // 2, MAX // 2 + 1, MIN // 2, MIN // 2 - 1, MAX // 3, 4294967295, 4294967296]))

FB = [0.0, -0.0, 1.0, -1.0, 0.5, 0.1, 0.2, 0.3, 1.5, 2.0, 3.0, 10.0, 1e-5, 1e15, 1e16, 9007199254740992.0,
      9007199254740993.0, 1e22, 1e23, 1.7976931348623157e308, -1.7976931348623157e308, 2.2250738585072014e-308,
      5e-324, 1e-320, 1e300, 1e-300, 123456.789, 0.3333333333333333, 4503599627370496.5, 1e100]


def mag(n):
    if n == 0:
        return "0"
    s = "-" if n < 0 else "+"
    a = abs(n)
    if a <= 3:
        return s + str(a)
    if a >= (1 << 63) - 2:
        return s + "edge"
    return s + "2^%d" % (a.bit_length() // 8 * 8)


def fmag(x):
    if x == 0:
        return "0"
    return ("-" if x < 0 else "+") + "e%d" % (int(math.floor(math.log10(abs(x)))) // 50 * 50)


def gen_cases(tier, seed):
    for op in arith.INT_OPS:
        for a in B:
            for b in B:
                yield {"t": "int", "op": op, "a": a, "b": b}
    for op in ("+", "-"):
        for a in B:
            for b in B:
                yield {"t": "upd", "op": op, "a": a, "b": b}
    for op in arith.FLOAT_OPS:
        for a in FB:
            for b in FB:
                yield {"t": "float", "op": op, "a": a, "b": b}
    yield {"_marker": "boundary-grid", "ints": len(B), "floats": len(FB),
           "space": "B x B x 14 int ops + B x B x {+=,-=} + FB x FB x 4 float ops"}
    rng = random.Random(seed * 7919 + 4)
    while True:
        k = rng.random()
        if k < 0.55:
            op = rng.choice(arith.INT_OPS)
            a = rand_int(rng)
            b = rand_int(rng) if op != "**" else rng.choice([rng.randint(-3, 70), rand_int(rng)])
            yield {"t": "int", "op": op, "a": a, "b": b}
        elif k < 0.7:
            yield {"t": "upd", "op": rng.choice("+-"), "a": rand_int(rng), "b": rand_int(rng)}
        else:
            yield {"t": "float", "op": rng.choice(arith.FLOAT_OPS), "a": rand_float(rng), "b": rand_float(rng)}


def rand_int(rng):
    k = rng.random()
    if k < 0.25:
        return rng.choice(B)
    if k < 0.5:
        return rng.randint(-100, 100)
    if k < 0.75:
        bits = rng.randint(1, 63)
        v = rng.getrandbits(bits)
        return -v if rng.random() < 0.5 else v
    return rng.choice([MIN, MAX]) + rng.randint(0, 1000) * (1 if rng.random() < 0.5 else -1) if False else \
        max(MIN, min(MAX, rng.choice([MIN, MAX, 0]) + rng.randint(-1000, 1000)))


def rand_float(rng):
    k = rng.random()
    if k < 0.2:
        return rng.choice(FB)
    if k < 0.6:
        return round(rng.uniform(-1000, 1000), rng.randint(0, 6))
    import struct
    while True:
        x = struct.unpack("<d", struct.pack("<Q", rng.getrandbits(64)))[0]
        if math.isfinite(x) and (x == 0 or 1e-200 < abs(x) < 1e200):
            return x


def lit(n):
    return str(n)


def source(c):
    if c["t"] == "int":
        return "%s %s %s" % (lit(c["a"]), c["op"], lit(c["b"]))
    if c["t"] == "upd":
        return "let verif_x = %s verif_x %s= %s verif_x" % (lit(c["a"]), c["op"], lit(c["b"]))
    return "%s %s %s" % (arith.float_lit(c["a"]), c["op"], arith.float_lit(c["b"]))


def expected(c):
    if c["t"] in ("int", "upd"):
        return arith.int_op(c["op"], c["a"], c["b"])
    return arith.float_op(c["op"], c["a"], c["b"])


def run_batch(cases):
    srcs = [source(c) for c in cases]
    outs = session.eval_many(srcs, timeout=120)
    res = []
    for c, src, o in zip(cases, srcs, outs):
        exp = expected(c)
        r = o["res"]
        mg = (fmag if c["t"] == "float" else mag)
        key = "%s %s %s %s %s" % (c["t"], c["op"], mg(c["a"]), mg(c["b"]), exp[0])
        detail = {"src": src, "expected": exp, "observed": r[:2]}
        if r[0] in ("crash",):
            res.append({"status": "violated", "key": key, "sig": "crash:" + r[1], "detail": dict(detail, stderr=r[2])})
            continue
        if r[0] in ("timeout", "lost"):
            res.append({"status": "inconclusive", "key": None, "detail": detail})
            continue
        ok = False
        sig = None
        if exp[0] == "exc":
            ok = r[0] == "err" and str(r[1]).startswith("Exception:")
            sig = "value-instead-of-exception:%s" % c["op"]
            # huge exponents: Garden refuses exponents above u32::MAX; documented nowhere, tolerated
        elif exp[0] in ("int", "bool"):
            if c["t"] == "int" and c["op"] == "**" and c["b"] > 0xFFFFFFFF and r[0] == "err":
                ok = True
            else:
                ok = r[0] == "ok" and r[1] == arith.show(exp)
            sig = "wrong-result:%s:%s" % (c["t"], c["op"]) if r[0] == "ok" else "unexpected-error:%s:%s" % (c["t"], c["op"])
        else:
            x = exp[1]
            if not math.isfinite(x):
                ok = r[0] in ("ok", "err")
                key = key + " nonfinite"
            else:
                try:
                    got = float(r[1]) if r[0] == "ok" else None
                except (TypeError, ValueError):
                    got = None
                ok = got is not None and arith.bits(got) == arith.bits(x)
            sig = "wrong-result:float:%s" % c["op"] if r[0] == "ok" else "unexpected-error:float:%s" % c["op"]
        if ok:
            res.append({"status": "held", "key": key})
        else:
            res.append({"status": "violated", "key": key, "sig": sig, "detail": detail})
    return res
