"""C16 Programs that pass `check` raise no runtime type errors.

Fully annotated generated programs (gm/gen/prog.py), unmutated and with ONE type-breaking mutation at a
position the checker is responsible for (argument, operand, annotated let, return value, condition, arity,
unknown variable / method / field, deleted match arm ...). Only programs for which `garden check --json`
reports no `severity: error` are run; a run that then ends in a type-related runtime error refutes the
property. Signature = (mutation site kind, runtime error template), so that a checker rule that stops
rejecting some construct shows up as a new signature.
"""
import copy
import json
import random
import re

from .. import core
from ..gen import prog as G
from ..gen import printer

ID = "C16"
LEVEL = "exploration"
RULE = ("cases = fully annotated seeded programs x {unmutated, one mutation out of ~45 site kinds incl. a wrong left / right operand of each of the 15 typed binary operators}; only check-clean "
        "(no severity:error) survivors are executed; distinct key = (site kind, check verdict, runtime outcome class)")
ASSUME = ["generated unmutated programs are well typed by construction",
          "type-related runtime errors are recognised by the message templates listed in TEMPLATES"]
BATCH = 6
FLOOR = {"quick": 15, "thorough": 25}
BUDGET = {"quick": 45, "thorough": 840}
E = G.E
INT, BOOL, STR, UNIT = G.INT, G.BOOL, G.STR, G.UNIT

TEMPLATES = [
    ("expected-type", re.compile(r"Expected `[^`]*` but .* has type|Expected `(Int|Bool|String|Float|List|Option|Result|Tuple)[^`]*` but got `Unit`")),
    ("arity", re.compile(r"requires \d+ argument|expects \d+ argument|Closure expects|takes \d+ argument")),
    ("no-such-variable", re.compile(r"No such variable")),
    ("not-bound", re.compile(r"is not currently bound")),
    ("no-method", re.compile(r"no method named")),
    ("no-field", re.compile(r"has no field|does not have a field")),
    ("match-fallthrough", re.compile(r"No cases in this `match`")),
    ("bad-pattern", re.compile(r"Patterns must be|Expected an enum value|Expected an enum variant|Expected a tuple")),
    ("unbound-hint", re.compile(r"Unbound type in hint")),
    ("struct-literal", re.compile(r"Incorrect type for field|Missing fields|is not a struct")),
    ("not-callable", re.compile(r"Expected `Fun|Expected a function|is not a function")),
]


def classify_err(line):
    for name, rx in TEMPLATES:
        if rx.search(line):
            return name
    return None


# ---- exhaustive small scope: one wrong operand of every typed binary operator --------------------------------
OPSNIP_OPS = [(op, "Int") for op in ("+", "-", "*", "/", "%", "**", "&", "|", "<", "<=", ">", ">=")] + \
             [("&&", "Bool"), ("||", "Bool"), ("^", "String")] + [(op, "Float") for op in ("+.", "-.", "*.", "/.")]
OPSNIP_LIT = {"Int": "3", "Bool": "True", "String": "\"w\"", "Float": "1.5", "List<Int>": "[1]", "Option<Int>": "Some(1)"}
OPSNIP_GOOD = {"Int": "2", "Bool": "(1 < 2)", "String": "\"g\"", "Float": "2.0"}
OPSNIP_WRAPS = ["literal", "generic-call", "typed-call", "variable", "parameter"]


def opsnip_cases(tier="thorough"):
    for op, ty in OPSNIP_OPS:
        for side in ("l", "r"):
            wtys = [w for w in OPSNIP_LIT if w != ty]
            if tier == "quick":
                wtys = [w for w in wtys if w in ("String", "Int", "List<Int>", "Bool")][:3]
            for wty in wtys:
                for wrap in (OPSNIP_WRAPS if tier != "quick" else ("literal", "typed-call", "parameter")):
                    yield {"opsnip": [op, ty, side, wty, wrap]}


def opsnip_source(op, ty, side, wty, wrap):
    lit = OPSNIP_LIT[wty]
    pre, params, args = "", "", ""
    if wrap == "literal":
        bad = lit
    elif wrap == "generic-call":
        bad = "verif_id(%s)" % lit
    elif wrap == "typed-call":
        pre = "fun verif_w(): %s {\n  %s\n}\n\n" % (wty, lit)
        bad = "verif_w()"
    elif wrap == "variable":
        bad = "verif_v"
    else:
        bad = "verif_p"
        params, args = "verif_p: %s" % wty, lit
    good = OPSNIP_GOOD[ty]
    e = "%s %s %s" % ((bad, op, good) if side == "l" else (good, op, bad))
    body = ("  let verif_v: %s = %s\n" % (wty, lit) if wrap == "variable" else "") + "  println(string_repr(%s))\n" % e
    return ("fun verif_id<T>(x: T): T {\n  x\n}\n\n" + pre + "fun verif_host(%s): Unit {\n%s}\n\nverif_host(%s)\n" % (params, body, args))


def gen_cases(tier, seed):
    for c in opsnip_cases(tier):
        yield c
    yield {"_marker": "operator-operands", "space": "19 typed binary operators x left/right x wrong operand types (3 quick / 5) x "
                                                     "{literal, generic call, typed call, annotated variable, parameter} (3 of them in quick)"}
    i = 0
    while True:
        s = seed * 15485863 + i
        yield {"seed": s, "mut": None}
        for m in range(5):
            yield {"seed": s, "mut": m}
        i += 1


def wrong(ty, rng):
    """A literal whose type differs from ty."""
    cands = [E("int", INT, v=3), E("str", STR, v="w"), E("bool", BOOL, v=True), E("list", ["List", INT], items=[E("int", INT, v=1)]),
             E("none", ["Option", INT]), E("tuple", ["Tuple", [INT, INT]], items=[E("int", INT, v=1), E("int", INT, v=2)])]
    cands = [c for c in cands if c["ty"] != ty and not (isinstance(ty, list) and isinstance(c["ty"], list) and ty[0] == c["ty"][0])]
    return rng.choice(cands)


def sites(prog):
    """[(site kind, apply(rng))] - every position where one edit makes the program ill-typed."""
    out = []
    funs = {f["name"]: f for f in prog["funs"]}

    def visit_expr(e, setter, expect_kind=None):
        k = e["k"]
        if k == "call" and not e.get("builtin"):
            f = funs[e["fn"]]
            for i, a in enumerate(e["args"]):
                out.append(("call-arg", lambda rng, e=e, i=i, f=f: e["args"].__setitem__(i, wrong(f["params"][i][2], rng))))
            if e["args"]:
                out.append(("call-arity-drop", lambda rng, e=e: e["args"].pop()))
            out.append(("call-arity-extra", lambda rng, e=e: e["args"].append(E("int", INT, v=0))))
        if k == "call" and e.get("builtin") and e["fn"] in ("println", "not", "min", "max", "range"):
            pt = {"println": STR, "not": BOOL}.get(e["fn"], INT)
            out.append(("builtin-arg", lambda rng, e=e, pt=pt: e["args"].__setitem__(0, wrong(pt, rng))))
        if k == "callv":
            for i, a in enumerate(e["args"]):
                out.append(("closure-arg", lambda rng, e=e, i=i: e["args"].__setitem__(i, wrong(INT, rng))))
            out.append(("closure-arity", lambda rng, e=e: e["args"].append(E("int", INT, v=0))))
        if k == "mcall" and not e.get("user"):
            if e["m"] == "get":
                out.append(("method-arg", lambda rng, e=e: e["args"].__setitem__(0, wrong(INT, rng))))
            out.append(("unknown-method", lambda rng, e=e: e.__setitem__("m", "verif_nosuch")))
            out.append(("method-receiver", lambda rng, e=e: e.__setitem__("recv", E("bool", BOOL, v=True))))
        if k == "bin" and e["op"] in ("&&", "||"):
            out.append(("logic-operand-right", lambda rng, e=e: e.__setitem__("r", wrong(BOOL, rng))))
            out.append(("logic-operand-left", lambda rng, e=e: e.__setitem__("l", wrong(BOOL, rng))))
        if k == "bin" and e["op"] in ("==", "!=", "<", "<=", ">", ">="):
            out.append(("comparison-operand", lambda rng, e=e: e.__setitem__(rng.choice(["l", "r"]), wrong(e["l"]["ty"], rng))))
        if k == "bin":
            t = e["l"]["ty"]
            side = "l"

            out.append(("binop-operand", lambda rng, e=e, t=t: e.__setitem__(rng.choice(["l", "r"]), wrong(t, rng))))
        if k == "field":
            out.append(("unknown-field", lambda rng, e=e: e.__setitem__("f", "verif_nosuch")))
        if k == "structlit":
            for i, (f, v) in enumerate(e["fields"]):
                out.append(("struct-field-type", lambda rng, e=e, i=i: e["fields"][i].__setitem__(1, wrong(e["fields"][i][1]["ty"], rng))))
            if len(e["fields"]) > 1:
                out.append(("struct-field-missing", lambda rng, e=e: e["fields"].pop()))
        if k == "if":
            out.append(("if-cond", lambda rng, e=e: e.__setitem__("cond", wrong(BOOL, rng))))
        if k == "match":
            if len(e["arms"]) > 1 and not any(a["variant"] == "_" for a in e["arms"]):
                out.append(("match-arm-deleted", lambda rng, e=e: e["arms"].pop(rng.randrange(len(e["arms"])))))
            out.append(("match-scrutinee", lambda rng, e=e: e.__setitem__("scrut", wrong(e["scrut"]["ty"], rng))))
        if k == "var":
            out.append(("unknown-variable", lambda rng, e=e: e.__setitem__("name", "verif_nosuch")))

    def walk_stmt_lists(node, fun_ret):
        if isinstance(node, dict):
            k = node.get("k")
            if k == "let" and node.get("ann") is not None:
                out.append(("let-annotated", lambda rng, n=node: n.__setitem__("e", wrong(n["ann"], rng))))
            if k == "return" and node.get("e") is not None and fun_ret is not None:
                out.append(("return-value", lambda rng, n=node, t=fun_ret: n.__setitem__("e", wrong(t, rng))))
            if k == "while":
                out.append(("while-cond", lambda rng, n=node: n.__setitem__("cond", E("int", INT, v=1))))
            if k == "for":
                out.append(("for-iteree", lambda rng, n=node: n.__setitem__("e", E("int", INT, v=1))))
            if k == "upd":
                out.append(("update-operand", lambda rng, n=node: n.__setitem__("e", E("str", STR, v="w"))))
            if k == "assign":
                out.append(("assign-type", lambda rng, n=node: n.__setitem__("e", wrong(n["e"]["ty"], rng))))
            if "ty" in node and "k" in node:
                visit_expr(node, None)
            if k == "lambda":
                for v in node.values():
                    walk_stmt_lists(v, node["ret"])
                return
            for v in node.values():
                walk_stmt_lists(v, fun_ret)
        elif isinstance(node, list):
            for v in node:
                walk_stmt_lists(v, fun_ret)

    # a name bound inside a block and used after it: the checker must reject it (scoping half of the property)
    def after_scope(block):
        def prn(name):
            return {"k": "expr", "e": E("call", UNIT, False, True, fn="println", builtin=True,
                                         args=[E("call", STR, fn="string_repr", builtin=True, args=[E("var", INT, name=name, bid=0)])])}
        ints = E("list", ["List", INT], items=[E("int", INT, v=1), E("int", INT, v=2)])
        pairs = E("list", ["List", ["Tuple", [INT, INT]]], items=[E("tuple", ["Tuple", [INT, INT]], items=[E("int", INT, v=1), E("int", INT, v=2)])])
        variants = {
            "use-after-for": [{"k": "for", "dest": {"v": ["verif_lv", 0]}, "e": ints, "body": [prn("verif_lv")]}],
            "use-after-for-destructure": [{"k": "for", "dest": {"d": [["verif_la", 0], ["verif_lv", 0]]}, "e": pairs, "body": [prn("verif_lv")]}],
            "use-after-if-let": [{"k": "expr", "e": E("if", UNIT, False, False, stmt=True, cond=E("bool", BOOL, v=True),
                                                     then=[{"k": "let", "name": "verif_lv", "bid": 0, "ann": None, "e": E("int", INT, v=1)}, prn("verif_lv")], els=None)}],
            "use-after-match-arm": [{"k": "expr", "e": E("match", UNIT, False, False, stmt=True, scrut=E("some", ["Option", INT], e=E("int", INT, v=1)),
                                                        arms=[{"variant": "Some", "bind": ["verif_lv", 0], "body": [prn("verif_lv")]},
                                                              {"variant": "None", "bind": None, "body": [prn_unit()]}])}],
            "use-after-for-body-let": [{"k": "for", "dest": {"v": ["verif_la", 0]}, "e": ints,
                                        "body": [{"k": "let", "name": "verif_lv", "bid": 0, "ann": None, "e": E("int", INT, v=1)}, prn("verif_lv")]}],
        }
        for kind, stmts in variants.items():
            def apply(rng, block=block, stmts=stmts):
                i = rng.randrange(len(block) + 1)
                # never after a terminator and never as a block's value position
                while i > 0 and block[i - 1]["k"] in ("break", "continue", "return"):
                    i -= 1
                i = min(i, max(0, len(block) - 1))
                block[i:i] = stmts + [prn("verif_lv")]
            out.append((kind, apply))

    def prn_unit():
        return {"k": "expr", "e": E("call", UNIT, False, True, fn="println", builtin=True, args=[E("str", STR, v="n")])}

    # the Unit value of a statement-like construct used where an Int is needed
    def unit_value(block):
        ints = E("list", ["List", INT], items=[E("int", INT, v=1), E("int", INT, v=2)])
        one = [{"k": "expr", "e": E("int", INT, v=1)}]
        variants = {
            "unit-value-of-if-without-else": E("if", INT, True, True, cond=E("bool", BOOL, v=True), then=one, els=None),
            "unit-value-of-if-without-else-call": E("if", INT, True, True, cond=E("bool", BOOL, v=True),
                                                    then=[{"k": "expr", "e": E("call", INT, fn="max", builtin=True, args=[E("int", INT, v=1), E("int", INT, v=2)])}], els=None),
        }
        for kind, e in variants.items():
            def apply(rng, block=block, e=e):
                i = rng.randrange(len(block) + 1)
                while i > 0 and block[i - 1]["k"] in ("break", "continue", "return"):
                    i -= 1
                i = min(i, max(0, len(block) - 1))
                use = E("bin", INT, op="+", l=E("var", INT, name="verif_uv", bid=0), r=E("int", INT, v=1))
                block[i:i] = [{"k": "let", "name": "verif_uv", "bid": 0, "ann": None, "e": e},
                              {"k": "expr", "e": E("call", UNIT, False, True, fn="println", builtin=True,
                                                   args=[E("call", STR, fn="string_repr", builtin=True, args=[use])])}]
            out.append((kind, apply))

    # one wrong operand of every binary operator (left / right; a literal or the same literal behind a generic call)
    OPS = [(op, INT) for op in ("+", "-", "*", "/", "%", "**", "&", "|", "<", "<=", ">", ">=")] + \
          [("&&", BOOL), ("||", BOOL), ("^", STR)]

    def logic_snippet(block):
        for op, ty in OPS:
            for side in ("l", "r"):
                kind = "logic-operand-%s-snippet" % ("right" if side == "r" else "left") if ty == BOOL else \
                    "operator-operand-snippet:%s:%s" % (op, side)

                def apply(rng, block=block, side=side, op=op, ty=ty):
                    i = rng.randrange(len(block) + 1)
                    while i > 0 and block[i - 1]["k"] in ("break", "continue", "return"):
                        i -= 1
                    i = min(i, max(0, len(block) - 1))
                    if ty == BOOL:
                        good = E("bin", BOOL, op="<", l=E("int", INT, v=1), r=E("int", INT, v=2))
                    elif ty == STR:
                        good = E("str", STR, v="g")
                    else:
                        good = E("int", INT, v=2)
                    bad = wrong(ty, rng)
                    if rng.random() < 0.5:
                        bad = E("call", bad["ty"], fn="verif_id", args=[bad], builtin=True, helper=True)
                    rty = BOOL if (ty == BOOL or op in ("<", "<=", ">", ">=")) else ty
                    e = E("bin", rty, op=op, l=(bad if side == "l" else good), r=(bad if side == "r" else good))
                    block[i:i] = [{"k": "expr", "e": E("call", UNIT, False, True, fn="println", builtin=True,
                                                       args=[E("call", STR, fn="string_repr", builtin=True, args=[e])])}]
                out.append((kind, apply))

    logic_snippet(prog["main"])
    for f in prog["funs"]:
        if f["body"]:
            logic_snippet(f["body"])

    unit_value(prog["main"])
    for f in prog["funs"]:
        if f["body"]:
            unit_value(f["body"])

    after_scope(prog["main"])
    for f in prog["funs"]:
        if f["body"]:
            after_scope(f["body"])

    for f in prog["funs"]:
        walk_stmt_lists(f["body"], f["ret"])
        if f["ret"] != UNIT and f["body"] and f["body"][-1]["k"] == "expr":
            out.append(("fun-final-value", lambda rng, f=f: f["body"][-1].__setitem__("e", wrong(f["ret"], rng))))
    walk_stmt_lists(prog["main"], None)
    return out


def build(case):
    pr = G.generate(case["seed"], G.Opts(annotate_lets=0.8, errors=0.0, n_main=7, n_funs=3))
    site = "none"
    if case["mut"] is not None:
        rng = random.Random(case["seed"] * 31 + case["mut"])
        ss = sites(pr)
        if not ss:
            return None, None, None
        # uniform over site families (the operator-operand snippets of all 13 operators x 2 sides count as one
        # family, weighted 3), then over the sites of the family
        fams = sorted({s[0].split(":")[0] for s in ss})
        fams += [f for f in fams if f == "operator-operand-snippet"] * 2
        fam = fams[rng.randrange(len(fams))]
        cand = [s for s in ss if s[0].split(":")[0] == fam]
        site, apply = cand[rng.randrange(len(cand))]
        apply(rng)
    src, _ = printer.print_program(pr)
    return pr, src, site


def first_exc_line(err):
    for line in err.split("\n"):
        if line.startswith("Exception:") or line.startswith("Error:"):
            return line
    return None


def run_batch(cases):
    out = []
    with core.Scratch("gm-c16-") as sc:
        for case in cases:
            try:
                if "opsnip" in case:
                    o = case["opsnip"]
                    pr, src, site = None, opsnip_source(*o), "operator-operand:%s:%s:%s:%s" % (o[0], o[2], o[3], o[4])
                else:
                    pr, src, site = build(case)
            except Exception as ex:          # a mutation can make the printer fail (e.g. popping from []): skip
                out.append({"status": "held", "key": None})
                continue
            if src is None:
                out.append({"status": "held", "key": None})
                continue
            path = sc.file(src)
            c = core.run_garden(["check", "--json", path], timeout=30, cwd=sc.dir)
            if c.cls in core.CRASH:
                # checker crash: belongs to C01, reported there; here inconclusive
                out.append({"status": "inconclusive", "key": None, "detail": {"check_crash": c.brief(), "src": src}})
                continue
            errors = []
            for line in c.out.split("\n"):
                line = line.strip()
                if line.startswith("{"):
                    try:
                        d = json.loads(line)
                    except ValueError:
                        continue
                    if d.get("severity") == "error":
                        errors.append(d.get("message"))
            if errors:
                out.append({"status": "held", "key": "%s|rejected" % site})
                continue
            r = core.run_garden(["run", path], timeout=30, cwd=sc.dir)
            if r.cls in core.CRASH or r.cls == "timeout":
                out.append({"status": "inconclusive", "key": None, "detail": {"run": r.brief(), "src": src}})
                continue
            line = first_exc_line(r.err)
            tmpl = classify_err(line) if line else None
            if tmpl is None:
                out.append({"status": "held", "key": "%s|accepted|%s" % (site, "ok" if line is None else "other-error")})
                continue
            out.append({"status": "violated", "key": "%s|accepted|%s" % (site, tmpl),
                        "sig": "unsound:%s:%s" % (site, tmpl),
                        "detail": {"src": src, "site": site, "check": "no errors", "runtime_error": line}})
    return out
