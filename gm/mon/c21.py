"""C21 Wrap-in-dbg and add-type-annotation preserve behaviour.

wrap: every expression of a generated program wrapped by `reftest-wrap-in-dbg` must leave stdout and the
outcome unchanged (stderr only gains dbg lines). annotate: at every un-annotated let / parameter / return
position `reftest-add-type-annotation` must produce a program that parses, has no new `check` errors and
runs the same.
"""
import json
import random

from .. import core
from ..gen import prog as G
from ..gen import printer

ID = "C21"
LEVEL = "exploration"
RULE = ("cases = (seeded program, position, tool in {wrap-in-dbg, add-type-annotation}); wrap positions = byte span of "
        "every expression; annotate positions = every let name, parameter name and function name of a program printed "
        "WITHOUT annotations; distinct key = (tool, expression kind or binder kind, rendered type shape, tool outcome)")
ASSUME = ["a refusal (exit 10) is not a violation", "dbg lines are recognised as stderr lines that are not Exception/Error lines"]
BATCH = 1
FLOOR = {"quick": 20, "thorough": 40}
BUDGET = {"quick": 35, "thorough": 840}


def gen_cases(tier, seed):
    i = 0
    while True:
        yield {"seed": seed * 49979687 + i, "tool": "wrap" if i % 2 == 0 else "annotate"}
        i += 1


def first_line(err):
    for line in err.split("\n"):
        if line.startswith("Exception:") or line.startswith("Error:"):
            return line
    return None


def check_errors(path, sc):
    c = core.run_garden(["check", "--json", path], timeout=30, cwd=sc.dir)
    errs = []
    for line in c.out.split("\n"):
        line = line.strip()
        if line.startswith("{"):
            try:
                d = json.loads(line)
            except ValueError:
                continue
            if d.get("severity") == "error":
                errs.append(d.get("message"))
    return c, errs


def run_batch(cases):
    out = []
    with core.Scratch("gm-c21-") as sc:
        for case in cases:
            out.append(run_wrap(case, sc) if case["tool"] == "wrap" else run_annotate(case, sc))
    return out


def run_wrap(case, sc):
    pr = G.generate(case["seed"], G.Opts(n_main=6, n_funs=2, errors=0.03))
    src, p = printer.print_program(pr)
    path = sc.file(src)
    base = core.run_garden(["run", path], timeout=30, cwd=sc.dir)
    if base.cls in core.CRASH or base.cls == "timeout":
        return {"status": "inconclusive", "key": None, "detail": {"base": base.brief()}}
    rng = random.Random(case["seed"])
    nodes = [(e, st, en) for e, st, en in p.nodes if e["k"] != "lambda" or True]
    if len(nodes) > 8:
        nodes = rng.sample(nodes, 8)
    keys = set()
    for e, st, en in nodes:
        sel = (st, en) if rng.random() < 0.7 else (st, st)
        r = core.run_garden(["reftest-wrap-in-dbg", path, str(sel[0]), str(sel[1])], timeout=30, cwd=sc.dir)
        detail = {"src": src, "selection": list(sel), "selected_text": src[st:en], "kind": e["k"]}
        wit = dict(case, only=list(sel))
        if r.cls in core.CRASH:
            return {"status": "violated", "key": None, "sig": "crash:wrap:" + core.crash_sig(r), "detail": dict(detail, observed=r.brief()), "case": wit}
        if r.cls == "badreq":
            keys.add("wrap|%s|refused" % e["k"])
            continue
        if r.cls == "timeout":
            return {"status": "inconclusive", "key": None, "detail": detail}
        new = core.run_garden(["run", sc.file(r.out)], timeout=30, cwd=sc.dir)
        detail.update(result=r.out, orig_run=base.brief(), new_run=new.brief())
        if new.cls in core.CRASH or new.cls == "timeout":
            return {"status": "inconclusive", "key": None, "detail": detail}
        if "Parse error" in new.err:
            return {"status": "violated", "key": None, "sig": "wrap:result-does-not-parse:" + e["k"], "detail": detail, "case": wit}
        if new.out != base.out:
            return {"status": "violated", "key": None, "sig": "wrap:stdout-changed:" + e["k"], "detail": detail, "case": wit}
        if first_line(new.err) != first_line(base.err):
            return {"status": "violated", "key": None, "sig": "wrap:outcome-changed:" + e["k"], "detail": detail, "case": wit}
        keys.add("wrap|%s|%s|ok" % (e["k"], "region" if sel[0] != sel[1] else "caret"))
    return {"status": "held", "key": None, "keys": sorted(keys)}


def shape(t):
    if isinstance(t, str):
        return t
    return t[0]


def run_annotate(case, sc):
    pr = G.generate(case["seed"], G.Opts(n_main=6, n_funs=3, errors=0.0, annotate_lets=0.0))
    bare_return = None
    if case["seed"] % 4 == 1:
        # un-annotated functions may mix a bare `return` with a value on other paths: the suggested return type must
        # account for the Unit path too
        rets = []
        for f in pr["funs"]:
            if f["ret"] != G.UNIT:
                G.walk(f["body"], lambda n, f=f: rets.append((f, n)) if n.get("k") == "return" and n.get("e") is not None else None)
        if rets:
            f, node = rets[case["seed"] % len(rets)]
            node["e"] = None
            bare_return = f["name"]
    # wrappers whose body ends in a call of another un-annotated function: their return type is only known through
    # that callee
    wrappers = []
    forced_lets = []
    simple = {G.INT: lambda: G.E("int", G.INT, v=2), G.STR: lambda: G.E("str", G.STR, v="w"), G.BOOL: lambda: G.E("bool", G.BOOL, v=True)}
    for f in list(pr["funs"]):
        if f["ret"] != G.UNIT and not f.get("recursive") and all(isinstance(t, str) and t in simple for _, _, t in f["params"]) and len(wrappers) < 2:
            wname = "vw_" + f["name"]
            params = [[n, 0, t] for n, _, t in f["params"]]
            call = G.E("call", f["ret"], f["pure"], f["total"], fn=f["name"], args=[G.E("var", t, name=n, bid=0) for n, _, t in params])
            wbody = [{"k": "let", "name": "verif_m", "bid": 0, "ann": None, "e": G.E("int", G.INT, v=1)}]
            if params:
                # a closure (annotated parameter, no return type) that returns a parameter of the enclosing function, which
                # is printed without a type here: the closure's result type is not known
                p0, _b, t0 = params[0]
                wbody.append({"k": "let", "name": "verif_cl_" + f["name"], "bid": 0, "ann": None,
                              "e": G.E("lambda", ["Fun", [G.INT], t0], True, True, params=[["verif_x", 0, G.INT]], ret=t0, ret_ann=False,
                                       body=[{"k": "expr", "e": G.E("var", t0, name=p0, bid=0)}])})
                forced_lets.append("verif_cl_" + f["name"])
            pr["funs"].append({"name": wname, "params": params, "ret": f["ret"], "pure": f["pure"], "total": f["total"],
                               "body": wbody + [{"k": "expr", "e": call}]})
            use = G.E("call", f["ret"], f["pure"], f["total"], fn=wname, args=[simple[t]() for _, _, t in params])
            pr["main"].append({"k": "expr", "e": G.E("call", G.UNIT, False, f["total"], fn="println", builtin=True,
                                                    args=[G.E("call", G.STR, fn="string_repr", builtin=True, args=[use])])})
            wrappers.append(wname)
            # values built from a call of an un-annotated function: the checker knows nothing about their component
            arg = lambda: G.E("call", f["ret"], f["pure"], f["total"], fn=wname, args=[simple[t]() for _, _, t in params])
            lname, pname = "verif_l_" + f["name"], "verif_p_" + f["name"]
            pr["main"].append({"k": "let", "name": lname, "bid": 0, "ann": None, "e": G.E("list", ["List", f["ret"]], f["pure"], f["total"], items=[arg()])})
            pr["main"].append({"k": "let", "name": pname, "bid": 0, "ann": None,
                               "e": G.E("tuple", ["Tuple", [G.INT, f["ret"]]], f["pure"], f["total"], items=[G.E("int", G.INT, v=1), arg()])})
            for nm, ty in ((lname, ["List", f["ret"]]), (pname, ["Tuple", [G.INT, f["ret"]]])):
                pr["main"].append({"k": "expr", "e": G.E("call", G.UNIT, False, True, fn="println", builtin=True,
                                                        args=[G.E("call", G.STR, fn="string_repr", builtin=True, args=[G.E("var", ty, name=nm, bid=0)])])})
            # a closure without a return type whose result comes from such a call: Fun<(Int), ?>
            cname = "verif_c_" + f["name"]
            fty = ["Fun", [G.INT], f["ret"]]
            pr["main"].append({"k": "let", "name": cname, "bid": 0, "ann": None,
                               "e": G.E("lambda", fty, f["pure"], True, params=[["verif_x", 0, G.INT]], ret=f["ret"], ret_ann=False,
                                        body=[{"k": "expr", "e": arg()}])})
            callc = G.E("callv", f["ret"], f["pure"], f["total"], f=G.E("var", fty, name=cname, bid=0), args=[G.E("int", G.INT, v=1)])
            pr["main"].append({"k": "expr", "e": G.E("call", G.UNIT, False, f["total"], fn="println", builtin=True,
                                                    args=[G.E("call", G.STR, fn="string_repr", builtin=True, args=[callc])])})
            forced_lets.extend([lname, pname, cname])
    src, p = printer.print_program(pr, annotate=False)
    path = sc.file(src)
    base = core.run_garden(["run", path], timeout=30, cwd=sc.dir)
    if base.cls in core.CRASH or base.cls == "timeout":
        return {"status": "inconclusive", "key": None, "detail": {"base": base.brief()}}
    _, base_errs = check_errors(path, sc)
    # positions: let names and parameter names (from binders) and function names
    pos = []
    types = {}

    def note(n):
        if n.get("k") == "let":
            types[n["bid"]] = n["e"]["ty"]
    G.walk(pr, note)
    for f in pr["funs"]:
        for n, b, t in f["params"]:
            types[b] = t
    for bid, name, st, en, role, kind in p.binders:
        if role == "def" and kind in ("let", "param") and name != "_":
            pos.append((kind, st, en, types.get(bid)))
    for f in pr["funs"]:
        st = src.find("fun %s(" % f["name"]) + 4
        pos.append(("return", st, st + len(f["name"]), f["ret"]))
    forced_pos = []
    for nm in forced_lets:
        st = src.find("let %s = " % nm)
        if st >= 0:
            forced_pos.append(("let", st + 4, st + 4 + len(nm), None))
    rng = random.Random(case["seed"])
    forced = [q for q in pos if q[0] == "return" and ((bare_return and src[q[1]:q[2]] == bare_return) or src[q[1]:q[2]] in wrappers)]
    if len(pos) > 8:
        pos = rng.sample(pos, 8)
    pos = forced + forced_pos + [q for q in pos if q not in forced]
    keys = set()
    for kind, st, en, ty in pos:
        r = core.run_garden(["reftest-add-type-annotation", path, str(st), str(en)], timeout=30, cwd=sc.dir)
        detail = {"src": src, "position": [st, en], "kind": kind, "generator_type": ty}
        wit = dict(case, only=[st, en])
        if r.cls in core.CRASH:
            return {"status": "violated", "key": None, "sig": "crash:annotate:" + core.crash_sig(r), "detail": dict(detail, observed=r.brief()), "case": wit}
        if r.cls == "badreq":
            keys.add("annotate|%s|%s|refused" % (kind, shape(ty) if ty else "?"))
            continue
        if r.cls == "timeout":
            return {"status": "inconclusive", "key": None, "detail": detail}
        npath = sc.file(r.out)
        c, errs = check_errors(npath, sc)
        detail.update(result_diff=[l for l in r.out.split("\n") if l not in src.split("\n")][:5])
        if c.cls in core.CRASH:
            return {"status": "inconclusive", "key": None, "detail": detail}
        new_errs = [m for m in errs if m not in base_errs]
        if any("Parse" in (m or "") or "Expected" in (m or "") and "after this" in (m or "") for m in new_errs) and False:
            pass
        new = core.run_garden(["run", npath], timeout=30, cwd=sc.dir)
        detail.update(new_check_errors=new_errs[:5], orig_run=base.brief(), new_run=new.brief())
        if "Parse error" in new.err:
            return {"status": "violated", "key": None, "sig": "annotate:result-does-not-parse:%s" % kind, "detail": detail, "case": wit}
        if new_errs and not bare_return:
            # (programs whose `return e` was turned into a bare `return` are ill typed by construction: a correct, more
            # precise annotation legitimately surfaces their latent errors, so only parsing and behaviour are judged there)
            return {"status": "violated", "key": None, "sig": "annotate:new-check-errors:%s" % kind, "detail": detail, "case": wit}
        if new.cls in core.CRASH or new.cls == "timeout":
            return {"status": "inconclusive", "key": None, "detail": detail}
        if new.out != base.out or first_line(new.err) != first_line(base.err):
            return {"status": "violated", "key": None, "sig": "annotate:behaviour-changed:%s" % kind, "detail": detail, "case": wit}
        keys.add("annotate|%s|%s|%s|ok" % (kind, shape(ty) if ty else "?", "bare-return" if bare_return else "plain"))
    return {"status": "held", "key": None, "keys": sorted(keys)}
