"""C29 LSP positions and edits map exactly onto the document.

Two kinds of cases:

conv   the conversion functions themselves, through the `lspconv` op of `garden verif-batch`:
       for every character-boundary offset o: offset -> (line, character) -> offset is the identity,
       (line, character) equals the reference (gm.ref.lsppos: UTF-16 code units), the whole-document
       range ends at the reference end position, and caller-chosen positions (inside, past the end of a
       line, past the last line, splitting a surrogate pair) convert to the reference offset.
edit   the real `garden lsp`: a document is opened, then formatting / rename / codeAction requests are
       sent; every returned edit is applied by gm.ref.lspedit (LSP 3.17 rules) and must give exactly the
       text the corresponding command line prints (`format`, `reftest-rename`, `reftest-extract-*`,
       `reftest-destructure`, `reftest-wrap-in-dbg`, `reftest-add-type-annotation`, `check --fix --stdout`).

Line terminators. LSP 3.17 ends lines at LF, CRLF and a lone CR; Garden only at LF. The property demands
the offset round trip for *every* character boundary, which no model with CRLF as one terminator can give
(no position denotes the offset between CR and LF), so the primary reference is the LF line model; any
deviation from it is a VIOLATION. Where the specification's model gives a different answer (documents
with a CR that is not followed by LF; a character past the end of a CRLF line) the observation is
additionally reported under the signature family `cr-not-line-terminator:*` (an open finding, see
known_findings.txt); nothing is excluded.
"""
import os
import random
import zlib

from .. import core
from .. import lspclient
from ..gen import fdocs
from ..ref import lspedit, lsppos

ID = "C29"
LEVEL = "exploration"
TECHNIQUE = "runtime monitoring: conversion hook + real LSP server against an independent position/edit algebra"
RULE = ("conv cases: every document of length <= 5 over {a, LF, CR, e-acute, snowman, emoji} (9331 documents, every "
        "character-boundary offset, a grid of positions incl. out-of-range ones), then random documents up to 2 KiB; "
        "edit cases: generated Garden programs with non-ASCII literals/comments before and inside the edited "
        "regions (LF, CRLF variants), ops formatting / rename at identifier and random offsets / codeAction on "
        "expression spans and random spans / all quick fixes; lint cases: documents in which every fixable lint "
        "(unnecessary let / return, unused let / value / param / type param / import, repeated bool, list-len compare, "
        "unreachable arm, missing cases, + on strings / floats) sits on a construct that spans several lines "
        "(multi-line calls, if / match expressions, multi-line strings, broken lists) with non-ASCII before and inside, "
        "each quick fix judged alone against the checker's fix and all together against `check --fix --stdout`; "
        "a case is distinct and non-trivial by its key = "
        "(conv: length, characters used, outcome) or (edit: set of op outcome tags such as rename:n-edits:non-ascii-"
        "before, action titles returned, format changed/unchanged)")
ASSUME = ["gm/ref/lsppos.py and gm/ref/lspedit.py are a faithful reading of LSP 3.17 (Position, TextEdit[], WorkspaceEdit)",
          "the reftest-* subcommands and `format` / `check --fix --stdout` are the command-line refactorings the property means",
          "for texts that `garden format` / `garden check` would rewrite before use (no final newline, CRLF, `// args: ` "
          "footer line) the in-process hook (frontend op) stands in for the command line"]
BATCH = 2
FLOOR = {"quick": 25, "thorough": 150}
BUDGET = {"quick": 35, "thorough": 780}

REFACTORS = {
    "Extract function": ("reftest-extract-function", ["--name", "extracted"]),
    "Extract variable": ("reftest-extract-variable", ["--name", "extracted"]),
    "Destructure enum": ("reftest-destructure", []),
    "Wrap in dbg()": ("reftest-wrap-in-dbg", []),
    "Add type annotation": ("reftest-add-type-annotation", []),
}
NEW_NAMES = ["renamed", "z", "a_much_longer_name_than_before", "é", "x1", "_"]


# --------------------------------------------------------------------------- generation

def gen_cases(tier, seed):
    # corpus (regression inputs)
    cdir = os.path.join(core.VERIF, "corpus", "C29")
    if os.path.isdir(cdir):
        for fn in sorted(os.listdir(cdir)):
            if fn.endswith(".json"):
                import json
                try:
                    c = json.load(open(os.path.join(cdir, fn), encoding="utf-8"))
                except ValueError:
                    continue
                if isinstance(c, dict) and c.get("t") in ("conv", "edit"):
                    yield c
    # exhaustive small documents, grouped by (length, characters used)
    groups = {}
    for d in fdocs.small_docs(5):
        groups.setdefault((len(d), "".join(sorted(set(d)))), []).append(d)
    n = 0
    k = 0
    erng = random.Random(seed * 7919 + 290)
    for (ln, used), docs in sorted(groups.items()):
        for i in range(0, len(docs), 150):
            yield {"t": "conv", "docs": docs[i:i + 150], "cls": "len%d:%s" % (ln, _names(used))}
            k += 1
            if k % 6 == 0:
                yield edit_case(erng)      # all kinds of cases from the first seconds on
            if k % 6 == 3:
                yield lint_case(erng)
        n += len(docs)
    yield {"_marker": "small-documents", "documents": n, "alphabet": ["a", "LF", "CR", "U+00E9", "U+2603", "U+1F600"],
           "max_length": 5, "space": "all documents, every character-boundary offset, position grid"}
    rng = random.Random(seed * 1000003 + 29)
    # a fixed set of edit cases first so that quick runs always contain both kinds
    k = 0
    while True:
        k += 1
        if k % 4 == 0:
            docs = [fdocs.random_doc(rng) for _ in range(20)]
            yield {"t": "conv", "docs": docs, "cls": "random:" + _features("".join(docs))}
        elif k % 4 == 2:
            yield lint_case(rng)
        else:
            yield edit_case(rng)


def _names(used):
    return "+".join({"a": "a", "\n": "LF", "\r": "CR", "é": "2b", "☃": "3b", "😀": "4b"}.get(c, "?") for c in used) or "empty"


def _features(t):
    f = []
    if "\r\n" in t:
        f.append("crlf")
    if lsppos.has_lone_cr(t):
        f.append("lonecr")
    if any(ord(c) > 0xFFFF for c in t):
        f.append("astral")
    if any(0x7F < ord(c) <= 0xFFFF for c in t):
        f.append("bmp")
    if t.endswith("\n"):
        f.append("nl-end")
    return ",".join(f) or "ascii"


def edit_case(rng):
    text, spans = fdocs.program(rng, nonascii=rng.choice([0.3, 0.7, 0.95]))
    variant = rng.random()
    eol = "lf"
    if variant < 0.2:
        # CRLF variant: spans move; recompute from scratch on the converted text
        text2 = text.replace("\n", "\r\n")
        spans = _shift_spans(text, spans)
        text = text2
        eol = "crlf"
    elif variant < 0.3 and text.endswith("\n"):
        text = text[:-1]
        eol = "lf-nonl"
    elif variant < 0.34:
        # a lone CR somewhere between tokens (known deviation from the specification's line model)
        i = text.find("\n", rng.randint(0, max(0, len(text) - 1)))
        if i >= 0:
            text = text[:i] + "\r" + text[i + 1:]
            eol = "lonecr"
    idents = fdocs.identifiers(text)
    bounds = fdocs.boundaries(text)
    ops = [{"op": "format"}]
    if rng.random() < 0.7:
        ops.append({"op": "fixes"})
    binders = [s for s in spans if s[2] == "binder"]
    exprs = [s for s in spans if s[2].startswith("expr")]
    for _ in range(rng.randint(1, 2)):
        k = rng.random()
        if idents and k < 0.6:
            a, b, _n = rng.choice(idents)
            off = rng.choice([a, a, b, (a + b) // 2 if b - a > 1 else a])
        elif binders and k < 0.85:
            a, b, _k = rng.choice(binders)
            off = rng.choice([a, b - 1, b])
        else:
            off = rng.choice(bounds)
        ops.append({"op": "rename", "off": off, "name": rng.choice(NEW_NAMES), "slack": rng.random() < 0.3})
    if idents:
        for _ in range(rng.randint(1, 2)):
            a, b, nm = rng.choice(idents)
            ops.append({"op": "ranges", "off": rng.choice([a, a, (a + b) // 2]), "name": nm})
    ops.append({"op": "symbols"})
    for _ in range(rng.randint(1, 2)):
        k = rng.random()
        if exprs and k < 0.6:
            a, b, _k = rng.choice(exprs)
        elif binders and k < 0.8:
            a, b, _k = rng.choice(binders)
            if rng.random() < 0.5:
                b = a
        elif idents and k < 0.9:
            a, b, _n = rng.choice(idents)
        else:
            a, b = sorted([rng.choice(bounds), rng.choice(bounds)])
        ops.append({"op": "action", "start": a, "end": b, "slack": rng.random() < 0.3})
    return {"t": "edit", "src": text, "ops": ops, "eol": eol}


def lint_case(rng):
    """Quick fixes on constructs that span several lines (non-ASCII before and inside)."""
    text, kinds = fdocs.lint_program(rng)
    eol = "lf"
    v = rng.random()
    if v < 0.15:
        text = text.replace("\n", "\r\n")
        eol = "crlf"
    elif v < 0.25 and text.endswith("\n"):
        text = text[:-1]
        eol = "lf-nonl"
    ops = [{"op": "fixes"}]
    if rng.random() < 0.5:
        ops.append({"op": "format"})
    # the same fixes requested through narrower ranges (whole lines)
    raw = text.encode("utf-8")
    starts = [0] + [i + 1 for i, b in enumerate(raw) if b == 10]
    for _ in range(rng.randint(0, 2)):
        a = rng.choice(starts)
        b = min(len(raw), a + rng.randint(0, 60))
        while b < len(raw) and (raw[b] & 0xC0) == 0x80:
            b += 1
        if text.encode("utf-8")[a:b].decode("utf-8", "ignore") is not None:
            ops.append({"op": "action", "start": a, "end": b, "slack": False, "fixes_only": True})
    return {"t": "edit", "src": text, "ops": ops, "eol": eol, "lint": sorted(set(kinds))}


def _shift_spans(text, spans):
    """Spans of `text` (LF) moved to the text with every LF replaced by CRLF."""
    raw = text.encode("utf-8")
    nl_before = [0] * (len(raw) + 1)
    c = 0
    for i, b in enumerate(raw):
        nl_before[i] = c
        if b == 10:
            c += 1
    nl_before[len(raw)] = c
    return [(a + nl_before[a], e + nl_before[e], k) for a, e, k in spans]


# --------------------------------------------------------------------------- conv oracle

def probes_for(doc):
    lf = lsppos.Doc(doc, lsppos.EOL_LF)
    nlines = lf.line_count()
    maxc = max(lsppos.u16len(c) for _, c, _ in lf.lines)
    grid = []
    if nlines * (maxc + 3) <= 120:
        for l in range(nlines + 2):
            for c in range(maxc + 3):
                grid.append([l, c])
    else:
        r = random.Random(zlib.crc32(doc.encode("utf-8")))
        for _ in range(120):
            l = r.choice([r.randint(0, nlines + 1), r.randint(0, nlines - 1)])
            ll = lsppos.u16len(lf.lines[l][1]) if l < nlines else 0
            c = r.choice([r.randint(0, ll + 2), ll, max(0, ll - 1), 0])
            grid.append([l, c])
    grid += [[0, 10 ** 9], [10 ** 9, 0], [nlines - 1, 4294967295], [4294967295, 4294967295], [nlines, 0]]
    return grid


def judge_conv(doc, resp, grid):
    """-> list of (sig, detail); empty when everything held."""
    out = []
    if "panic" in resp or "crash" in resp:
        return [("conversion-" + core.panic_sig(resp.get("panic") or resp.get("stderr") or ""),
                 {"doc": doc, "resp": _clipd(resp)})]
    conv = resp.get("conv")
    whole = resp.get("whole")
    probe = resp.get("probe")
    if conv is None or whole is None:
        return [("harness", {"doc": doc, "resp": _clipd(resp)})]
    lf = lsppos.Doc(doc, lsppos.EOL_LF)
    sp = lsppos.Doc(doc, lsppos.EOL_LSP)
    ref = lf.all_positions()
    if [o for o, _ in ref] != [r[0] for r in conv]:
        return [("harness", {"doc": doc, "why": "hook offsets are not the character boundaries",
                             "hook": [r[0] for r in conv][:50]})]
    cr_flag = set()
    for (o, want), (o2, l, c, back) in zip(ref, conv):
        if back != o:
            out.append(("roundtrip", {"doc": doc, "offset": o, "position": [l, c], "back": back}))
            break
        if (l, c) != want:
            out.append(("offset-to-position", {"doc": doc, "offset": o, "expected": want, "observed": [l, c]}))
            break
        s = sp.position_of(o)
        if s is not None and s != want:        # None: inside a CRLF, no position of the specification denotes it
            cr_flag.add("offset-to-position")
    end = lf.end_position()
    if list(whole) != [0, 0, end[0], end[1]]:
        out.append(("whole-document-range", {"doc": doc, "expected": [0, 0, end[0], end[1]], "observed": whole}))
    elif sp.end_position() != end:
        cr_flag.add("whole-document-range")
    if probe is not None and len(probe) == len(grid):
        nb = lf.nbytes
        bset = set(o for o, _ in ref)
        for (l, c), got in zip(grid, probe):
            want = lf.offset_of(l, c)
            if want is None:
                # line past the end: the specification is silent; Garden documents "clamped to the end of the source"
                if got != nb:
                    out.append(("position-to-offset:line-past-end", {"doc": doc, "position": [l, c], "expected": nb,
                                                                      "observed": got}))
                    break
                continue
            if got not in want or got not in bset:
                out.append(("position-to-offset", {"doc": doc, "position": [l, c], "expected": sorted(want), "observed": got}))
                break
            s = sp.offset_of(l, c)
            if s is not None and got not in s:
                cr_flag.add("position-to-offset")
            if s is None and l < lf.line_count():
                pass
    elif probe is None:
        out.append(("harness", {"doc": doc, "why": "hook without probe support"}))
    if not out:
        lone = lsppos.has_lone_cr(doc)
        for a in sorted(cr_flag):
            out.append(("cr-not-line-terminator:" + (a if lone else "crlf-character-past-line-end"),
                        {"doc": doc, "lf_model": "matches", "spec_model": "differs"}))
    return out


def _clipd(d):
    return {k: (v if len(str(v)) < 600 else str(v)[:600]) for k, v in d.items()}


# --------------------------------------------------------------------------- edit oracle

def fixed_point(text):
    """True if `garden check` / `garden format` read exactly this text (they drop a `// args: ` footer,
    turn CRLF into LF and add a final newline)."""
    if "\r\n" in text or not text.endswith("\n"):
        return False
    for line in text.split("\n"):
        if line.startswith("// args: "):
            return False
    return True


class EditRunner:
    def __init__(self, sc):
        self.sc = sc
        self.probe = None
        self.n = 0
        self.rid = 0

    def server(self):
        if self.probe is None or not self.probe.srv.alive():
            if self.probe is not None:
                self.probe.close()
            self.probe = lspclient.Probe(self.sc.dir)
            self.probe.request(0, "initialize", {"processId": None, "rootUri": None, "capabilities": {}})
            self.probe.notify("initialized", {})
        return self.probe

    def close(self):
        if self.probe is not None:
            self.probe.close()

    def req(self, method, params):
        self.rid += 1
        p = self.server()
        resp, other, st = p.request(self.rid, method, params, timeout=30)
        if st != "ok" or not isinstance(resp, dict):
            err = p.srv.stderr_text()[-1500:]
            p.close()
            self.probe = None
            raise Inconclusive({"method": method, "status": st, "stderr": err, "responses": str(resp)[:300]})
        return resp

    def run(self, case):
        try:
            return self._run(case)
        except Inconclusive as ex:
            return {"status": "inconclusive", "key": None, "detail": ex.args[0]}

    def _run(self, case):
        src = case["src"]
        self.n += 1
        d = os.path.join(self.sc.dir, "d%d" % self.n)
        os.makedirs(d, exist_ok=True)
        path = os.path.join(d, "doc.gdn")
        with open(path, "wb") as f:
            f.write(src.encode("utf-8"))
        uri = "file://" + path
        lf = lsppos.Doc(src, lsppos.EOL_LF)
        has_cr = lsppos.has_lone_cr(src) or "\r\n" in src
        na = any(ord(c) > 0x7F for c in src)
        p = self.server()
        p.notify("textDocument/didOpen", {"textDocument": {"uri": uri, "languageId": "garden", "version": 1, "text": src}})
        tags = set()
        viol = []
        hook = None

        def hook_info():
            nonlocal hook
            if hook is None:
                hook = core.batch([{"op": "frontend", "src": src, "path": path, "check": True, "format": True}], timeout=60)[0]
            return hook

        def lsp_pos(off, slack):
            pos = lf.position_of(off)
            if pos is None:
                return None
            l, c = pos
            if slack and off == lf.lines[l][0] + lsppos.u8len(lf.lines[l][1]):
                c += random.Random(off).choice([1, 7, 1000, 2 ** 31])     # past the line end = the line end
            return {"line": l, "character": c}

        def compare(edits, want, what):
            err = ""
            try:
                got = lspedit.apply_text_edits(src, edits)
            except lspedit.EditError as ex:
                got = None
                err = str(ex)
            if got == want:
                return True
            # classify: does Garden's own (LF only) line model explain it?
            if has_cr:
                try:
                    if lspedit.apply_text_edits(src, edits, eol=lsppos.EOL_LF) == want:
                        viol.append(("cr-not-line-terminator:edit", {"op": what, "src": src, "edits": edits[:4]}))
                        return False
                except lspedit.EditError:
                    pass
            viol.append(("edit-mismatch:" + what.split(":")[0],
                         {"op": what, "src": src, "edits": edits[:6], "applied": got if got is not None else "ERROR " + err,
                          "cli": want}))
            return False

        for op in case["ops"]:
            kind = op["op"]
            if kind == "format":
                resp = self.req("textDocument/formatting", {"textDocument": {"uri": uri},
                                                            "options": {"tabSize": 2, "insertSpaces": True}})
                if fixed_point(src):
                    r = core.run_garden(["format", path], timeout=60)
                    if r.cls != "ok":
                        raise Inconclusive({"cli": "format", "run": r.brief()})
                    want = r.out
                else:
                    h = hook_info()
                    if "formatted" not in h:
                        raise Inconclusive({"hook": _clipd(h)})
                    want = h["formatted"]
                edits = resp.get("result")
                if "error" in resp or not isinstance(edits, list):
                    viol.append(("formatting-no-edits", {"src": src, "resp": resp}))
                    continue
                compare(edits, want, "format")
                tags.add("format:%s%s" % ("changed" if want != src else "same", ":na" if na else ""))
            elif kind == "rename":
                pos = lsp_pos(op["off"], op.get("slack"))
                if pos is None:
                    continue
                resp = self.req("textDocument/rename", {"textDocument": {"uri": uri}, "position": pos, "newName": op["name"]})
                r = core.run_garden(["reftest-rename", path, str(op["off"]), "--new-name", op["name"]], timeout=60)
                if r.cls not in ("ok", "badreq"):
                    raise Inconclusive({"cli": "rename", "run": r.brief()})
                res = resp.get("result")
                if "error" in resp:
                    viol.append(("rename-error-response", {"src": src, "op": op, "resp": resp}))
                    continue
                if res is None:
                    if r.cls == "ok" and r.out != src:
                        viol.append(("rename-missing", {"src": src, "op": op, "cli": r.out}))
                    tags.add("rename:none")
                    continue
                if r.cls != "ok":
                    viol.append(("rename-but-cli-refuses", {"src": src, "op": op, "resp": resp, "cli": r.brief()}))
                    continue
                try:
                    edits, others = lspedit.edits_for_uri(res, uri)
                except lspedit.EditError as ex:
                    viol.append(("rename-bad-workspace-edit", {"src": src, "op": op, "resp": resp, "err": str(ex)}))
                    continue
                if others:
                    viol.append(("rename-touches-other-uri", {"src": src, "op": op, "others": sorted(others)}))
                compare(edits, r.out, "rename:%d->%s" % (op["off"], op["name"]))
                before = src.encode("utf-8")[:op["off"]].decode("utf-8", "replace")
                line = before.rsplit("\n", 1)[-1]
                tags.add("rename:%s:%s%s" % (min(len(edits), 4), "na-before-on-line" if any(ord(c) > 0x7F for c in line)
                                             else ("na-before" if any(ord(c) > 0x7F for c in before) else "ascii"),
                                             ":slack" if op.get("slack") and pos["character"] > 10 ** 2 else ""))
            elif kind == "action":
                a, b = op["start"], op["end"]
                ps, pe = lsp_pos(a, False), lsp_pos(b, op.get("slack"))
                if ps is None or pe is None:
                    continue
                resp = self.req("textDocument/codeAction", {"textDocument": {"uri": uri}, "range": {"start": ps, "end": pe},
                                                            "context": {"diagnostics": []}})
                acts = resp.get("result")
                if "error" in resp or not isinstance(acts, list):
                    viol.append(("codeaction-no-list", {"src": src, "op": op, "resp": resp}))
                    continue
                by_title = {}
                for act in acts:
                    by_title.setdefault(act.get("title"), []).append(act)
                inside = src.encode("utf-8")[a:b].decode("utf-8", "replace")
                for title, (cmd, extra) in ([] if op.get("fixes_only") else REFACTORS.items()):
                    r = core.run_garden([cmd, path, str(a), str(b)] + extra, timeout=60)
                    if r.cls not in ("ok", "badreq"):
                        raise Inconclusive({"cli": cmd, "run": r.brief()})
                    got = by_title.get(title, [])
                    offered = r.cls == "ok" and not (title.startswith("Extract") and a >= b)
                    if len(got) > 1:
                        viol.append(("action-duplicated", {"src": src, "op": op, "title": title}))
                        continue
                    if not got:
                        if offered:
                            viol.append(("action-missing", {"src": src, "op": op, "title": title, "cli": r.out}))
                        continue
                    if not offered:
                        if r.cls != "ok":
                            viol.append(("action-but-cli-refuses", {"src": src, "op": op, "title": title, "cli": r.brief(),
                                                                   "action": got[0]}))
                        continue
                    try:
                        edits, others = lspedit.edits_for_uri(got[0].get("edit"), uri)
                    except lspedit.EditError as ex:
                        viol.append(("action-bad-workspace-edit", {"src": src, "op": op, "title": title, "err": str(ex)}))
                        continue
                    compare(edits, r.out, "action:%s:%d-%d" % (title, a, b))
                    tags.add("action:%s%s" % (title, ":na-inside" if any(ord(c) > 0x7F for c in inside) else ""))
                # quick fixes offered for this range must be fixes the checker reports, at the same place
                qf = [x for x in acts if x.get("kind") == "quickfix"]
                if qf:
                    self.judge_fixes(src, uri, qf, hook_info(), viol, subset=True)
                if not acts:
                    tags.add("action:none")
            elif kind == "ranges":
                # every range the server reports for a symbol must cut out exactly that symbol's name
                pos = lsp_pos(op["off"], False)
                if pos is None:
                    continue
                raw = src.encode("utf-8")

                def cut(r):
                    a = lf.offset_of(r["start"]["line"], r["start"]["character"])
                    b = lf.offset_of(r["end"]["line"], r["end"]["character"])
                    if not a or not b or len(a) != 1 or len(b) != 1:
                        return None
                    a, b = next(iter(a)), next(iter(b))
                    return raw[a:b].decode("utf-8", "replace") if a <= b else None

                seen = 0
                for meth, extra in (("textDocument/documentHighlight", {}),
                                    ("textDocument/references", {"context": {"includeDeclaration": True}}),
                                    ("textDocument/definition", {})):
                    resp = self.req(meth, dict({"textDocument": {"uri": uri}, "position": pos}, **extra))
                    res = resp.get("result")
                    if "error" in resp:
                        viol.append(("ranges-error-response", {"src": src, "op": op, "method": meth, "resp": resp}))
                        continue
                    items = res if isinstance(res, list) else ([res] if isinstance(res, dict) else [])
                    for it in items:
                        if it.get("uri", uri) != uri:
                            continue
                        got = cut(it.get("range") or {})
                        seen += 1
                        if got != op["name"]:
                            viol.append(("range-does-not-cover-symbol:" + meth.split("/")[-1],
                                         {"src": src, "op": op, "range": it.get("range"), "covers": got, "expected": op["name"]}))
                            break
                tags.add("ranges:%s" % ("hit" if seen else "none"))
            elif kind == "symbols":
                resp = self.req("textDocument/documentSymbol", {"textDocument": {"uri": uri}})
                raw = src.encode("utf-8")
                todo = list(resp.get("result") or [])
                n = 0
                while todo:
                    sy = todo.pop()
                    todo.extend(sy.get("children") or [])
                    r = sy.get("selectionRange") or {}
                    try:
                        a = lf.offset_of(r["start"]["line"], r["start"]["character"])
                        b = lf.offset_of(r["end"]["line"], r["end"]["character"])
                        got = raw[next(iter(a)):next(iter(b))].decode("utf-8", "replace")
                    except (KeyError, TypeError, StopIteration):
                        got = None
                    n += 1
                    if got is None or got != str(sy.get("name", "")).split("::")[-1]:
                        viol.append(("range-does-not-cover-symbol:documentSymbol",
                                     {"src": src, "symbol": sy.get("name"), "selectionRange": r, "covers": got}))
                        break
                tags.add("symbols:%d" % min(n, 3))
            elif kind == "fixes":
                end = lf.end_position()
                resp = self.req("textDocument/codeAction", {"textDocument": {"uri": uri},
                                                            "range": {"start": {"line": 0, "character": 0},
                                                                      "end": {"line": end[0], "character": end[1]}},
                                                            "context": {"diagnostics": []}})
                acts = resp.get("result")
                if "error" in resp or not isinstance(acts, list):
                    viol.append(("codeaction-no-list", {"src": src, "op": op, "resp": resp}))
                    continue
                qf = [x for x in acts if x.get("kind") == "quickfix"]
                h = hook_info()
                self.judge_fixes(src, uri, qf, h, viol, subset=False)
                # all of them at once = `check --fix --stdout`
                if fixed_point(src) and not h.get("parse_errors"):
                    r = core.run_garden(["check", path, "--fix", "--stdout"], timeout=60)
                    if r.cls not in ("ok", "diag"):
                        raise Inconclusive({"cli": "check --fix", "run": r.brief()})
                    alledits = []
                    try:
                        for x in qf:
                            alledits.extend(lspedit.edits_for_uri(x.get("edit"), uri)[0])
                        doc = lsppos.Doc(src)
                        spans = sorted(lspedit.resolve(doc, e)[:2] for e in alledits)
                        overlap = any(spans[i][1] > spans[i + 1][0] or spans[i] == spans[i + 1] for i in range(len(spans) - 1))
                    except lspedit.EditError:
                        overlap = True
                    if not overlap:
                        compare(alledits, r.out, "fixes:all")
                        tags.add("fixes:%d" % min(len(qf), 5))
                    else:
                        tags.add("fixes:overlapping")
        for lk in case.get("lint") or []:
            tags.add("lint:" + lk)
        if viol:
            # the first violation that is not the known CR family decides the signature
            viol.sort(key=lambda v: v[0].startswith("cr-not-line-terminator"))
            sig, detail = viol[0]
            detail = dict(detail, eol=case.get("eol"), all_sigs=sorted(set(v[0] for v in viol)))
            return {"status": "violated", "key": "edit:violated:" + sig, "sig": sig, "detail": detail}
        return {"status": "held", "key": "edit:%s:%s" % (case.get("eol"), "|".join(sorted(tags))) if tags else None}

    def judge_fixes(self, src, uri, qf, h, viol, subset):
        """Each quick-fix action = one fix the checker reports (same title, same resulting text)."""
        if "diagnostics" not in h and not h.get("parse_errors"):
            raise Inconclusive({"hook": _clipd(h)})
        if h.get("parse_errors"):
            # `garden check` reports nothing but the parse errors for such a text and `--fix` changes nothing, while
            # the server still offers quick fixes: there is no command-line counterpart to compare with. Only
            # demand that the edits are well-formed ranges of this document.
            doc = lsppos.Doc(src, lsppos.EOL_LF)
            for x in qf:
                try:
                    es = lspedit.edits_for_uri(x.get("edit"), uri)[0]
                    for e in es:
                        lspedit.resolve(doc, e)
                    lspedit.apply_text_edits(src, es, eol=lsppos.EOL_LF)      # overlapping edits in one WorkspaceEdit
                except lspedit.EditError as ex:
                    viol.append(("quickfix-bad-edit", {"src": src, "action": x, "err": str(ex)}))
            return
        raw = src.encode("utf-8")
        want = []
        for dgn in h.get("diagnostics") or []:
            for fx in dgn.get("fixes") or []:
                s, e = fx["pos"][0], fx["pos"][1]
                want.append((fx["desc"], (raw[:s] + fx["new_text"].encode("utf-8") + raw[e:]).decode("utf-8", "replace")))
        got = []
        for x in qf:
            try:
                edits, _ = lspedit.edits_for_uri(x.get("edit"), uri)
            except lspedit.EditError as ex:
                viol.append(("quickfix-bad-edit", {"src": src, "action": x, "err": str(ex)}))
                continue
            try:
                got.append((x.get("title"), lspedit.apply_text_edits(src, edits)))
            except lspedit.EditError as ex:
                try:
                    got.append((x.get("title"), lspedit.apply_text_edits(src, edits, eol=lsppos.EOL_LF)))
                except lspedit.EditError:
                    viol.append(("quickfix-bad-edit", {"src": src, "action": x, "err": str(ex)}))
        pool = list(want)
        for g in got:
            if g in pool:
                pool.remove(g)
            else:
                # the LF line model may explain it on documents with CR
                cr = lsppos.has_lone_cr(src)
                viol.append((("cr-not-line-terminator:edit" if cr else "quickfix-mismatch"),
                             {"src": src, "title": g[0], "applied": g[1], "checker_fixes": want[:6]}))
                return
        if not subset and pool:
            viol.append(("quickfix-missing", {"src": src, "missing": pool[:4]}))


class Inconclusive(Exception):
    pass


# --------------------------------------------------------------------------- driver entry

def run_batch(cases):
    results = [None] * len(cases)
    reqs, owner, grids = [], [], []
    for i, c in enumerate(cases):
        if c["t"] == "conv":
            for d in c["docs"]:
                g = probes_for(d)
                reqs.append({"op": "lspconv", "src": d, "probe": g})
                owner.append(i)
                grids.append(g)
    if reqs:
        resps = core.batch(reqs, timeout=300)
        per = {}
        for i, rq, g, rs in zip(owner, reqs, grids, resps):
            per.setdefault(i, []).extend(judge_conv(rq["src"], rs or {}, g))
        for i, c in enumerate(cases):
            if c["t"] != "conv":
                continue
            v = per.get(i, [])
            harness = [x for x in v if x[0] == "harness"]
            real = [x for x in v if x[0] != "harness"]
            real.sort(key=lambda x: x[0].startswith("cr-not-line-terminator"))
            if real:
                sig, detail = real[0]
                results[i] = {"status": "violated", "key": "conv:%s:%s" % (c.get("cls"), sig), "sig": sig,
                              "detail": dict(detail, all_sigs=sorted(set(x[0] for x in real)), docs_in_case=len(c["docs"]))}
            elif harness:
                results[i] = {"status": "inconclusive", "key": None, "detail": harness[0][1]}
            else:
                results[i] = {"status": "held", "key": "conv:%s" % c.get("cls")}
    if any(c["t"] == "edit" for c in cases):
        with core.Scratch("gm-c29-") as sc:
            er = EditRunner(sc)
            try:
                for i, c in enumerate(cases):
                    if c["t"] == "edit":
                        results[i] = er.run(c)
            finally:
                er.close()
    return results
