"""C02 Evaluation ends in a value or a Garden error, never a crash.

Oracle: exit taxonomy. Every input is evaluated by the real interpreter (JSON session, and a sample
through `garden run FILE`); the only acceptable endings are a value or a Garden-level error. A panic,
abort or signal is a violation whose signature is the normalised panic site / crash class.
Workload (gm.gen.b_hostile): every built-in function and method read from src/__*.gdn at run time x
hostile argument vectors x arities; all 21 binary operators and += / -= on mixed boundary pairs;
random ill-typed expression trees; prelude types redefined as other structs/enums followed by a
battery that exercises the built-ins; deep recursion and deeply nested / very wide values.
"""
import os
import random
import re

from .. import core
from ..gen import b_builtins
from ..gen import b_ctrl
from ..gen import b_hostile as H
from ..gen import b_sess

ID = "C02"
LEVEL = "exploration"
RULE = ("case = one program; classes: call (built-in x receiver x argument vector x arity), op (operator x type pair), "
        "rand (random ill-typed expression tree), redef (prelude type redefined, then a battery of built-in uses), "
        "idx (every built-in with Int parameters x small ints around the receiver's length: -1, 0, 1, len-1, len, len+1, len+2, 2len+3 "
        "for lengths 0, 1, 3, 8, ASCII and non-ASCII, all positions incl. from > to), ctl (generated control flow: break / continue / return under if / match in while / for loops with earlier and later "
        "sibling loops, nested loops, in functions, closures and at the toplevel), depth (recursion 10^3..10^5 frames, value nesting 10^2..10^5 built / printed / compared / dropped, wide values), "
        "run (the same programs through `garden run FILE`); a case is non-trivial when the program parsed and was "
        "evaluated; distinct key = (class, built-in or operator, argument runtime types, outcome template)")
ASSUME = ["a process that ends by signal, exit status 101 or with 'panicked at' / 'overflowed its stack' on stderr crashed; "
          "anything else that produced a response is a value or a Garden-level error",
          "allocation failure under the harness' own 8 GiB address-space limit and watchdog hits are inconclusive, not violations",
          "effectful built-ins only receive paths inside the case's scratch directory and the commands true / echo / a non-existent name"]
BATCH = 24
FLOOR = {"quick": 400, "thorough": 800}
BUDGET = {"quick": 28, "thorough": 780}

_VOCAB = None


def vocab():
    global _VOCAB
    if _VOCAB is None:
        _VOCAB = b_builtins.vocabulary()
    return _VOCAB


def _roundrobin(gens, weights):
    live = [(g, w) for g, w in zip(gens, weights)]
    while live:
        nxt = []
        for g, w in live:
            alive = True
            for _ in range(w):
                c = next(g, None)
                if c is None:
                    alive = False
                    break
                yield c
            if alive:
                nxt.append((g, w))
        live = nxt


def _redef_cases():
    v = vocab()
    for label, defs, values in H.redefinitions(b_builtins.type_names()):
        tname = label.split()[-1]
        inputs = list(H.BATTERY)
        # the new values as receivers of every built-in method of the redefined type name, and as
        # arguments of functions whose parameters are declared with that type
        for val in values:
            inputs.append(val)
            inputs.append("string_repr(%s)" % val)
            inputs.append("[%s, %s] == [%s]" % (val, val, val))
            for fn in v:
                if fn["kind"] == "method" and fn["recv"] == tname:
                    n = len(fn["params"])
                    for m in sorted({n, max(0, n - 1), n + 1}):
                        args = ", ".join(["1", '"a"', "[]"][:m] if m <= 3 else ["1"] * m)
                        inputs.append("%s.%s(%s)" % (val, fn["name"], args))
                elif fn["kind"] == "fun" and fn["effect"] is None and any((h or "").startswith(tname) for _, h in fn["params"]):
                    args = [val if (h or "").startswith(tname) else "1" for _, h in fn["params"]]
                    inputs.append(H.call_src(fn, None, args))
        for i in range(0, len(inputs), 45):
            yield {"t": "seq", "cls": "redef", "label": label, "pre": defs, "inputs": inputs[i:i + 45]}


def _depth_cases(tier):
    for label, src, expect in H.playground_programs():
        yield {"t": "play", "cls": "deep-value" if label.startswith("deep:") else "play", "label": label, "src": src,
               "expect": expect}
    for label, kind, n, inputs in sorted(H.depth_programs(tier), key=lambda p: (p[2], p[0])):
        yield {"t": "seq", "cls": kind, "label": label, "n": n, "pre": [], "inputs": inputs}
        if kind == "wide" or (tier == "quick" and not (label.startswith("nest:list") or label == "recursion:fun")):
            continue
        yield {"t": "run", "cls": kind, "label": label, "n": n, "src": "\n".join(inputs)}


def gen_cases(tier, seed):
    rng = random.Random(seed * 15485863 + 2)
    v = vocab()
    calls = list(H.builtin_cases(v, random.Random(seed + 1), per_position=None if tier != "quick" else 40))
    random.Random(seed + 7).shuffle(calls)
    ops = list(H.operator_cases(tier))
    random.Random(seed + 8).shuffle(ops)
    corpus = [{"t": "call", "src": s, "fn": f, "types": ["corpus"], "why": "corpus"} for s, f in CORPUS]
    ctl = [dict(c, t="ctl") for c in b_ctrl.enumerate_programs(full=(tier != "quick"))]
    random.Random(seed + 9).shuffle(ctl)
    ctl = ctl[:6000]
    idx = [{"t": "multi", "cls": "idx", "fn": label, "inputs": srcs}
           for label, srcs in H.index_cases(v, random.Random(seed + 11))]
    gens = [iter(corpus), iter(idx), iter(calls), iter(ops), _redef_cases(), _depth_cases(tier), iter(ctl)]
    for c in _roundrobin(gens, [3, 2, 5, 7, 1, 1, 5]):
        yield c
    yield {"_marker": "systematic", "builtins": len(v), "call_cases": len(calls), "operator_cases": len(ops),
           "space": "every built-in x (receivers, each position x pool, arities n-1..n+2); 21 operators and += -= x pool^2; "
                    "redefinitions x battery; depth programs"}
    eg = H.ExprGen(rng)
    k = 0
    while True:
        k += 1
        j = rng.random()
        if j < 0.2:
            yield dict(b_ctrl.random_program(rng), t="ctl")
        elif j < 0.55:
            yield {"t": "rand", "src": eg.program()}
        elif j < 0.9:
            c = H.random_call(v, rng)
            if c:
                yield c
        else:
            c = H.random_call(v, rng)
            if c:
                yield {"t": "run", "cls": "call", "label": c["fn"], "n": 0, "src": c["src"], "pre": True}


# regression inputs: every crash this monitor has found (now fixed in the worktree)
CORPUS = [
    ('"x".substring(1, "x")', "String::substring"),
    ('"x".substring("x", 1)', "String::substring"),
    ("-9223372036854775808 / -1", "op:/"),
    ("-9223372036854775808 % -1", "op:%"),
    ("let b_v = 9223372036854775807 b_v += 1 b_v", "op:+="),
    ("let b_v = -9223372036854775808 b_v -= 1 b_v", "op:-="),
    ('"".index_of("")', "String::index_of"),
    ('"abc".replace("", "x")', "String::replace"),
    ('"abc".split("")', "String::split"),
]


# ----------------------------------------------------------------------------- judging

def template(msg):
    m = (msg or "").split("\n")[0]
    m = re.sub(r"`[^`]*`", "`_`", m)
    m = re.sub(r"\"[^\"]*\"", "\"_\"", m)
    m = re.sub(r"-?\d+", "N", m)
    return m[:70]


def outcome(res):
    r = res["res"]
    if r[0] == "ok":
        return "ok"
    if r[0] == "err":
        if (r[3] or "").startswith("Error:"):
            return "parse-error"
        return "err:" + template(r[1])
    return r[0]


def stable(sig):
    """Strip interpolated, unquoted data from known panic messages so the signature survives input changes."""
    sig = re.sub(r"path \S* was not absolute", "path _ was not absolute", sig)
    sig = re.sub(r"inside '_' \(bytes N\.\.N\) of .*$", "inside a character", sig)
    return sig


def _alloc(r):
    return r[0] == "crash" and "alloc" in r[1]


def judge_single(case, res):
    r = res["res"]
    cls = case["t"]
    if _alloc(r):
        return {"status": "inconclusive", "key": None, "detail": {"src": case["src"][:800], "observed": "allocation failure"}}
    if r[0] == "crash":
        sig = "crash:" + stable(r[1])
        return {"status": "violated", "key": None, "sig": sig, "detail": {"src": case["src"][:1500], "stderr": r[2]}}
    if r[0] in ("timeout", "lost", "skipped"):
        return {"status": "inconclusive", "key": None, "detail": {"src": case["src"][:800], "observed": list(r[:2])}}
    oc = outcome(res)
    if oc == "parse-error":
        return {"status": "held", "key": None}
    if cls == "call":
        key = "call %s(%s) %s" % (case["fn"], ",".join(case["types"]), oc)
    elif cls == "op":
        key = "op %s %s %s" % (case["op"], ",".join(case["types"]), oc)
    elif cls == "ctl":
        key = "ctl %s %s" % (case["shape"], oc if oc.startswith("err") else "ok")
    else:
        key = "rand %s" % oc
    return {"status": "held", "key": key}


def judge_multi(case, pairs):
    """Many inputs of one built-in in the shared session: any crash is the verdict."""
    worst = None
    ocs = set()
    for src, o in pairs:
        j = judge_single({"t": "rand", "src": src}, o)
        if j["status"] == "violated":
            j["detail"]["fn"] = case["fn"]
            return j
        if j["status"] == "inconclusive":
            worst = worst or j
        else:
            ocs.add(outcome(o))
    if worst:
        return worst
    return {"status": "held", "key": "%s %s %d inputs: %s" % (case["cls"], case["fn"], len(pairs), "|".join(sorted(ocs))[:120])}


def _subst(s, scratch):
    return s.replace("@S@", scratch)


def run_batch(cases):
    results = [None] * len(cases)
    with core.Scratch("gm-c02-") as sc:
        work = os.path.join(sc.dir, "w")
        os.makedirs(work)
        pre = [_subst(p, work) for p in H.PREAMBLE]
        # ---- single-input cases share one session
        idx = [i for i, c in enumerate(cases) if c["t"] in ("call", "op", "rand", "ctl", "multi")]
        if idx:
            srcs, owner = [], []
            for i in idx:
                for s in (cases[i]["inputs"] if cases[i]["t"] == "multi" else [cases[i]["src"]]):
                    srcs.append(_subst(s, work))
                    owner.append(i)
            for s in srcs:
                _guard(s, work)
            outs = b_sess.eval_many(srcs, preamble=pre, timeout=60, cwd=work, max_timeouts=3)
            multi = {}
            for i, s, o in zip(owner, srcs, outs):
                if cases[i]["t"] == "multi":
                    multi.setdefault(i, []).append((s, o))
                else:
                    results[i] = judge_single(cases[i], o)
            for i, pairs in multi.items():
                results[i] = judge_multi(cases[i], pairs)
        # ---- sequences in a fresh process each
        for i, c in enumerate(cases):
            if c["t"] == "seq":
                results[i] = run_seq(c, pre, work)
            elif c["t"] == "run":
                results[i] = run_file(c, pre, work, sc)
            elif c["t"] == "play":
                results[i] = run_play(c, work)
    return results


def _guard(src, work):
    """Defence in depth: no string literal of a program may name a path outside the scratch directory."""
    for lit in re.findall(r'"((?:\\.|[^"\\])*)"', src):
        if ".." in lit or ("/" in lit and not lit.startswith(work + "/") and lit != work):
            raise core.HarnessError("unsafe path literal in generated program: %r" % lit[:80])


def deep_sig(case, sig):
    if case.get("cls") == "deep-value" and "stack-overflow" in sig:
        return "crash:abort:stack-overflow:deep-value"
    return "crash:" + stable(sig)


def run_seq(case, pre, work):
    inputs = [_subst(s, work) for s in case["inputs"]]
    defs = [_subst(s, work) for s in case.get("pre", [])]
    for s in inputs + defs:
        _guard(s, work)
    heavy = case["cls"] in ("deep-value", "recursion", "wide")
    outs = b_sess.eval_many(inputs, preamble=pre + defs, timeout=120 if heavy else 60, cwd=work, max_timeouts=1)
    keys = []
    worst = None
    for s, o in zip(inputs, outs):
        r = o["res"]
        if _alloc(r):
            worst = worst or {"status": "inconclusive", "key": None,
                              "detail": {"label": case["label"], "src": s[:600], "observed": "allocation failure"}}
            continue
        if r[0] == "crash":
            return {"status": "violated", "key": None, "sig": deep_sig(case, r[1]),
                    "detail": {"class": case["cls"], "label": case["label"], "n": case.get("n"), "defs": defs,
                               "src": s[:1200], "stderr": r[2]}}
        if r[0] in ("timeout", "lost", "skipped"):
            worst = worst or {"status": "inconclusive", "key": None,
                              "detail": {"label": case["label"], "src": s[:600], "observed": list(r[:2])}}
        else:
            keys.append(outcome(o))
    if worst:
        return worst
    last = keys[-1] if keys else "none"
    if case["cls"] == "redef":
        key = "redef %s %d outcomes" % (case["label"], len(set(keys)))
    else:
        key = "%s %s n=%s %s" % (case["cls"], case["label"], case.get("n"), last)
    return {"status": "held", "key": key}


def run_play(case, work):
    src = _subst(case["src"], work)
    _guard(src, work)
    p = b_sess.playground(src, timeout=40, cwd=work)
    if p[0] == "crash":
        if "alloc" in p[1]:
            return {"status": "inconclusive", "key": None, "detail": {"src": src[:600], "observed": "allocation failure"}}
        return {"status": "violated", "key": None, "sig": deep_sig(case, p[1]) + ":playground",
                "detail": {"label": case["label"], "src": src[:1200], "stderr": p[2]}}
    if p[0] in ("timeout", "other"):
        return {"status": "inconclusive", "key": None, "detail": {"src": src[:600], "observed": list(p[:2])}}
    exp = case.get("expect")
    if exp and not (p[0] == "error" and exp in (p[1] or "")):
        return {"status": "violated", "key": None, "sig": "limit-not-enforced:%s" % case["label"],
                "detail": {"label": case["label"], "src": src[:1200], "expected_error_containing": exp, "observed": list(p[:2])}}
    return {"status": "held", "key": "play %s %s %s" % (case["label"], p[0], template(p[1] if p[0] == "error" else ""))}


def run_file(case, pre, work, sc):
    """The same program through `garden run FILE` (main thread, no session)."""
    body = _subst(case["src"], work)
    _guard(body, work)
    text = "\n".join(pre) + "\n" + body + "\n" if case.get("pre", True) else body + "\n"
    path = sc.file(text)
    r = core.run_garden(["run", path], timeout=120, cwd=work)
    if r.timed_out:
        return {"status": "inconclusive", "key": None, "detail": {"src": body[:600], "observed": "watchdog"}}
    cls = r.cls
    if cls in core.CRASH or cls.startswith("signal"):
        if "memory allocation" in r.err:
            return {"status": "inconclusive", "key": None, "detail": {"src": body[:600], "observed": "allocation failure"}}
        return {"status": "violated", "key": None, "sig": deep_sig(case, core.crash_sig(r)) + ":garden-run",
                "detail": {"class": case["cls"], "label": case["label"], "n": case.get("n"), "src": body[:1200],
                           "stderr": r.err[-1500:]}}
    first = ""
    for line in r.err.split("\n"):
        if line.strip():
            first = line
            break
    return {"status": "held", "key": "run %s %s n=%s rc=%s %s" % (case["cls"], case["label"], case.get("n"), r.rc, template(first))}
