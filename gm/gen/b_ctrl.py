"""Small control-flow programs for C02: break / continue / return under if / match inside while / for
loops, with earlier and later sibling loops in the same block, nested loops, loops inside functions and
closures. Every loop is bounded (while loops bump their own counter first; for loops run over short
lists), so every program terminates; the oracle is only "ends in a value or a Garden error".

enumerate_programs(): a systematic grid (outer loop x jump x guard x sibling placement x nesting x
where the code lives). random_program(rng): deeper random mixes of the same ingredients.
"""
import itertools

ITER = ["[1, 2, 3]", "range(0, 3)", "[]", "[(1, 2), (3, 4)]"]


def _guard(kind, cond, jump, var):
    if kind == "if":
        return "if %s { %s }" % (cond, jump)
    if kind == "ifelse":
        return "if %s { b_t += 1 } else { %s }" % (cond, jump)
    if kind == "match":
        return "match Some(%s) { Some(b_m) => { if b_m > b_lim { %s } } None => {} }" % (var, jump)
    if kind == "matcharm":
        return "match %s > b_lim { True => { %s } False => {} }" % (var, jump)
    if kind == "block":
        return "{ if %s { %s } }" % (cond, jump)
    return jump       # bare: unconditional, last in its block


def _loop(kind, d, body, it=0):
    """A bounded loop at nesting depth d around body (a list of statements)."""
    if kind == "while":
        return "let b_i%d = 0 while b_i%d < 4 { b_i%d += 1 %s }" % (d, d, d, " ".join(body)), "b_i%d" % d
    if kind == "forpair":
        return "for (b_x%d, b_y%d) in [(1, 2), (3, 4), (5, 6)] { %s }" % (d, d, " ".join(body)), "b_x%d" % d
    return "for b_x%d in %s { %s }" % (d, ITER[it], " ".join(body)), "b_x%d" % d


def _sibling(kind, tag):
    if kind == "while":
        return "let b_s%s = 0 while b_s%s < 2 { b_s%s += 1 b_t += 1 }" % (tag, tag, tag)
    if kind == "for":
        return "for b_z%s in [1, 2] { b_t += b_z%s }" % (tag, tag)
    if kind == "forbreak":
        return "for b_z%s in [1, 2, 3] { if b_z%s > 1 { break } b_t += 1 }" % (tag, tag)
    if kind == "whilecontinue":
        return "let b_s%s = 0 while b_s%s < 3 { b_s%s += 1 if b_s%s == 2 { continue } b_t += 1 }" % (tag, tag, tag, tag)
    return ""


def _wrap(place, body_stmts):
    """Put the statements in a function, a method-free closure, or at the toplevel; returns one input."""
    body = " ".join(body_stmts)
    if place == "fun":
        return "fun b_cf(b_lim: Int): Int { let b_t = 0 %s b_t } [b_cf(0), b_cf(1), b_cf(2), b_cf(9)]" % body
    if place == "closure":
        return "let b_cl = fun(b_lim) { let b_t = 0 %s b_t } [b_cl(0), b_cl(2), b_cl(9)]" % body
    if place == "top0":
        return "let b_lim = 0 let b_t = 0 %s b_t" % body
    return "let b_lim = 2 let b_t = 0 %s b_t" % body


def build(outer, jump, guard, before, after, inner, place, tail=""):
    """One program.
    outer: loop kind; jump: break|continue|return; guard: see _guard; before / after: sibling loop kinds
    placed inside the loop body before / after the jump; inner: None or (loop kind, jump inside it);
    tail: sibling loop after the outer loop."""
    var = "b_i0" if outer == "while" else "b_x0"
    j = {"break": "break", "continue": "continue", "return": "return b_t"}[jump]
    if jump == "return" and place.startswith("top"):
        j = "break"
    stmts = []
    if before:
        stmts.append(_sibling(before, "a"))
    stmts.append("b_t += 1")
    if inner:
        ik, ij = inner
        ivar = "b_i1" if ik == "while" else "b_x1"
        ijs = {"break": "break", "continue": "continue", "return": "return b_t"}[ij]
        if ij == "return" and place.startswith("top"):
            ijs = "break"
        ibody = ["if %s > 1 { %s }" % (ivar, ijs), "b_t += 1", _sibling("for", "c")]
        stmts.append(_loop(ik, 1, ibody)[0])
    stmts.append(_guard(guard, "%s > b_lim" % var, j, var))
    if guard != "bare":
        stmts.append("b_t += 10")
        if after:
            stmts.append(_sibling(after, "b"))
    loop, _ = _loop(outer, 0, stmts)
    prog = [loop]
    if tail:
        prog.append(_sibling(tail, "t"))
    return _wrap(place, prog)


OUTER = ["while", "for", "forpair"]
JUMPS = ["break", "continue", "return"]
GUARDS = ["if", "ifelse", "match", "matcharm", "block", "bare"]
SIBS = ["", "while", "for", "forbreak", "whilecontinue"]
INNER = [None, ("for", "break"), ("while", "break"), ("for", "continue"), ("while", "return")]
PLACES = ["fun", "closure", "top0", "top2"]


def enumerate_programs(full=False):
    """Grid of programs. The quick grid fixes some dimensions pairwise; full is the whole product."""
    seen = set()
    if full:
        it = itertools.product(OUTER, JUMPS, GUARDS, SIBS, SIBS, INNER, PLACES, ["", "for"])
    else:
        def gen():
            # every (outer, jump, guard, after-sibling) in a function, no nesting
            for o, j, g, a in itertools.product(OUTER, JUMPS, GUARDS, SIBS):
                yield (o, j, g, "", a, None, "fun", "")
            # siblings before/after x places
            for o, j, b, a, p in itertools.product(OUTER, ["break", "continue"], SIBS, ["while", "for"], PLACES):
                yield (o, j, "if", b, a, None, p, "for")
            # nesting
            for o, j, i, a, p in itertools.product(OUTER, JUMPS, INNER[1:], ["", "for", "while"], ["fun", "top2"]):
                yield (o, j, "if", "", a, i, p, "")
        it = gen()
    for t in it:
        if t in seen:
            continue
        seen.add(t)
        o, j, g, b, a, i, p, tail = t
        yield {"shape": "%s/%s/%s/b=%s/a=%s/in=%s/%s" % (o, j, g, b or "-", a or "-", "%s-%s" % i if i else "-", p),
               "src": build(o, j, g, b, a, i, p, tail)}


def random_program(rng):
    """Random nest of up to three loops with jumps and sibling loops anywhere."""
    def body(d):
        n = rng.randint(1, 4)
        out = []
        var_hint = "b_t"
        for _ in range(n):
            k = rng.random()
            if k < 0.25:
                out.append("b_t += 1")
            elif k < 0.5:
                j = rng.choice(["break", "continue", "return b_t"] if place in ("fun", "closure") else ["break", "continue"])
                out.append(_guard(rng.choice(GUARDS[:-1]), "b_t > %s" % rng.choice(["b_lim", "1", "3"]), j, var_hint))
            elif k < 0.75 and d < 2:
                lk = rng.choice(OUTER)
                out.append(_loop(lk, d + 1, body(d + 1), rng.randrange(len(ITER)))[0])
            else:
                out.append(_sibling(rng.choice(SIBS[1:]), "r%d" % rng.randrange(1000)))
        if rng.random() < 0.15:
            out.append(rng.choice(["break", "continue"]))
        return out
    place = rng.choice(PLACES)
    lk = rng.choice(OUTER)
    prog = [_loop(lk, 0, body(0), rng.randrange(len(ITER)))[0]]
    if rng.random() < 0.4:
        prog.append(_sibling(rng.choice(SIBS[1:]), "t"))
    return {"shape": "random/%s/%s" % (lk, place), "src": _wrap(place, prog)}
