"""Documents for the LSP monitors (C28, C29): Garden programs with non-ASCII text in front of and inside
the places that positions and edits refer to, plus hostile variants.

Only produces inputs (texts, byte offsets and byte spans of interest); no expectations live here.
Everything is deterministic in the random.Random that is passed in.
"""
import re

# 2-, 3- and 4-byte characters, a combining mark, a ZWJ sequence, the first astral code point
NA = ["é", "ü", "ß", "λ", "Ж", "☃", "日", "本", "€", "→", "😀", "\U00010000", "\U0001F468\u200d\U0001F469", "e\u0301",
      "a\u0308", "\u0301", "𝐱", "‘", "…", "ｱ"]
ALPHA_SMALL = ["a", "\n", "\r", "é", "☃", "😀"]        # the exhaustive alphabet of C29 (1,1,1,2,3,4 bytes)

INT_FUNS = ["double", "inc", "add3"]
NAMES = ["x", "y", "n", "total", "acc", "i", "item", "count", "s", "t", "name", "msg", "xs", "opt"]


def u8(s):
    return len(s.encode("utf-8"))


def na_text(rng, lo=0, hi=6):
    out = []
    for _ in range(rng.randint(lo, hi)):
        k = rng.random()
        if k < 0.55:
            out.append(rng.choice(NA))
        elif k < 0.9:
            out.append(rng.choice(["a", "b", " ", "z9", "-", "x y"]))
        else:
            out.append(rng.choice(["\\n", "\\\"", "\\t", "{", "}", "//", "'"]))
    return "".join(out)


def str_lit(rng, multiline=False):
    body = na_text(rng, 0, 5)
    if multiline and rng.random() < 0.5:
        body += "\n" + na_text(rng, 0, 3)
    return '"' + body + '"'


class Builder:
    """Accumulates text and remembers spans (in characters; converted to bytes by finish())."""

    def __init__(self, rng, nonascii=0.6, same_line=0.35):
        self.rng = rng
        self.parts = []
        self.n = 0
        self.spans = []        # (start_char, end_char, kind)
        self.nonascii = nonascii
        self.same_line = same_line
        self.indent = 0
        self.fresh = 0

    def emit(self, s):
        self.parts.append(s)
        self.n += len(s)

    def name(self, base=None):
        self.fresh += 1
        return "%s%d" % (base or self.rng.choice(NAMES), self.fresh)

    def sep(self):
        """Statement separator: usually a newline, sometimes a space so that later identifiers share a
        line with earlier non-ASCII literals."""
        if self.rng.random() < self.same_line:
            self.emit(" ")
        else:
            self.emit("\n" + "  " * self.indent)

    # ---- expressions; env is a list of (name, type)
    def expr(self, ty, env, depth=0):
        rng = self.rng
        start = self.n
        vs = [v for v, t in env if t == ty]
        k = rng.random()
        if ty == "Int":
            if depth >= 2 or k < 0.25:
                self.emit(str(rng.choice([0, 1, 2, 7, 10, 42, 100])))
            elif k < 0.5 and vs:
                self.emit(rng.choice(vs))
            elif k < 0.7:
                self.expr("Int", env, depth + 1)
                self.emit(" " + rng.choice(["+", "-", "*"]) + " ")
                self.expr("Int", env, depth + 1)
            elif k < 0.8:
                self.emit(rng.choice(INT_FUNS[:2]) + "(")
                self.expr("Int", env, depth + 1)
                self.emit(")")
            elif k < 0.9:
                self.expr("String", env, depth + 1)
                self.emit(".len()")
            else:
                self.emit("(")
                self.expr("Int", env, depth + 1)
                self.emit(" * ")
                self.expr("Int", env, depth + 1)
                self.emit(")")
        elif ty == "String":
            if depth >= 2 or k < 0.45:
                if rng.random() < self.nonascii:
                    self.emit(str_lit(rng, multiline=rng.random() < 0.1))
                else:
                    self.emit(rng.choice(['"abc"', '""', '"a b"', '"x"']))
            elif k < 0.65 and vs:
                self.emit(rng.choice(vs))
            elif k < 0.85:
                self.expr("String", env, depth + 1)
                self.emit(" ^ ")
                self.expr("String", env, depth + 1)
            else:
                self.emit("string_repr(")
                self.expr("Int", env, depth + 1)
                self.emit(")")
        elif ty == "Bool":
            if k < 0.3:
                self.emit(rng.choice(["True", "False"]))
            else:
                self.expr("Int", env, depth + 1)
                self.emit(" " + rng.choice(["<", ">", "==", "<=", "!="]) + " ")
                self.expr("Int", env, depth + 1)
        elif ty == "List":
            self.emit("[")
            for j in range(rng.randint(0, 3)):
                if j:
                    self.emit(", ")
                self.expr("Int", env, depth + 1)
            self.emit("]")
        elif ty == "Option":
            if k < 0.5:
                self.emit("Some(")
                self.expr("Int", env, depth + 1)
                self.emit(")")
            elif k < 0.7:
                self.emit("None")
            else:
                self.emit("find_it(")
                self.expr("Int", env, depth + 1)
                self.emit(")")
        self.spans.append((start, self.n, "expr:" + ty))

    def comment(self):
        self.emit("// " + na_text(self.rng, 1, 5).replace("\n", " "))
        self.emit("\n" + "  " * self.indent)

    def stmt(self, env, depth=0):
        rng = self.rng
        k = rng.random()
        if k < 0.08:
            self.comment()
        if rng.random() < 0.25 and self.nonascii:
            # a non-ASCII literal statement first, then something on the same line
            v = self.name("s")
            self.emit("let %s = " % v)
            self.emit(str_lit(rng))
            env.append((v, "String"))
            self.emit(" ")
        k = rng.random()
        if k < 0.3:
            ty = rng.choice(["Int", "Int", "String", "Bool", "List", "Option"])
            v = self.name()
            self.emit("let ")
            s0 = self.n
            self.emit(v)
            self.spans.append((s0, self.n, "binder"))
            if rng.random() < 0.3:
                self.emit(": " + {"Int": "Int", "String": "String", "Bool": "Bool", "List": "List<Int>",
                                  "Option": "Option<Int>"}[ty])
            self.emit(" = ")
            self.expr(ty, env)
            env.append((v, ty))
        elif k < 0.42:
            self.emit(rng.choice(["println", "print"]) + "(")
            self.expr("String", env)
            self.emit(")")
        elif k < 0.5:
            vs = [v for v, t in env if t == "Int"]
            if vs:
                self.emit(rng.choice(vs) + rng.choice([" = ", " += ", " -= "]))
                self.expr("Int", env)
            else:
                self.emit("add3(")
                self.expr("Int", env)
                self.emit(", ")
                self.expr("Int", env)
                self.emit(", ")
                self.expr("Int", env)
                self.emit(")")
        elif k < 0.6 and depth < 2:
            self.emit("if ")
            self.expr("Bool", env)
            self.emit(" {")
            self.block(list(env), depth + 1)
            self.emit("}")
            if rng.random() < 0.5:
                self.emit(" else {")
                self.block(list(env), depth + 1)
                self.emit("}")
        elif k < 0.66 and depth < 2:
            v = self.name("it")
            self.emit("for %s in " % v)
            self.expr("List", env)
            self.emit(" {")
            self.block(env + [(v, "Int")], depth + 1)
            self.emit("}")
        elif k < 0.74 and depth < 2:
            v = self.name("v")
            self.emit("match ")
            self.expr("Option", env)
            self.emit(" {")
            self.indent += 1
            self.emit("\n" + "  " * self.indent + "Some(%s) => {" % v)
            self.block(env + [(v, "Int")], depth + 1)
            self.emit("}")
            self.emit("\n" + "  " * self.indent + rng.choice(["None", "_"]) + " => {")
            self.block(list(env), depth + 1)
            self.emit("}")
            self.indent -= 1
            self.emit("\n" + "  " * self.indent + "}")
        elif k < 0.8:
            # statements that draw quick fixes / diagnostics
            c = rng.random()
            if c < 0.25:
                self.emit("let unused%d = " % self.n)
                self.expr("Int", env)
            elif c < 0.45:
                self.expr("String", env)
                self.emit(" + ")
                self.expr("String", env)
            elif c < 0.6:
                self.expr("List", env)
                self.emit(".len() == 0")
            elif c < 0.75:
                self.emit("let %s: Int = " % self.name())
                self.expr("String", env)
            elif c < 0.9:
                self.emit("undefined_fn(")
                self.expr("Int", env)
                self.emit(")")
            else:
                self.emit("1.5 + ")
                self.expr("Int", env)
        elif k < 0.9:
            self.expr("Option", env)       # bare enum-typed expression (destructure target)
        else:
            self.expr(rng.choice(["Int", "String"]), env)

    def block(self, env, depth):
        self.indent += 1
        n = self.rng.randint(0, 3)
        for _ in range(n):
            self.emit("\n" + "  " * self.indent)
            self.stmt(env, depth)
        self.indent -= 1
        self.emit("\n" + "  " * self.indent if n else "")

    def fun(self):
        rng = self.rng
        if rng.random() < 0.3:
            self.emit("/// " + na_text(rng, 1, 4).replace("\n", " ") + "\n")
        name = self.name("f")
        self.emit(rng.choice(["fun ", "fun ", "public fun ", "test "]) if False else "fun ")
        s0 = self.n
        self.emit(name)
        self.spans.append((s0, self.n, "binder"))
        env = []
        self.emit("(")
        for j in range(rng.randint(0, 3)):
            if j:
                self.emit(", ")
            p = self.name("p")
            ty = rng.choice(["Int", "String"])
            s0 = self.n
            self.emit(p)
            self.spans.append((s0, self.n, "binder"))
            if rng.random() < 0.8:
                self.emit(": " + ty)
            env.append((p, ty))
        self.emit(")")
        ret = rng.choice([None, "Int", "String"])
        if ret and rng.random() < 0.7:
            self.emit(": " + ret)
        self.emit(" {")
        self.indent = 1
        n = rng.randint(1, 5)
        for _ in range(n):
            self.emit("\n  ")
            self.stmt(env, 0)
        if ret:
            self.emit("\n  ")
            if rng.random() < 0.2:
                self.emit("return ")
            self.expr(ret, env)
        self.indent = 0
        self.emit("\n}\n")
        return name

    def prelude(self):
        self.emit("fun double(n: Int): Int { n * 2 }\n")
        self.emit("fun inc(n: Int): Int {\n  n + 1\n}\n")
        self.emit("fun add3(a: Int, b: Int, c: Int): Int { a + b + c }\n")
        self.emit("fun find_it(n: Int): Option<Int> { if n > 0 { Some(n) } else { None } }\n")

    def finish(self):
        text = "".join(self.parts)
        # char index -> byte offset
        offs = [0] * (len(text) + 1)
        b = 0
        for i, c in enumerate(text):
            offs[i] = b
            b += len(c.encode("utf-8"))
        offs[len(text)] = b
        spans = [(offs[a], offs[e], k) for a, e, k in self.spans if e > a]
        return text, spans


def program(rng, nonascii=0.6):
    """-> (text, spans) with spans = [(start_byte, end_byte, kind)]."""
    b = Builder(rng, nonascii=nonascii, same_line=rng.choice([0.0, 0.3, 0.6]))
    if rng.random() < 0.25:
        b.emit("// " + na_text(rng, 1, 6).replace("\n", " ") + "\n")
    b.prelude()
    k = rng.random()
    if k < 0.2:
        b.emit("struct Point%d { px: Int, label: String }\n" % b.n)
    elif k < 0.35:
        b.emit("enum Shape%d {\n  Round(Int),\n  Flat,\n}\n" % b.n)
    for _ in range(rng.randint(1, 3)):
        b.fun()
        if rng.random() < 0.3:
            b.emit("\n")
    return b.finish()


# --------------------------------------------------------------------------- scanning helpers

_TOK = re.compile(r'"(?:\\.|[^"\\])*"?|//[^\n]*|[A-Za-z_][A-Za-z0-9_]*|\s+|.', re.S)


def identifiers(text):
    """[(start_byte, end_byte, name)] of identifier-looking tokens outside strings and comments."""
    out = []
    b = 0
    for m in _TOK.finditer(text):
        t = m.group(0)
        n = len(t.encode("utf-8"))
        if re.match(r"[A-Za-z_]", t):
            out.append((b, b + n, t))
        b += n
    return out


def boundaries(text):
    """Every byte offset that is on a character boundary (incl. 0 and len)."""
    out = [0]
    b = 0
    for c in text:
        b += len(c.encode("utf-8"))
        out.append(b)
    return out


# --------------------------------------------------------------------------- hostile variants

def to_crlf(rng, text, p=1.0):
    return "".join(("\r\n" if rng.random() < p else "\n") if c == "\n" else c for c in text)


def splice(rng, text, n=None):
    """Insert non-ASCII characters / CR at random places."""
    cs = list(text)
    for _ in range(n or rng.randint(1, 4)):
        i = rng.randint(0, len(cs))
        cs.insert(i, rng.choice(NA + ["\r", "\u00a0", "\u2003", "\ufeff", "\u3000"]))
    return "".join(cs)


def truncate(rng, text):
    if not text:
        return text
    return text[:rng.randint(0, len(text))]


def drop_chunk(rng, text):
    if len(text) < 4:
        return text
    i = rng.randint(0, len(text) - 2)
    j = min(len(text), i + rng.randint(1, 12))
    return text[:i] + text[j:]


TINY = ["", "\n", "\r", "\r\n", "a", "é", "😀", "\"", "\"é", "//", "// é\r", "fun", "fun f(", "let x = ", "x.", "x::",
        "foo(", "foo(1,", "\"a\".", "[1].", "import \"", "import \"./", "fun f() { let s = \"😀\" s. }",
        "fun f(x: Int) { x. }", "fun f() { [1, 2]. }", "fun f() { foo::bar }", "import \"__fs.gdn\" as fs\nfun f() { fs:: }",
        "struct P { x: Int }\nfun f(p: P) { p. }", "fun f() { \"é\".len( }", "fun f() { add(1, ) }",
        "\ufeff fun f() {}", "\u00a0", "\u2003x", "é = 1", "let é = 1", "fun f() {}\r\nfun g() {}\r\n",
        "fun f() {\r  let x = 1\r}\r", "enum E { A, B }\nfun f(e: E) { match e { A => {} } }",
        "fun f(): Option<Int> { None }\nfun g() { f() }\n", "test t { assert(1 == 2) }", "#!/usr/bin/env garden\nfun f() {}\n"]


def hostile(rng, base=None):
    """A document for protocol-robustness sessions: a program or a damaged / tiny / CRLF variant."""
    k = rng.random()
    if k < 0.12:
        return rng.choice(TINY)
    text = base if base is not None else program(rng, nonascii=rng.choice([0.0, 0.6, 0.9]))[0]
    k = rng.random()
    if k < 0.35:
        return text
    if k < 0.5:
        return truncate(rng, text)
    if k < 0.62:
        return splice(rng, text)
    if k < 0.74:
        return to_crlf(rng, text, rng.choice([1.0, 1.0, 0.5]))
    if k < 0.84:
        return drop_chunk(rng, text)
    if k < 0.92:
        return splice(rng, truncate(rng, text))
    return to_crlf(rng, drop_chunk(rng, text))


def small_docs(max_len, alphabet=None):
    """Every document of length <= max_len over the alphabet (shortest first)."""
    import itertools
    alphabet = alphabet or ALPHA_SMALL
    for n in range(max_len + 1):
        for t in itertools.product(alphabet, repeat=n):
            yield "".join(t)


def random_doc(rng, max_bytes=2048):
    """Random text over a wider alphabet (no structure): for the conversion algebra."""
    alpha = ALPHA_SMALL + ["b", " ", "\t", "\r\n", "\n", "\n", "ü", "日", "\U00010000", "\u0301", "\u2028", "\u0085", "\x0b",
                           "\x0c", "\u00a0"]
    n = rng.choice([rng.randint(0, 12), rng.randint(0, 80), rng.randint(0, 600)])
    out = []
    size = 0
    for _ in range(n):
        c = rng.choice(alpha)
        size += len(c.encode("utf-8"))
        if size > max_bytes:
            break
        out.append(c)
    return "".join(out)


# --------------------------------------------------------------------------- documents for quick fixes

def _na(rng, lo=1, hi=3):
    return "".join(rng.choice(NA) for _ in range(rng.randint(lo, hi)))


def ml_expr(rng, ty, ind="  "):
    """A multi-line expression of the given type (Int, String, List, Bool, Option) with non-ASCII text inside.
    `ind` is the indentation of the statement it belongs to."""
    i1 = ind + "  "
    k = rng.random()
    s = '"%s"' % _na(rng)
    if ty == "Int":
        if k < 0.3:
            return "pick(\n%s%d,\n%s%s.len(),\n%s)" % (i1, rng.randint(0, 9), i1, s, ind)
        if k < 0.5:
            return "if flag() {\n%s%s.len()\n%s} else {\n%s%d\n%s}" % (i1, s, ind, i1, rng.randint(0, 9), ind)
        if k < 0.7:
            return "match maybe() {\n%sSome(v) => v\n%sNone => %s.len()\n%s}" % (i1, i1, s, ind)
        if k < 0.85:
            return "[\n%s1,\n%s%s.len(),\n%s].len()" % (i1, i1, s, ind)
        return "pick(%s.len(),\n%s2)" % (s, i1)
    if ty == "String":
        if k < 0.4:
            return '"%s\n%s%s\n%s"' % (_na(rng), i1, _na(rng), _na(rng, 0, 2))
        if k < 0.7:
            return "glue(\n%s%s,\n%s%s,\n%s)" % (i1, s, i1, '"b"', ind)
        return "if flag() {\n%s%s\n%s} else {\n%s\"\"\n%s}" % (i1, s, ind, i1, ind)
    if ty == "List":
        if k < 0.6:
            return "[\n%s1,\n%s%s.len(),\n%s3,\n%s]" % (i1, i1, s, i1, ind)
        return "[%s.len(),\n%s2]" % (s, i1)
    if ty == "Bool":
        if k < 0.5:
            return "(flag() &&\n%s%s.len() > 0)" % (i1, s)
        return "both(\n%sflag(),\n%s%s == \"\",\n%s)" % (i1, i1, s, ind)
    return "Some(\n%s%s.len(),\n%s)" % (i1, s, ind)


LINT_KINDS = ["unnecessary_let", "unnecessary_return", "unused_let", "unused_value", "repeated_bool", "list_len_compare",
              "unreachable_arm", "missing_cases", "unused_type_param", "unused_import", "unused_param", "string_concat",
              "float_int", "let_after_multiline"]


def lint_fun(rng, kind, n):
    """Source of one function (or item) that draws the fixable lint `kind` on a multi-line construct."""
    ty = rng.choice(["Int", "String", "List"])
    tyname = {"Int": "Int", "String": "String", "List": "List<Int>"}[ty]
    lead = ""
    if rng.random() < 0.5:
        lead = "  let s%d = \"%s\" " % (n, _na(rng))          # non-ASCII in front, on the same line
        pre = lead
    else:
        pre = "  "
    use = ("  println(s%d)\n" % n) if lead else ""
    cm = ("  // %s\n" % _na(rng, 1, 4)) if rng.random() < 0.4 else ""
    if kind == "unnecessary_let":
        return "fun ul%d(): %s {\n%s%s%slet x = %s\n  x\n}\n" % (n, tyname, cm, use and "", pre, ml_expr(rng, ty)) if not lead else \
            "fun ul%d(): %s {\n%s%slet x = %s\n  x\n}\n" % (n, tyname, cm, pre, ml_expr(rng, ty))
    if kind == "unnecessary_return":
        return "fun ur%d(): %s {\n%s%sreturn %s\n}\n" % (n, tyname, cm, pre, ml_expr(rng, ty))
    if kind == "unused_let":
        return "fun uv%d() {\n%s%slet unused = %s\n  println(\"%s\")\n%s}\n" % (n, cm, pre, ml_expr(rng, ty), _na(rng), use)
    if kind == "let_after_multiline":
        return "fun lm%d(): Int {\n%s  let t = %s\n  let unused = t let y = 1\n  y\n}\n" % (n, cm, ml_expr(rng, "String"))
    if kind == "unused_value":
        v = rng.choice(["[\n    1,\n    2,\n  ]", "\"%s\n    %s\"" % (_na(rng), _na(rng)), "[1,\n    2]"])
        return "fun uu%d(): %s {\n%s%s%s\n  %s\n}\n" % (n, tyname, cm, pre, v, ml_expr(rng, ty))
    if kind == "repeated_bool":
        op = rng.choice(["||", "&&"])
        return "fun rb%d(x: Bool, y: Bool): Bool {\n%s%sx %s\n    %s %s\n    x\n}\n" % (n, cm, pre, op, ml_expr(rng, "Bool", "    "), op) \
            if rng.random() < 0.5 else \
            "fun rb%d(x: Bool, y: Bool): Bool {\n%s%sx %s\n    y %s\n    x\n}\n" % (n, cm, pre, op, op)
    if kind == "list_len_compare":
        c = rng.choice(["%s.len() == 0", "%s.len() != 0", "0 == %s.len()", "%s.len() > 0"]) % ml_expr(rng, "List")
        return "fun ll%d() {\n%s%sif %s {\n    println(\"%s\")\n  }\n%s}\n" % (n, cm, pre, c, _na(rng), use)
    if kind == "unreachable_arm":
        return ("fun ua%d(c: Tint): String {\n%s%smatch c {\n    Red => %s\n    _ => \"%s\"\n    Green => %s\n    Blue => \"b\"\n  }\n}\n"
                % (n, cm, pre, ml_expr(rng, "String", "    "), _na(rng), ml_expr(rng, "String", "    ")))
    if kind == "missing_cases":
        return "fun mc%d(c: Tint): String {\n%s%smatch c {\n    Red => %s\n  }\n}\n" % (n, cm, pre, ml_expr(rng, "String", "    "))
    if kind == "unused_type_param":
        return rng.choice(["fun tp%d<T,\n  U>(x: U): U {\n%s  x\n}\n", "fun tp%d<T>(): Int {\n%s  1\n}\n",
                           "fun tp%d<\n  T,\n  U,\n>(x: T): T {\n%s  x\n}\n"]) % (n, cm)
    if kind == "unused_param":
        return "fun up%d(\n  a: Int,\n  label: String, // %s\n  b: Int,\n): Int {\n%s  a + b\n}\n" % (n, _na(rng), cm)
    if kind == "string_concat":
        return "fun sc%d(): String {\n%s%s%s +\n    %s\n}\n" % (n, cm, pre, ml_expr(rng, "String"), ml_expr(rng, "String", "    "))
    if kind == "float_int":
        return "fun fi%d(): Float {\n%s%s1.5 +\n    // %s\n    2.5\n}\n" % (n, cm, pre, _na(rng))
    if kind == "unused_import":
        return "// %s\nimport \"__fs.gdn\" as myfs%d\n" % (_na(rng), n)
    raise ValueError(kind)


LINT_PRELUDE = ("fun pick(a: Int, b: Int): Int { a + b }\nfun flag(): Bool { True }\nfun maybe(): Option<Int> { Some(1) }\n"
                "fun glue(a: String, b: String): String { a ^ b }\nfun both(a: Bool, b: Bool): Bool { a && b }\n"
                "enum Tint { Red, Green, Blue }\n")


def lint_program(rng, kinds=None):
    """A document in which fixable lints apply to expressions that span several lines."""
    kinds = kinds or [rng.choice(LINT_KINDS) for _ in range(rng.choice([1, 1, 2, 3, 4]))]
    parts = []
    imports = [k for k in kinds if k == "unused_import"]
    n = 0
    for k in imports:
        n += 1
        parts.append(lint_fun(rng, k, n))
    parts.append(LINT_PRELUDE)
    for k in kinds:
        if k == "unused_import":
            continue
        n += 1
        parts.append(lint_fun(rng, k, n))
        if rng.random() < 0.3:
            parts.append("\n")
    return "".join(parts), kinds
