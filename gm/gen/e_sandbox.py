"""Vocabulary of Garden built-ins (read from the target's src/__*.gdn at run time, cross-checked against the
Rust enums), argument pools with canaries, call-position templates, and the program families of C25."""
import functools
import glob
import os
import re

from .. import core

NS_ALIAS = {"__fs.gdn": "vfs", "__shell.gdn": "vsh", "__reflect.gdn": "vrf", "__random.gdn": "vrn",
            "__time.gdn": "vtm"}

STUB_RE = re.compile(
    r"^(?P<vis>public\s+)?(?P<kind>fun|method)\s+(?P<name>\w+)\s*(?:<[^>(]*>)?\s*\((?P<params>[^{]*?)\)"
    r"\s*(?::\s*(?P<ret>[^{]+?))?\s*\{\s*__BUILT_IN_IMPLEMENTATION\s*\}", re.M | re.S)


def _split_top(s):
    out, depth, cur = [], 0, ""
    for ch in s:
        if ch in "<([":
            depth += 1
        elif ch in ">)]":
            depth -= 1
        if ch == "," and depth == 0:
            out.append(cur)
            cur = ""
        else:
            cur += ch
    if cur.strip():
        out.append(cur)
    return [x.strip() for x in out]


@functools.lru_cache(maxsize=None)
def vocabulary(repo=None):
    """Every built-in stub in src/__*.gdn: list of dicts
    {"id","ns","kind","name","recv","params":[(pname, type)], "public": bool}."""
    repo = repo or core.REPO
    voc = []
    for path in sorted(glob.glob(os.path.join(repo, "src", "__*.gdn"))):
        ns = os.path.basename(path)
        text = open(path, encoding="utf-8").read()
        # comment-only lines may sit inside a stub body
        text = "\n".join(ln for ln in text.split("\n") if not ln.strip().startswith("//"))
        for m in STUB_RE.finditer(text):
            params = []
            for p in _split_top(m.group("params")):
                if ":" in p:
                    n, t = p.split(":", 1)
                    params.append((n.strip(), t.strip()))
                else:
                    params.append((p.strip(), ""))
            recv = None
            if m.group("kind") == "method":
                if not params:
                    continue
                recv = params[0][1]
                params = params[1:]
            name = m.group("name")
            if m.group("kind") == "method":
                bid = "%s.%s" % (re.sub(r"<.*", "", recv), name)
            elif ns == "__prelude.gdn":
                bid = "prelude::" + name
            else:
                bid = "%s::%s" % (ns[2:-4], name)
            voc.append({"id": bid, "ns": ns, "kind": m.group("kind"), "name": name, "recv": recv,
                        "params": params, "public": bool(m.group("vis"))})
    return voc


@functools.lru_cache(maxsize=None)
def rust_kinds(repo=None):
    """Variant names of the two built-in enums, read from the Rust sources. -> (fun_variants, method_variants)"""
    repo = repo or core.REPO
    funs, meths = [], []
    for path in glob.glob(os.path.join(repo, "src", "**", "*.rs"), recursive=True):
        text = open(path, encoding="utf-8", errors="replace").read()
        for enum, dest in (("BuiltInFunctionKind", funs), ("BuiltInMethodKind", meths)):
            m = re.search(r"enum\s+%s\s*\{(.*?)\n\}" % enum, text, re.S)
            if m:
                for line in m.group(1).split("\n"):
                    line = line.split("//")[0].strip().rstrip(",")
                    if re.fullmatch(r"[A-Z]\w*", line):
                        dest.append(line)
    return funs, meths


def coverage_gap():
    """Rust built-in kinds that the .gdn enumeration does not account for (by count)."""
    voc = vocabulary()
    funs, meths = rust_kinds()
    nf = sum(1 for v in voc if v["kind"] == "fun")
    nm = sum(1 for v in voc if v["kind"] == "method")
    return {"rust_fun_kinds": len(funs), "gdn_fun_stubs": nf, "rust_method_kinds": len(meths), "gdn_method_stubs": nm,
            "ok": len(funs) == nf and len(meths) == nm and nf > 0 and nm > 0}


# ------------------------------------------------------------------------------------------- world

class World:
    """A scratch world: cwd for garden, canary files, canary executable first on PATH, separate log dir."""

    def __init__(self, scratch, nonce):
        self.scratch = scratch
        self.nonce = nonce
        self.tok = "vcan%s" % nonce
        self.modtok = "vmod%s" % nonce   # import canary: reads of it are observations, not violations
        self.dir = os.path.join(scratch.dir, "world")
        self.logs = os.path.join(scratch.dir, "logs")
        self.bin = os.path.join(self.dir, "bin")
        os.makedirs(self.logs, exist_ok=True)
        self.build()

    def p(self, name):
        return os.path.join(self.dir, "%s_%s" % (self.tok, name))

    def build(self):
        import shutil
        shutil.rmtree(self.dir, ignore_errors=True)
        os.makedirs(self.bin)
        with open(self.p("file"), "w") as f:
            f.write("canary contents\n")
        with open(self.p("file2"), "w") as f:
            f.write("second canary\n")
        os.makedirs(self.p("dir"))
        with open(os.path.join(self.p("dir"), "%s_inner" % self.tok), "w") as f:
            f.write("inner\n")
        os.makedirs(self.p("emptydir"))
        with open(os.path.join(self.dir, "%s_mod.gdn" % self.modtok), "w") as f:
            f.write("public fun canary_fun() { 1 }\n")
        os.makedirs(os.path.join(self.dir, "sub"))
        cmd = os.path.join(self.bin, "%s_cmd" % self.tok)
        with open(cmd, "w") as f:
            f.write("#!/bin/sh\n: > \"$0.ran\"\n")
        os.chmod(cmd, 0o755)
        self.cmd = cmd
        self.base = self.snapshot()

    def snapshot(self, ignore=()):
        snap = {}
        for root, dirs, files in os.walk(self.dir):
            for n in dirs + files:
                full = os.path.join(root, n)
                rel = os.path.relpath(full, self.dir)
                if rel in ignore:
                    continue
                try:
                    st = os.lstat(full)
                except OSError:
                    continue
                snap[rel] = (st.st_mode, st.st_size if not os.path.isdir(full) else 0, st.st_mtime_ns)
        return snap

    def env(self):
        return {"PATH": self.bin + ":/usr/bin:/bin"}


def gstr(s):
    """Garden string literal for a plain ASCII path-like string."""
    return '"' + s.replace("\\", "\\\\").replace('"', '\\"') + '"'


# ------------------------------------------------------------------------------------------ arguments

PATH_KINDS = ["file", "dir", "none", "rel", "dotdot", "inner", "emptydir", "newchild"]
CMD_KINDS = ["cmd", "cmdabs", "true"]


def path_text(kind, w):
    if kind == "file":
        return w.p("file")
    if kind == "file2":
        return w.p("file2")
    if kind == "dir":
        return w.p("dir")
    if kind == "emptydir":
        return w.p("emptydir")
    if kind == "none":
        return w.p("none")
    if kind == "rel":
        return "%s_file" % w.tok
    if kind == "dotdot":
        return os.path.join(w.dir, "sub", "..", "%s_file" % w.tok)
    if kind == "inner":
        return os.path.join(w.p("dir"), "%s_inner" % w.tok)
    if kind == "newchild":
        return os.path.join(w.p("dir"), "%s_new" % w.tok)
    raise ValueError(kind)


def render_arg(desc, w):
    """desc -> Garden expression text."""
    k, _, v = desc.partition(":")
    if k == "path":
        return "Path{ p: %s }" % gstr(path_text(v, w))
    if k == "str":
        if v == "cmd":
            return gstr("%s_cmd" % w.tok)
        if v == "cmdabs":
            return gstr(w.cmd)
        if v == "true":
            return gstr("true")
        if v == "x":
            return gstr("x")
        if v == "envname":
            return gstr("PATH")
        if v == "src":
            return gstr("let x = 1")
        if v == "srcimport":
            return gstr('import "./%s_mod.gdn" as q' % w.modtok)
        if v == "typename":
            return gstr("Path")
        if v == "methname":
            return gstr("exists")
        if v == "funname":
            return gstr("read_file")
        return gstr(path_text(v, w))
    if k == "liststr":
        return "[]" if v == "empty" else "[%s]" % gstr(w.p("none"))
    if k == "listint":
        return {"ok": "[104, 105]", "empty": "[]", "bad": "[256, -1]"}[v]
    if k == "ns":
        return v
    if k == "lit":
        return v
    raise ValueError(desc)


WRONG_POOL = ["lit:1", "lit:-1", "lit:1.5", "lit:True", "lit:Unit", "lit:\"x\"", "lit:[]", "lit:[1]", "lit:(1, 2)",
              "lit:None", "lit:Some(1)", "lit:Ok(1)", "lit:Err(\"e\")", "lit:Dict[\"a\" => 1]", "lit:fun() { 1 }",
              "lit:println", "path:file", "str:file", "liststr:one", "lit:[Path{ p: \"x\" }]"]


def right_vectors(b):
    """Right-typed argument vectors for built-in b (list of lists of descs); the first is the canonical one."""
    per = []
    for pname, t in b["params"]:
        t0 = t.replace(" ", "")
        if t0 == "Path":
            per.append(["path:" + k for k in PATH_KINDS])
        elif t0 == "String":
            if pname == "command":
                per.append(["str:" + k for k in CMD_KINDS])
            elif pname in ("content",):
                per.append(["str:x", "str:file"])
            elif pname == "name" and b["ns"] == "__shell.gdn":
                per.append(["str:envname"])
            elif pname == "src":
                per.append(["str:src", "str:srcimport"])
            elif pname == "type_name":
                per.append(["str:typename"])
            elif pname == "method_name":
                per.append(["str:methname"])
            elif pname in ("fun_name", "name"):
                per.append(["str:funname"])
            else:
                per.append(["str:file", "str:x", "str:none"])
        elif t0 == "List<String>":
            per.append(["liststr:empty", "liststr:one"])
        elif t0 == "List<Int>":
            per.append(["listint:ok", "listint:empty", "listint:bad"])
        elif t0.startswith("List<"):
            per.append(["lit:[1]", "lit:[]"])
        elif t0 == "Int":
            per.append(["lit:1", "lit:0", "lit:-1"])
        elif t0 == "Float":
            per.append(["lit:1.5"])
        elif t0 == "Bool":
            per.append(["lit:True"])
        elif t0 == "Namespace":
            per.append(["ns:vfs"])
        elif t0.startswith("Dict<"):
            per.append(["lit:Dict[\"a\" => 1]"])
        elif t0 == "" and pname == "method_name":
            per.append(["str:methname"])
        else:
            per.append(["lit:1", "lit:\"x\""])
    if not per:
        return [[]]
    n = max(len(x) for x in per)
    vecs = []
    for i in range(n):
        vecs.append([x[i % len(x)] for x in per])
    # second source path for two-path functions: make the two differ
    for v in vecs:
        if len(v) == 2 and v[0] == v[1] and v[0].startswith("path:"):
            v[1] = "path:file2" if v[0] != "path:file2" else "path:none"
    return vecs


def recv_expr(b, w, kind="file"):
    t = (b["recv"] or "").replace(" ", "")
    if t == "Path":
        return "Path{ p: %s }" % gstr(path_text(kind, w))
    if t == "String":
        return gstr("ab\\ncd")
    if t == "Int":
        return "1"
    if t == "Float":
        return "1.5"
    if t.startswith("List<"):
        return "[1, 2]" if b["name"] != "join" else "[\"a\"]"
    if t.startswith("Dict<"):
        return "Dict[\"a\" => 1]"
    return "1"


def call_text(b, argdescs, w, recv_kind="file", alias=None, bare=False):
    args = ", ".join(render_arg(d, w) for d in argdescs)
    if b["kind"] == "method":
        return "%s.%s(%s)" % (recv_expr(b, w, recv_kind), b["name"], args)
    if b["ns"] == "__prelude.gdn" or bare:
        return "%s(%s)" % (b["name"], args)
    return "%s::%s(%s)" % (alias or NS_ALIAS[b["ns"]], b["name"], args)


def fun_ref(b, alias=None):
    if b["ns"] == "__prelude.gdn":
        return b["name"]
    return "%s::%s" % (alias or NS_ALIAS[b["ns"]], b["name"])


def header(aliases=None, bare_ns=None):
    lines = []
    for ns, al in sorted((aliases or NS_ALIAS).items()):
        if bare_ns == ns:
            lines.append('import "%s"' % ns)
        else:
            lines.append('import "%s" as %s' % (ns, al))
    return "\n".join(lines) + "\n"


# ------------------------------------------------------------------------------------------ positions

# Each position: (toplevel definitions, body statements). %C = call expression, %N = unique suffix.
POSITIONS = {
    "stmt": ("", "%C"),
    "let": ("", "let verif_v%N = %C"),
    "arg": ("", "string_repr(%C)"),
    "list": ("", "let verif_v%N = [%C]"),
    "tuple": ("", "let verif_v%N = (1, %C)"),
    "binop": ("", "let verif_v%N = string_repr(%C) == \"x\""),
    "if-cond": ("", "if string_repr(%C) == \"\" { 1 } else { 2 }"),
    "if-body": ("", "if True { %C } else { 2 }"),
    "while-body": ("", "let verif_i%N = 0\nwhile verif_i%N < 2 {\n  %C\n  verif_i%N += 1\n}"),
    "for-body": ("", "for verif_i%N in [1, 2] {\n  %C\n}"),
    "for-seq": ("", "for verif_i%N in [%C] {\n  1\n}"),
    "match-scrutinee": ("", "match Some(%C) {\n  Some(_) => { 1 }\n  None => { 2 }\n}"),
    "match-arm": ("", "match Some(1) {\n  Some(_) => { %C }\n  None => { 2 }\n}"),
    "fun": ("fun verif_f%N() {\n  %C\n}\n", "verif_f%N()"),
    "fun-return": ("fun verif_f%N() {\n  return %C\n}\n", "verif_f%N()"),
    "fun-deep": ("fun verif_f%N() {\n  verif_g%N(1)\n}\nfun verif_g%N(x) {\n  let y = verif_h%N(x)\n  y\n}\n"
                 "fun verif_h%N(x) {\n  %C\n}\n", "verif_f%N()"),
    "closure": ("", "let verif_c%N = fun() { %C }\nverif_c%N()"),
    "closure-map": ("", "[1, 2].map(fun(_) { %C })"),
    "method": ("method verif_m%N(this: Int) {\n  %C\n}\n", "1.verif_m%N()"),
    "try": ("", "try {\n  %C\n} catch (verif_e) {\n  println(\"verif-caught\")\n}"),
    "struct-field": ("", "let verif_v%N = Path{ p: string_repr(%C) }"),
    "dbg": ("", "dbg(%C)"),
    "assert": ("", "assert(string_repr(%C) != \"verif-never\")"),
    "paren": ("", "(%C)"),
    "after-work": ("", "let verif_w%N = [1, 2, 3].map(fun(x: Int) { x + 1 })\nlet verif_u%N = \"a\" ^ \"b\"\n%C"),
    "chain": ("", "string_repr(%C).len()"),
}
# positions only meaningful for plain functions (not methods): call through a function value
FUNVALUE_POSITIONS = {
    "funvalue": ("", "let verif_g%N = %F\nverif_g%N(%A)"),
    "funvalue-list": ("", "let verif_g%N = [%F]\nmatch verif_g%N.get(0) {\n  Some(f) => { f(%A) }\n  None => { 0 }\n}"),
}


def instantiate(pos, call, n, fref=None, args=None):
    tpl = POSITIONS.get(pos) or FUNVALUE_POSITIONS[pos]
    defs, body = tpl
    rep = lambda s: s.replace("%C", call).replace("%N", str(n)).replace("%F", fref or "").replace("%A", args or "")
    return rep(defs), rep(body)


# ------------------------------------------------------------------------------------------ C25 families

def nest_build(ctor, depth, var="v"):
    """Statements building a value nested `depth` deep in a loop. ctor in list|tuple|some|ok|err|struct|enum|dictv|mix"""
    init = {"list": "[]", "tuple": "(0, 0)", "some": "None", "ok": "Ok(0)", "err": "Err(0)", "struct": "VLeaf", "structlist": "VLBox{ x: [] }", "structopt": "VOBox{ x: None }",
            "enum": "VLeaf", "dictv": "Dict[\"k\" => 0]", "mix": "[]", "dictlist": "Dict[\"k\" => [0]]"}[ctor]
    step = {"list": "[%s]", "tuple": "(%s, 1)", "some": "Some(%s)", "ok": "Ok(%s)", "err": "Err(%s)",
            "struct": "VBoxed(VBox{ x: %s })", "structlist": "VLBox{ x: [%s] }", "structopt": "VOBox{ x: Some(%s) }",
            "enum": "VNode(%s)", "dictv": "Dict[\"k\" => %s]",
            "mix": "[Some((%s, 1))]", "dictlist": "Dict[\"k\" => [%s]]"}[ctor] % var
    defs = ""
    if ctor == "structlist":
        defs = "struct VLBox {\n  x: List<VLBox>,\n}\n"
    if ctor == "structopt":
        defs = "struct VOBox {\n  x: Option<VOBox>,\n}\n"
    if ctor in ("struct", "enum"):
        defs = "enum VTree {\n  VLeaf,\n  VNode(VTree),\n  VBoxed(VBox),\n}\nstruct VBox {\n  x: VTree,\n}\n"
    if ctor in ("some", "ok", "err", "struct", "enum", "dictv", "tuple"):
        # values whose static type changes with depth: keep the variable un-annotated
        pass
    body = "let %s = %s\nlet vi = 0\nwhile vi < %d {\n  %s = %s\n  vi += 1\n}\n" % (var, init, depth, var, step)
    return defs, body


NEST_OPS = {
    "none": "1",
    "drop": "v = 0\n1",
    "final-value": "v",
    "string_repr": "let s = string_repr(v)\ns.len()",
    "println": "println(string_repr(v))\n1",
    "dbg": "dbg(v)\n1",
    "eq-self": "v == v",
    "eq-copy": "let w = v\nw == v",
    "neq": "v != [v]",
    "in-list": "let l = [v, v]\nl.len()",
    "contains": "[v].contains(v)",
    "as-arg": "fun vtake(x) { 1 }\nvtake(v)",
    "closure-capture": "let c = fun() { v }\nlet r = c()\n1",
    "dict-value": "let d = Dict[\"a\" => v]\nd.get(\"a\")\n1",
    "assert-fail": "assert(v == 0)",
    "throw-repr": "throw(string_repr(v))",
    "match": "match [v].get(0) {\n  Some(x) => { 1 }\n  None => { 2 }\n}",
    "interpolate": "let s = \"a\" ^ string_repr(v)\ns.len()",
    "return-from-fun": "fun vmk(x) { return x }\nlet r = vmk(v)\n1",
}

LOOP_BODIES = [
    "", "let x = 1", "let x = [1, 2, 3].map(fun(y: Int) { y + 1 })", "let s = \"a\" ^ \"b\"",
    "match Some(1) {\n  Some(q) => { q }\n  None => { 0 }\n}", "for q in [1, 2, 3] { q + 1 }",
    "let t = (1, \"x\")\nlet (a, b) = t", "let p = Path{ p: \"x\" }\np.p", "if vn > 3 { 1 } else { 2 }",
    "let d = Dict[\"a\" => 1].set(\"b\", 2)", "let l = [1].append(2).len()", "string_repr([1, 2])",
    "let o = Some(1).or_value(2)", "\"abc\".substring(0, 1)", "let c = fun() { 1 }\nc()",
    "continue", "1 + 2 * 3 - 4", "\"a,b\".split(\",\")", "[3, 1, 2].contains(2)", "1.vstep()",
]


def nonterm_program(shape, body, phase):
    """A program that never terminates by construction. shape selects the looping mechanism."""
    pre = "method vstep(this: Int) { this + 1 }\n"
    work = "".join("let vp%d = %d + 1\n" % (i, i) for i in range(phase))
    b = body if body != "continue" or shape.startswith("while") else "1"
    ind = "\n".join("  " + x for x in b.split("\n")) if b else ""
    if shape == "while-true":
        return pre + work + "let vn = 0\nwhile True {\n%s\n}\n" % ind
    if shape == "while-counter":
        return pre + work + "let vn = 0\nwhile vn >= 0 {\n  vn = vn + 1\n  if vn > 1000000 { vn = 0 }\n%s\n}\n" % ind
    if shape == "while-nested":
        return pre + work + "let vn = 0\nwhile True {\n  while True {\n%s\n  }\n}\n" % ind.replace("\n", "\n  ")
    if shape == "while-break-inner":
        return pre + work + "let vn = 0\nwhile True {\n  while True {\n    break\n  }\n%s\n}\n" % ind
    if shape == "for-in-while":
        return pre + work + "let vn = 0\nwhile True {\n  for vq in [1, 2, 3] {\n%s\n  }\n}\n" % ind.replace("\n", "\n  ")
    if shape == "rec-direct":
        return pre + work + "fun vf(vn) {\n%s\n  vf(vn + 1)\n}\nvf(0)\n" % ind
    if shape == "rec-nontail":
        return pre + work + "fun vf(vn) {\n%s\n  1 + vf(vn + 1)\n}\nvf(0)\n" % ind
    if shape == "rec-mutual":
        return pre + work + ("fun vf(vn) {\n%s\n  vg(vn + 1)\n}\nfun vg(vn) {\n  vh(vn)\n}\nfun vh(vn) {\n  vf(vn)\n}\nvf(0)\n"
                             % ind)
    if shape == "rec-closure":
        return pre + work + "let vc = fun(g, vn) {\n%s\n  g(g, vn + 1)\n}\nvc(vc, 0)\n" % ind
    if shape == "rec-method":
        return pre + work + "method vloop(this: Int) {\n  let vn = this\n%s\n  let vnext = this + 1\n  vnext.vloop()\n}\n0.vloop()\n" % ind
    if shape == "rec-map":
        return pre + work + "fun vf(vn) {\n%s\n  [vn].map(vf)\n}\nvf(0)\n" % ind
    if shape == "rec-in-loop":
        return pre + work + "fun vf(vn) {\n  while True {\n%s\n    vf(vn + 1)\n  }\n}\nvf(0)\n" % ind.replace("\n", "\n  ")
    if shape == "rec-binop-both":
        return pre + work + "fun vf(vn) {\n%s\n  vf(vn + 1) + vf(vn + 2)\n}\nvf(0)\n" % ind
    if shape == "rec-arg":
        return pre + work + "fun vf(vn) {\n%s\n  vf(vf(vn + 1))\n}\nvf(0)\n" % ind
    if shape == "rec-struct-method":
        return pre + work + ("struct VS { n: Int }\nmethod spin(this: VS) {\n  let vn = this.n\n%s\n  VS{ n: this.n + 1 }.spin()\n}\n"
                             "VS{ n: 0 }.spin()\n" % ind)
    raise ValueError(shape)


NONTERM_SHAPES = ["while-true", "while-counter", "while-nested", "while-break-inner", "for-in-while", "rec-direct",
                  "rec-nontail", "rec-mutual", "rec-closure", "rec-method", "rec-map", "rec-in-loop",
                  "rec-binop-both", "rec-arg", "rec-struct-method"]


def wrap_mode(src, mode, where):
    """Place a program body. where: top | fun | test. For sandboxed-test everything runs inside a test.
    Definitions (fun/method/struct/enum/import lines) stay at top level."""
    defs, body = split_defs(src)
    if mode == "playground":
        if where == "top":
            return defs + body, None
        if where == "fun":
            return defs + "fun vmain() {\n%s\n}\nvmain()\n" % indent(body), None
        return defs + "test vt_main {\n%s\n}\n" % indent(body), "vt_main"
    if where == "fun":
        return defs + "fun vmain() {\n%s\n}\ntest vt_main {\n  vmain()\n}\n" % indent(body), "vt_main"
    return defs + "test vt_main {\n%s\n}\n" % indent(body), "vt_main"


def indent(s):
    return "\n".join("  " + x for x in s.rstrip("\n").split("\n"))


def split_defs(src):
    """Separate top-level definitions from statements (generator output is line-structured: a definition
    starts at column 0 with fun/method/struct/enum/import and ends at a line that is exactly '}' )."""
    defs, body = [], []
    lines = src.split("\n")
    i = 0
    while i < len(lines):
        ln = lines[i]
        if re.match(r"^(fun|method|struct|enum)\b", ln):
            j = i
            if ln.rstrip().endswith("}") and ln.count("{") == ln.count("}"):
                defs.append(ln)
                i += 1
                continue
            while j < len(lines) and lines[j] != "}":
                j += 1
            defs.extend(lines[i:j + 1])
            i = j + 1
            continue
        if ln.startswith("import "):
            defs.append(ln)
            i += 1
            continue
        body.append(ln)
        i += 1
    d = "\n".join(defs)
    return (d + "\n" if d else ""), "\n".join(x for x in body if x != "") + "\n"
