"""Canonical source printer for gm.gen.prog programs, recording the byte span of every expression.

Programs are ASCII-only, so character offsets are byte offsets.
"""
from .prog import ty_src, UNIT

ATOMIC = ("var", "int", "bool", "str", "unit", "call", "callv", "mcall", "field", "list", "tuple", "dict", "some", "none",
          "ok", "err", "variant", "structlit", "throw", "paren")


def esc(s):
    return '"' + s.replace("\\", "\\\\").replace('"', '\\"').replace("\n", "\\n") + '"'


class Printer:
    def __init__(self, annotate=True):
        self.buf = []
        self.pos = 0
        self.ind = 0
        self.spans = {}        # id(node) -> (start, end)
        self.nodes = []        # (node, start, end) in print order
        self.binders = []      # (bid, name, start, end, "def"|"use")
        self.annotate = annotate

    def w(self, s):
        self.buf.append(s)
        self.pos += len(s)

    def nl(self):
        self.w("\n" + "  " * self.ind)

    def text(self):
        return "".join(self.buf)

    def name(self, name, bid, role, kind=None):
        st = self.pos
        self.w(name)
        if bid:
            self.binders.append((bid, name, st, self.pos, role, kind))

    # ------------------------------------------------------------ expressions
    def paren_if(self, e, cond):
        if cond:
            self.w("(")
            self.expr(e)
            self.w(")")
        else:
            self.expr(e)

    def expr(self, e):
        st = self.pos
        k = e["k"]
        if k == "int":
            self.w(str(e["v"]))
        elif k == "bool":
            self.w("True" if e["v"] else "False")
        elif k == "str":
            self.w(esc(e["v"]))
        elif k == "unit":
            self.w("Unit")
        elif k == "var":
            self.name(e["name"], e["bid"], "use")
        elif k == "paren":          # explicit (redundant) parentheses, only produced by monitors that ask for them
            self.w("(")
            self.expr(e["e"])
            self.w(")")
        elif k == "bin":
            self.paren_if(e["l"], e["l"]["k"] not in ATOMIC)
            self.w(" %s " % e["op"])
            self.paren_if(e["r"], e["r"]["k"] not in ATOMIC)
        elif k == "list":
            self.w("[")
            self.commas(e["items"])
            self.w("]")
        elif k == "tuple":
            self.w("(")
            self.commas(e["items"])
            if len(e["items"]) == 1:
                self.w(",")
            self.w(")")
        elif k == "dict":
            self.w("Dict[")
            for i, (kk, vv) in enumerate(e["items"]):
                if i:
                    self.w(", ")
                self.expr(kk)
                self.w(" => ")
                self.expr(vv)
            self.w("]")
        elif k == "some":
            self.w("Some(")
            self.expr(e["e"])
            self.w(")")
        elif k == "none":
            self.w("None")
        elif k == "ok":
            self.w("Ok(")
            self.expr(e["e"])
            self.w(")")
        elif k == "err":
            self.w("Err(")
            self.expr(e["e"])
            self.w(")")
        elif k == "variant":
            self.w(e["variant"])
            if e["e"] is not None:
                self.w("(")
                self.expr(e["e"])
                self.w(")")
        elif k == "structlit":
            self.w(e["name"] + "{ ")
            for i, (f, v) in enumerate(e["fields"]):
                if i:
                    self.w(", ")
                self.w(f + ": ")
                self.expr(v)
            self.w(" }")
        elif k == "field":
            self.paren_if(e["e"], e["e"]["k"] not in ATOMIC)
            self.w("." + e["f"])
        elif k == "call":
            self.w(e["fn"] + "(")
            self.commas(e["args"])
            self.w(")")
        elif k == "callv":
            self.expr(e["f"])
            self.w("(")
            self.commas(e["args"])
            self.w(")")
        elif k == "mcall":
            r = e["recv"]
            self.paren_if(r, r["k"] not in ATOMIC or (r["k"] == "int" and r["v"] < 0))
            self.w("." + e["m"] + "(")
            self.commas(e["args"])
            self.w(")")
        elif k == "if":
            self.w("if ")
            self.expr(e["cond"])
            self.w(" ")
            self.block(e["then"])
            if e["els"] is not None:
                self.w(" else ")
                self.block(e["els"])
        elif k == "match":
            self.w("match ")
            self.expr(e["scrut"])
            self.w(" {")
            self.ind += 1
            for a in e["arms"]:
                self.nl()
                self.w(a["variant"])
                if a["bind"] is not None:
                    self.w("(")
                    self.name(a["bind"][0], a["bind"][1], "def", "arm")
                    self.w(")")
                self.w(" => ")
                self.block(a["body"])
            self.ind -= 1
            self.nl()
            self.w("}")
        elif k == "lambda":
            self.w("fun(")
            for i, (n, b, t) in enumerate(e["params"]):
                if i:
                    self.w(", ")
                self.name(n, b, "def", "lparam")
                self.w(": " + ty_src(t))
            # "ret_ann": False -> no return type written (only monitors that ask for it)
            self.w("): " + ty_src(e["ret"]) + " " if e.get("ret_ann", True) else ") ")
            self.block(e["body"])
        elif k == "throw":
            self.w("throw(")
            self.expr(e["msg"])
            self.w(")")
        else:
            raise ValueError(k)
        self.spans[id(e)] = (st, self.pos)
        self.nodes.append((e, st, self.pos))

    def commas(self, es):
        for i, x in enumerate(es):
            if i:
                self.w(", ")
            self.expr(x)

    # ------------------------------------------------------------ statements
    def block(self, stmts):
        self.w("{")
        self.ind += 1
        for s in stmts:
            self.nl()
            self.stmt(s)
        self.ind -= 1
        self.nl()
        self.w("}")

    def stmt(self, s):
        st = self.pos
        k = s["k"]
        if k == "expr":
            self.expr(s["e"])
        elif k == "let":
            self.w("let ")
            self.name(s["name"], s["bid"], "def", "let")
            if s.get("ann") is not None and self.annotate:
                self.w(": " + ty_src(s["ann"]))
            self.w(" = ")
            self.expr(s["e"])
        elif k == "letd":
            self.w("let (")
            for i, (n, b) in enumerate(s["dest"]):
                if i:
                    self.w(", ")
                self.name(n, b, "def", "letd")
            self.w(") = ")
            self.expr(s["e"])
        elif k == "assign":
            self.name(s["name"], s["bid"], "use")
            self.w(" = ")
            self.expr(s["e"])
        elif k == "upd":
            self.name(s["name"], s["bid"], "use")
            self.w(" %s= " % s["op"])
            self.expr(s["e"])
        elif k == "while":
            self.w("while ")
            self.expr(s["cond"])
            self.w(" ")
            self.block(s["body"])
        elif k == "for":
            self.w("for ")
            d = s["dest"]
            if "v" in d:
                self.name(d["v"][0], d["v"][1], "def", "for")
            else:
                self.w("(")
                for i, (n, b) in enumerate(d["d"]):
                    if i:
                        self.w(", ")
                    self.name(n, b, "def", "ford")
                self.w(")")
            self.w(" in ")
            self.expr(s["e"])
            self.w(" ")
            self.block(s["body"])
        elif k == "break":
            self.w("break")
        elif k == "continue":
            self.w("continue")
        elif k == "return":
            self.w("return")
            if s.get("e") is not None:
                self.w(" ")
                self.expr(s["e"])
        elif k == "assert":
            self.w("assert(")
            self.expr(s["e"])
            self.w(")")
        else:
            raise ValueError(k)
        s["_span"] = (st, self.pos)

    # ------------------------------------------------------------ program
    def program(self, prog):
        self.w("fun verif_id<T>(x: T): T {")
        self.ind += 1
        self.nl()
        self.w("x")
        self.ind -= 1
        self.nl()
        self.w("}\n\n")
        for en in prog["enums"]:
            self.w("enum %s {\n" % en["name"])
            for vn, pt in en["variants"]:
                self.w("  " + vn + ("(%s)" % ty_src(pt) if pt is not None else "") + ",\n")
            self.w("}\n\n")
        for st in prog["structs"]:
            self.w("struct %s {\n" % st["name"])
            for f, t in st["fields"]:
                self.w("  %s: %s,\n" % (f, ty_src(t)))
            self.w("}\n\n")
        for f in prog["funs"]:
            st0 = self.pos
            if f.get("method"):
                self.w("method %s(this: Int" % f["name"])
            else:
                self.w("fun %s(" % f["name"])
            for i, (n, b, t) in enumerate(f["params"]):
                if i or f.get("method"):
                    self.w(", ")
                self.name(n, b, "def", "param")
                if self.annotate:
                    self.w(": " + ty_src(t))
            self.w(")")
            if self.annotate:
                self.w(": " + ty_src(f["ret"]))
            self.w(" ")
            self.block(f["body"])
            f["_span"] = (st0, self.pos)
            self.w("\n\n")
        for s in prog["main"]:
            self.stmt(s)
            self.w("\n")
        return self.text()


def print_program(prog, annotate=True):
    p = Printer(annotate)
    src = p.program(prog)
    return src, p
