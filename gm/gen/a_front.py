"""Case streams and CLI helpers shared by the front-end monitors of group A (C01, C18, C23).

A case is {"cls": generator class, "src": text} (or {"cls": "invalid_utf8", "hex": bytes as hex}).
"""
import hashlib
import os
import random
import re

from .. import core
from . import text as T

CORPUS_DIR = os.path.join(core.VERIF, "corpus")


def committed(prop):
    """Committed regression inputs /verif/corpus/<prop>/* (text files; *.hex = raw bytes in hex)."""
    d = os.path.join(CORPUS_DIR, prop)
    out = []
    if not os.path.isdir(d):
        return out
    for f in sorted(os.listdir(d)):
        p = os.path.join(d, f)
        if not os.path.isfile(p):
            continue
        raw = open(p, "rb").read()
        if f.endswith(".hex"):
            out.append({"cls": "invalid_utf8", "hex": raw.decode("ascii").strip(), "name": f})
            continue
        try:
            out.append({"cls": "committed", "src": T.sanitize(raw.decode("utf-8")), "name": f})
        except UnicodeDecodeError:
            out.append({"cls": "invalid_utf8", "hex": raw.hex(), "name": f})
    return out


def h32(s):
    return int(hashlib.sha1(s.encode("utf-8", "replace")).hexdigest()[:8], 16)


def sampled(src, percent=2.0, salt=""):
    """Deterministic, seed-independent ~percent % sample keyed on the text itself."""
    return (h32(salt + src) % 10000) < percent * 100


def cli_normalize(src):
    """What `garden format` (and the refactoring subcommands) make of a file before working on it: lines are
    split on '\\n', one trailing '\\r' is dropped from each, every line is terminated by '\\n'. Applying it in
    the generator means the in-process hook and the CLI see byte-identical text."""
    if src == "":
        return ""
    parts = src.split("\n")
    if parts and parts[-1] == "":
        parts.pop()
    return "".join((p[:-1] if p.endswith("\r") else p) + "\n" for p in parts)


def corpus_whole(tier):
    for name, t in T.corpus_files():
        if len(t) <= (40000 if tier == "quick" else 400000):
            yield {"cls": "corpus", "src": t, "name": name}


def corpus_truncations(tier, seed, per_file=None):
    """Truncation at token boundaries: quick = a seeded selection of files (every boundary of each, capped),
    thorough = every boundary of every file up to 20 kB."""
    files = [(n, t) for n, t in T.corpus_files() if 0 < len(t) <= 20000]
    rng = random.Random(seed * 31 + 7)
    if tier == "quick":
        files = rng.sample(files, min(25, len(files)))
        cap = per_file or 120
    else:
        cap = per_file or 4000
    for name, t in files:
        cuts = list(T.truncations(t))
        if len(cuts) > cap:
            cuts = rng.sample(cuts, cap)
        for c in cuts:
            yield {"cls": "truncation_sweep", "src": c, "name": name}


DEPTHS = {"quick": [60, 400], "thorough": [60, 400, 3000, 20000, 100000]}


# constructs that are repeated side by side rather than nested: the front end is quadratic in some of them
# (98 s for 20000 parameters in the dev build), which is slow but not a hang, so they stop at 20000
WIDE_KINDS = ("many_args", "many_items", "long_line", "let_chain", "many_comments", "string_big")


def depth_cases(tier):
    for kind in T.NEST_KINDS:
        for k in DEPTHS[tier]:
            if kind in WIDE_KINDS and k > 20000:
                continue
            yield {"cls": "depth", "kind": kind, "k": k, "src": T.nest(random.Random(k), k, kind)}


def random_cases(seed, salt, classes=None, max_len=6000, normalize=False):
    rng = random.Random(seed * 1000003 + salt)
    for cls, t in T.texts(rng, None, classes=classes, max_len=max_len):
        if normalize:
            t = cli_normalize(t)
        yield {"cls": cls, "src": t}


# --------------------------------------------------------------------------- verdict helpers

def norm_err(msg):
    """Template of a parse-error / diagnostic message (code fragments and numbers stripped)."""
    msg = re.sub(r"`[^`]*`", "`_`", msg or "")
    msg = re.sub(r"\d+", "N", msg)
    return msg[:60]


def outcome_key(resp):
    """Coverage key from an in-process response: what the front end made of the text."""
    if resp is None:
        return "none"
    if "crash" in resp:
        return "crash:" + str(resp["crash"])
    for f in ("lex_panic", "parse_panic", "check_panic", "format_panic", "format2_panic", "ast_panic"):
        if f in resp:
            return f
    pe = resp.get("parse_errors") or []
    if pe:
        return "perr%d:%s" % (min(len(pe), 3), norm_err(pe[0].get("msg")))
    d = resp.get("diagnostics") or []
    if d:
        return "diag%d:%s" % (min(len(d), 3), norm_err(d[0].get("msg")))
    return "clean"


PANIC_FIELDS = ("lex_panic", "parse_panic", "check_panic", "format_panic", "format2_panic", "ast_panic",
                "formatted_parse_panic")


def stable_sig(sig):
    """core.panic_sig keeps the quoted source text of slice-index panics (it contains back-ticks and newlines that
    defeat the literal stripping); cut such messages at the fixed part so that one defect has one signature."""
    for marker in (" is not a char boundary", " is out of bounds of", " out of range for"):
        i = sig.find(marker)
        if i >= 0:
            head = re.sub(r"(byte index|index) \S+", r"\1 N", sig[:i])
            return head + marker
    return sig


def hook_crash(resp):
    """-> (signature, description) if the in-process response shows a crash, else None."""
    if resp is None:
        return ("lost", "no response")
    if "crash" in resp:
        c = resp["crash"]
        if c == "lost":
            return None
        if c == "timeout":
            return ("hang", "watchdog")
        err = resp.get("stderr", "")
        if c == "panic":
            return (stable_sig(core.panic_sig(err)), err[-400:])
        if "has overflowed its stack" in err:
            return ("abort:stack-overflow", err[-300:])
        if "memory allocation" in err:
            return ("abort:alloc", err[-300:])
        return (str(c) + ":?", err[-300:])
    for f in PANIC_FIELDS:
        if f in resp:
            return (stable_sig(core.panic_sig(resp[f])), "%s: %s" % (f, resp[f][:300]))
    return None
