"""Typed program generator for Garden's core fragment (DESIGN 3.4 `gen.prog`, Appendix C).

A program is a tree of plain dicts (JSON-able). Every variable occurrence carries the id of its
binder (`bid`), every expression its static type (`ty`) and two flags: `pure` (no print/assign) and
`total` (cannot raise). The generator keeps the reference semantics unambiguous:

  * no two expressions that are not (pure and total) in sibling positions (argument lists, list/tuple
    items, struct fields, binary operands) - Garden's sibling evaluation order is undocumented;
  * closures only capture variables that are never assigned (capture is by copy in Garden; the docs
    are silent), and never assign to outer variables;
  * functions reference only parameters, locals and functions (top-level `let`s are not visible in
    functions in Garden);
  * every statement is printed on its own line, and an expression in statement / final position never
    starts with `(` or `[` (juxtaposition is how Garden separates expressions);
  * loops are counter-bounded, recursion is on a decreasing counter: every program terminates.

Types: "Int" "Bool" "String" "Unit" ["List",T] ["Tuple",[T..]] ["Option",T] ["Result",T,"String"]
       ["Enum",name] ["Struct",name] ["Fun",[T..],R]
"""
import random

INT, BOOL, STR, UNIT = "Int", "Bool", "String", "Unit"
NAMES = ["a", "b", "c", "d", "e", "x", "y", "z", "n", "m", "acc", "tmp"]
WORDS = ["", "a", "b", "ab", "hi", "x y", "foo", "Z"]


def ty_src(t):
    if isinstance(t, str):
        return t
    k = t[0]
    if k == "List":
        return "List<%s>" % ty_src(t[1])
    if k == "Tuple":
        return "(%s)" % ", ".join(ty_src(x) for x in t[1]) if len(t[1]) != 1 else "(%s,)" % ty_src(t[1][0])
    if k == "Option":
        return "Option<%s>" % ty_src(t[1])
    if k == "Result":
        return "Result<%s, %s>" % (ty_src(t[1]), ty_src(t[2]))
    if k in ("Enum", "Struct"):
        return t[1]
    if k == "Fun":
        return "Fun<(%s), %s>" % (", ".join(ty_src(x) for x in t[1]) + ("," if len(t[1]) == 1 else ""), ty_src(t[2]))
    raise ValueError(t)


def E(k, ty, pure=True, total=True, **kw):
    d = {"k": k, "ty": ty, "pure": pure, "total": total}
    d.update(kw)
    return d


class Opts:
    def __init__(self, **kw):
        self.n_funs = 3
        self.n_main = 8
        self.max_depth = 3
        self.errors = 0.03          # probability weight of partial expressions
        self.closures = True
        self.enums = True
        self.structs = True
        self.assign = True          # assignments / += allowed (C20 wants assignment-free programs)
        self.prints = True
        self.loops = True
        self.while_loops = True
        self.early_exit = True      # break / continue / return
        self.shadow = 0.5           # probability of reusing a visible name for a new let
        self.annotate_lets = 0.3
        self.toplevel_pure = False  # C27: earlier top-level items pure, no reassignment of toplevel vars
        self.__dict__.update(kw)


class Var:
    __slots__ = ("name", "bid", "ty", "mutable", "toplevel")

    def __init__(self, name, bid, ty, mutable, toplevel=False):
        self.name, self.bid, self.ty, self.mutable, self.toplevel = name, bid, ty, mutable, toplevel


class Gen:
    def __init__(self, rng, opts=None):
        self.rng = rng
        self.o = opts or Opts()
        self.bid = 0
        self.scopes = []       # list of dict name -> Var
        self.funs = []         # dicts: name, params [(name,bid,ty)], ret, pure, total, body
        self.enums = []        # dicts: name, variants [(vname, payload_ty|None)]
        self.structs = []      # dicts: name, fields [(fname, ty)]
        self.in_loop = 0
        self.fun_ret = None    # return type when inside a function / lambda body
        self.in_closure = 0
        self.cur_fun = None
        self.fresh = 0
        self.closure_bases = []
        self.noblock = 0

    # ---------------------------------------------------------------- scopes
    def new_bid(self):
        self.bid += 1
        return self.bid

    def push(self):
        self.scopes.append({})

    def pop(self):
        self.scopes.pop()

    def declare(self, name, ty, mutable, toplevel=False):
        v = Var(name, self.new_bid(), ty, mutable, toplevel)
        self.scopes[-1][name] = v
        return v

    def visible(self):
        seen = {}
        for sc in reversed(self.scopes):
            for n, v in sc.items():
                if n not in seen:
                    seen[n] = v
        return list(seen.values())

    def vars_of(self, ty, mutable=None):
        out = []
        for v in self.visible():
            if v.ty == ty and (mutable is None or v.mutable == mutable):
                if self.in_closure and v.mutable and not self._declared_in_closure(v):
                    continue
                out.append(v)
        return out

    def _declared_in_closure(self, v):
        # scopes pushed since the innermost closure started are recorded in self.closure_base
        base = self.closure_bases[-1] if getattr(self, "closure_bases", None) else 0
        for sc in self.scopes[base:]:
            if sc.get(v.name) is v:
                return True
        return False

    def pick_name(self):
        r = self.rng
        if self.o.toplevel_pure and len(self.scopes) == 1 and self.cur_fun is None and not self.in_closure:
            return self.fresh_name("t")
        vis = [v.name for v in self.visible() if not v.name.startswith("i_")]
        if vis and r.random() < self.o.shadow:
            return r.choice(vis)
        return r.choice(NAMES)

    def fresh_name(self, prefix):
        self.fresh += 1
        return "%s%d" % (prefix, self.fresh)

    # ---------------------------------------------------------------- types
    def rand_ty(self, depth=0, allow_fun=False):
        r = self.rng
        base = [INT, INT, INT, BOOL, STR]
        if depth >= 2:
            return r.choice(base)
        k = r.random()
        if k < 0.55:
            return r.choice(base)
        if k < 0.67:
            return ["List", self.rand_ty(depth + 1)]
        if k < 0.75:
            return ["Tuple", [self.rand_ty(depth + 1) for _ in range(r.choice([2, 2, 3]))]]
        if k < 0.84:
            return ["Option", self.rand_ty(depth + 1)]
        if k < 0.89:
            return ["Result", self.rand_ty(depth + 1), STR]
        if k < 0.94 and self.enums:
            return ["Enum", r.choice(self.enums)["name"]]
        if k < 0.98 and self.structs:
            return ["Struct", r.choice(self.structs)["name"]]
        if allow_fun and self.o.closures:
            return ["Fun", [INT], r.choice([INT, BOOL, STR])]
        return r.choice(base)

    # ---------------------------------------------------------------- expressions
    def expr(self, ty, depth, eff):
        """Generate an expression of type ty. eff=False => must be pure and total."""
        r = self.rng
        if depth <= 0:
            return self.leaf(ty, eff)
        cands = self.candidates(ty, depth, eff)
        return r.choice(cands)()

    def head(self, ty, depth, eff):
        """Expression for a head position (condition, scrutinee, iteree): no block-valued forms inside."""
        self.noblock += 1
        try:
            return self.expr(ty, depth, eff)
        finally:
            self.noblock -= 1

    def leaf(self, ty, eff=False):
        r = self.rng
        vs = self.vars_of(ty)
        if vs and r.random() < 0.6:
            v = r.choice(vs)
            return E("var", ty, name=v.name, bid=v.bid)
        return self.literal(ty)

    def literal(self, ty):
        r = self.rng
        if ty == INT:
            return E("int", INT, v=r.choice([0, 1, 2, 3, 5, 7, 10, -1, -4, 12, 100]))
        if ty == BOOL:
            ivs = self.vars_of(INT)
            if ivs and r.random() < 0.7:
                v = r.choice(ivs)
                return E("bin", BOOL, op=r.choice(["<", "<=", ">", ">=", "==", "!="]),
                         l=E("var", INT, name=v.name, bid=v.bid), r=E("int", INT, v=r.choice([0, 1, 2, 3, 5, 10])))
            return E("bool", BOOL, v=r.random() < 0.5)
        if ty == STR:
            return E("str", STR, v=r.choice(WORDS))
        if ty == UNIT:
            return E("unit", UNIT)
        k = ty[0]
        if k == "List":
            n = r.choice([0, 1, 2, 3])
            return E("list", ty, items=[self.leaf(ty[1]) for _ in range(n)])
        if k == "Tuple":
            return E("tuple", ty, items=[self.leaf(t) for t in ty[1]])
        if k == "Option":
            if r.random() < 0.35:
                return E("none", ty)
            return E("some", ty, e=self.leaf(ty[1]))
        if k == "Result":
            if r.random() < 0.35:
                return E("err", ty, e=self.leaf(ty[2]))
            return E("ok", ty, e=self.leaf(ty[1]))
        if k == "Enum":
            en = self.enum(ty[1])
            vn, pt = r.choice(en["variants"])
            return E("variant", ty, enum=ty[1], variant=vn, e=self.leaf(pt) if pt is not None else None)
        if k == "Struct":
            st = self.struct(ty[1])
            return E("structlit", ty, name=ty[1], fields=[[f, self.leaf(t)] for f, t in st["fields"]])
        if k == "Fun":
            return self.lambda_(ty, 1)
        raise ValueError(ty)

    def enum(self, name):
        return next(e for e in self.enums if e["name"] == name)

    def struct(self, name):
        return next(s for s in self.structs if s["name"] == name)

    def siblings(self, tys, depth, eff):
        """Expressions for sibling positions: at most one may be impure/partial."""
        r = self.rng
        k = r.randrange(len(tys)) if (eff and tys) else -1
        return [self.expr(t, depth, eff and i == k) for i, t in enumerate(tys)]

    def flags(self, *es):
        return all(e["pure"] for e in es), all(e["total"] for e in es)

    def candidates(self, ty, depth, eff):
        r = self.rng
        c = [lambda: self.leaf(ty), lambda: self.leaf(ty)]
        d = depth - 1

        def ifexpr():
            cond = self.head(BOOL, d, eff)
            t = self.block_expr(ty, d, eff)
            f = self.block_expr(ty, d, eff)
            p, tt = self.flags(cond, t, f)
            return E("if", ty, p, tt, cond=cond, then=t["body"], els=f["body"])
        if not self.noblock:
            c.append(ifexpr)

        def matchexpr():
            sty = r.choice([["Option", r.choice([INT, STR])], ["Result", INT, STR]] +
                           ([["Enum", r.choice(self.enums)["name"]]] if self.enums else []))
            scrut = self.head(sty, d, eff)
            arms, p, tt = self.arms(sty, ty, d, eff)
            return E("match", ty, p and scrut["pure"], tt and scrut["total"], scrut=scrut, arms=arms)
        if depth >= 2 and not self.noblock:
            c.append(matchexpr)

        # calls to named functions
        fs = [f for f in self.funs if f["ret"] == ty and (eff or (f["pure"] and f["total"]))
              and not (self.in_closure and False)]
        for f in fs[:3]:
            def call(f=f):
                args = self.siblings([p[2] for p in f["params"]], d, eff and f["pure"] and f["total"])
                p, tt = self.flags(*args)
                return E("call", ty, p and f["pure"], tt and f["total"], fn=f["name"], args=args)
            c.append(call)
        # calls of closure variables
        for v in self.visible():
            if isinstance(v.ty, list) and v.ty[0] == "Fun" and v.ty[2] == ty and not (self.in_closure and v.mutable):
                def callv(v=v):
                    args = self.siblings(v.ty[1], d, False)
                    # closures generated here are pure and total (see lambda_)
                    return E("callv", ty, True, True, f=E("var", v.ty, name=v.name, bid=v.bid), args=args)
                c.append(callv)
        # field access
        for v in self.visible():
            if isinstance(v.ty, list) and v.ty[0] == "Struct":
                for fn, ft in self.struct(v.ty[1])["fields"]:
                    if ft == ty:
                        c.append(lambda v=v, fn=fn: E("field", ty, e=E("var", v.ty, name=v.name, bid=v.bid), f=fn))
        if ty == INT:
            def arith():
                op = r.choice(["+", "-", "*", "+", "-"])
                l, rr = self.siblings([INT, INT], d, eff)
                p, tt = self.flags(l, rr)
                return E("bin", INT, p, tt, op=op, l=l, r=rr)
            c += [arith, arith]

            def divlit():
                op = r.choice(["/", "%"])
                l = self.expr(INT, d, eff)
                rr = E("int", INT, v=r.choice([1, 2, 3, 5, -2, 7]))
                return E("bin", INT, l["pure"], l["total"], op=op, l=l, r=rr)
            c.append(divlit)
            if eff and r.random() < self.o.errors * 3:
                def divvar():
                    op = r.choice(["/", "%"])
                    l = self.expr(INT, d, False)
                    rr = self.expr(INT, d, False)
                    return E("bin", INT, True, False, op=op, l=l, r=rr)
                c.append(divvar)

            def length():
                t = r.choice([["List", INT], STR, ["List", STR]])
                e = self.expr(t, d, eff)
                return E("mcall", INT, e["pure"], e["total"], recv=e, m="len", args=[])
            c.append(length)

            def minmax():
                l, rr = self.siblings([INT, INT], d, eff)
                p, tt = self.flags(l, rr)
                return E("call", INT, p, tt, fn=r.choice(["min", "max"]), args=[l, rr], builtin=True)
            c.append(minmax)
            if eff and r.random() < self.o.errors * 2:
                def orthrow():
                    e = self.expr(["Option", INT], d, False)
                    return E("mcall", INT, True, False, recv=e, m="or_throw", args=[])
                c.append(orthrow)
        elif ty == BOOL:
            def cmp():
                op = r.choice(["<", "<=", ">", ">=", "==", "!="])
                l, rr = self.siblings([INT, INT], d, eff)
                p, tt = self.flags(l, rr)
                return E("bin", BOOL, p, tt, op=op, l=l, r=rr)
            c += [cmp, cmp]

            def logic():
                op = r.choice(["&&", "||"])
                l, rr = self.siblings([BOOL, BOOL], d, False)
                return E("bin", BOOL, True, True, op=op, l=l, r=rr)
            c.append(logic)

            def streq():
                l, rr = self.siblings([STR, STR], d, eff)
                p, tt = self.flags(l, rr)
                return E("bin", BOOL, p, tt, op=r.choice(["==", "!="]), l=l, r=rr)
            c.append(streq)

            def notb():
                e = self.expr(BOOL, d, eff)
                return E("call", BOOL, e["pure"], e["total"], fn="not", args=[e], builtin=True)
            c.append(notb)
        elif ty == STR:
            def concat():
                l, rr = self.siblings([STR, STR], d, eff)
                p, tt = self.flags(l, rr)
                return E("bin", STR, p, tt, op="^", l=l, r=rr)
            c += [concat]

            def srepr():
                e = self.expr(self.rand_ty(1), d, eff)
                return E("call", STR, e["pure"], e["total"], fn="string_repr", args=[e], builtin=True)
            c += [srepr, srepr]
        elif isinstance(ty, list):
            k = ty[0]
            if k == "List":
                def lit():
                    n = r.choice([1, 2, 3])
                    items = self.siblings([ty[1]] * n, d, eff)
                    p, tt = self.flags(*items)
                    return E("list", ty, p, tt, items=items)
                c.append(lit)

                def append():
                    l, x = self.siblings([ty, ty[1]], d, eff)
                    p, tt = self.flags(l, x)
                    return E("mcall", ty, p, tt, recv=l, m="append", args=[x])
                c += [append]
                if self.o.closures and not self.in_closure and depth >= 2:
                    def mapf():
                        src_ty = r.choice([INT, STR])
                        l = self.expr(["List", src_ty], d, eff)
                        lam = self.lambda_(["Fun", [src_ty], ty[1]], d)
                        return E("mcall", ty, l["pure"], l["total"], recv=l, m="map", args=[lam])

                    def filt():
                        l = self.expr(ty, d, eff)
                        lam = self.lambda_(["Fun", [ty[1]], BOOL], d)
                        return E("mcall", ty, l["pure"], l["total"], recv=l, m="filter", args=[lam])
                    c += [mapf, filt]
                if ty[1] == INT:
                    def rng_():
                        a = r.choice([0, 1, 2])
                        return E("call", ty, fn="range", args=[E("int", INT, v=a), E("int", INT, v=a + r.choice([0, 1, 3, 4]))], builtin=True)
                    c.append(rng_)
            elif k == "Tuple":
                def tup():
                    items = self.siblings(ty[1], d, eff)
                    p, tt = self.flags(*items)
                    return E("tuple", ty, p, tt, items=items)
                c.append(tup)
            elif k == "Option":
                def some():
                    e = self.expr(ty[1], d, eff)
                    return E("some", ty, e["pure"], e["total"], e=e)
                c.append(some)

                def get():
                    l, i = self.siblings([["List", ty[1]], INT], d, eff)
                    p, tt = self.flags(l, i)
                    return E("mcall", ty, p, tt, recv=l, m="get", args=[i])
                c.append(get)
            elif k == "Result":
                def okerr():
                    if r.random() < 0.6:
                        e = self.expr(ty[1], d, eff)
                        return E("ok", ty, e["pure"], e["total"], e=e)
                    e = self.expr(ty[2], d, eff)
                    return E("err", ty, e["pure"], e["total"], e=e)
                c.append(okerr)
            elif k == "Enum":
                def variant():
                    en = self.enum(ty[1])
                    vn, pt = r.choice(en["variants"])
                    e = self.expr(pt, d, eff) if pt is not None else None
                    return E("variant", ty, e["pure"] if e else True, e["total"] if e else True, enum=ty[1], variant=vn, e=e)
                c.append(variant)
            elif k == "Struct":
                def slit():
                    st = self.struct(ty[1])
                    es = self.siblings([t for _, t in st["fields"]], d, eff)
                    p, tt = self.flags(*es)
                    return E("structlit", ty, p, tt, name=ty[1], fields=[[f, e] for (f, _), e in zip(st["fields"], es)])
                c.append(slit)
            elif k == "Fun":
                c.append(lambda: self.lambda_(ty, d))
        if eff and ty != UNIT and r.random() < self.o.errors:
            def throw():
                return E("throw", ty, True, False, msg=E("str", STR, v=r.choice(["boom", "bad " + str(r.randint(0, 9))])))
            c.append(throw)
        return c

    def block_expr(self, ty, depth, eff):
        """A block (list of statements) whose value has type ty. Returns {"body": [...], pure, total}."""
        self.push()
        body = []
        r = self.rng
        pure = total = True
        if eff and depth >= 1 and r.random() < 0.5:
            for _ in range(r.choice([1, 1, 2])):
                s = self.stmt(depth - 1, simple=True)
                body += s
            pure = total = False
        elif depth >= 1 and r.random() < 0.35:
            # pure local bindings (often shadowing an outer name, possibly using it on the right-hand side)
            for _ in range(r.choice([1, 1, 2])):
                lt = r.choice([INT, INT, STR, BOOL])
                outer = [w for w in self.vars_of(lt) if not w.name.startswith("i_") and not (self.o.toplevel_pure and w.toplevel)]
                if outer and r.random() < 0.35:
                    # `let x = x + 1`: the new binding shadows the variable its own right-hand side reads
                    w = r.choice(outer)
                    wv = E("var", lt, name=w.name, bid=w.bid)
                    if lt == INT:
                        e = E("bin", INT, op=r.choice(["+", "-", "*"]), l=wv, r=E("int", INT, v=r.choice([1, 2, 3])))
                    elif lt == STR:
                        e = E("bin", STR, op="^", l=wv, r=E("str", STR, v="s"))
                    else:
                        e = E("call", BOOL, fn="not", args=[wv], builtin=True)
                    v = self.declare(w.name, lt, False)
                else:
                    e = self.expr(lt, depth - 1, False)
                    v = self.declare(self.pick_name(), lt, False)
                body.append({"k": "let", "name": v.name, "bid": v.bid, "ann": None, "e": e})
                if r.random() < 0.3:
                    # a pure expression statement whose value is discarded
                    st = self.final_expr(INT, max(1, depth - 1), False)
                    if st["k"] not in ("int", "var"):
                        body.append({"k": "expr", "e": st, "discarded": True})
        fin = self.final_expr(ty, depth, eff)
        body.append({"k": "expr", "e": fin})
        self.pop()
        return {"body": body, "pure": pure and fin["pure"], "total": total and fin["total"]}

    def final_expr(self, ty, depth, eff):
        """Expression for statement / final position: must not print with a leading `(` or `[`."""
        for _ in range(20):
            e = self.expr(ty, depth, eff)
            if not starts_open(e):
                return e
        vs = self.vars_of(ty)
        if vs:
            v = self.rng.choice(vs)
            return E("var", ty, name=v.name, bid=v.bid)
        e = self.literal(ty)
        if starts_open(e):
            # bind through a let in the caller is not possible here; use an identity-free form
            return E("if", ty, e["pure"], e["total"], cond=E("bool", BOOL, v=True),
                     then=[{"k": "expr", "e": self.wrap_var(e)}], els=[{"k": "expr", "e": self.wrap_var(e)}]) if False else self.safe_literal(ty)
        return e

    def safe_literal(self, ty):
        """A literal-ish expression of type ty that does not start with ( or [."""
        k = ty[0] if isinstance(ty, list) else ty
        if k == "List":
            # xs.append needs a receiver that starts with [ ; use range for ints, else a call to a helper var
            return E("call", ty, fn="verif_id", args=[E("list", ty, items=[])], builtin=True, helper=True)
        if k == "Tuple":
            return E("call", ty, fn="verif_id", args=[self.literal(ty)], builtin=True, helper=True)
        return self.literal(ty)

    def wrap_var(self, e):
        return e

    def arms(self, sty, ty, depth, eff, stmt=False):
        """Match arms over scrutinee type sty producing ty (or statements if stmt)."""
        r = self.rng
        k = sty[0]
        pats = []
        if k == "Option":
            pats = [("Some", sty[1]), ("None", None)]
        elif k == "Result":
            pats = [("Ok", sty[1]), ("Err", sty[2])]
        else:
            pats = [(vn, pt) for vn, pt in self.enum(sty[1])["variants"]]
        use_wild = len(pats) > 1 and r.random() < 0.25
        if use_wild:
            keep = r.randint(1, len(pats) - 1)
            pats = pats[:keep] + [("_", None)]
        arms = []
        pure = total = True
        for vn, pt in pats:
            self.push()
            bind = None
            if pt is not None and vn != "_":
                if r.random() < 0.85:
                    v = self.declare(self.pick_name(), pt, False)
                    bind = [v.name, v.bid]
                else:
                    bind = ["_", 0]
            if stmt:
                body = [] if r.random() < 0.08 else self.block_stmts(depth, r.choice([1, 1, 2]))
                unitize(body)
                p = t = False
            else:
                b = self.block_expr(ty, depth, eff)
                body, p, t = b["body"], b["pure"], b["total"]
            self.pop()
            pure, total = pure and p, total and t
            arms.append({"variant": vn, "bind": bind, "body": body})
        return arms, pure, total

    def lambda_(self, ty, depth):
        """Closures are pure and total; they capture only immutable variables."""
        self.push()
        base = len(self.scopes) - 1
        if not hasattr(self, "closure_bases"):
            self.closure_bases = []
        self.closure_bases.append(base)
        self.in_closure += 1
        saved = (self.in_loop, self.fun_ret)
        self.in_loop, self.fun_ret = 0, None
        params = []
        for t in ty[1]:
            v = self.declare(self.pick_name(), t, False)
            params.append([v.name, v.bid, t])
        b = self.block_expr(ty[2], min(depth, 2), False)
        self.in_loop, self.fun_ret = saved
        self.in_closure -= 1
        self.closure_bases.pop()
        self.pop()
        return E("lambda", ty, params=params, ret=ty[2], body=b["body"])

    # ---------------------------------------------------------------- statements
    def block_stmts(self, depth, n):
        self.push()
        out = []
        for _ in range(n):
            s = self.stmt(depth)
            out += s
            if s and s[-1]["k"] in ("break", "continue", "return"):
                break
        self.pop()
        return out

    def println(self, depth):
        r = self.rng
        if r.random() < 0.25:
            e = self.expr(STR, depth, True)
        else:
            inner = self.expr(self.rand_ty(0), depth, True)
            e = E("call", STR, inner["pure"], inner["total"], fn="string_repr", args=[inner], builtin=True)
        return [{"k": "expr", "e": E("call", UNIT, False, e["total"], fn="println", args=[e], builtin=True)}]

    def stmt(self, depth, simple=False):
        r = self.rng
        o = self.o
        choices = ["let", "let", "print", "print"]
        if o.assign:
            choices += ["assign", "upd"]
        if not simple and depth >= 1:
            choices += ["if", "if", "match"]
            if o.loops:
                choices += ["while", "for"] if o.while_loops else ["for", "for"]
            if o.early_exit and self.in_loop:
                choices += ["ifbreak", "ifbreak", "ifcontinue"]
            if o.early_exit and self.fun_ret is not None:
                choices += ["ifreturn"]
            choices += ["callstmt"]
        k = r.choice(choices)
        d = depth
        if k == "print":
            if o.prints:
                return self.println(d)
            k = "let"
        if k == "let":
            ty = self.rand_ty(0, allow_fun=True)
            if isinstance(ty, list) and ty[0] == "Tuple" and r.random() < 0.5:
                e = self.expr(ty, d, True)
                self_names = []
                dest = []
                for t in ty[1]:
                    nm = self.pick_name()
                    while nm in self_names:
                        nm = r.choice(NAMES)
                    self_names.append(nm)
                    dest.append((nm, t))
                vs = [self.declare(nm, t, False) for nm, t in dest]
                return [{"k": "letd", "dest": [[v.name, v.bid] for v in vs], "e": e}]
            e = self.expr(ty, d, True)
            mutable = o.assign and r.random() < 0.45 and not (isinstance(ty, list) and ty[0] == "Fun")
            v = self.declare(self.pick_name(), ty, mutable, toplevel=(len(self.scopes) == 1 and self.cur_fun is None))
            ann = ty if (r.random() < o.annotate_lets and not (isinstance(ty, list) and ty[0] == "Fun")) else None
            return [{"k": "let", "name": v.name, "bid": v.bid, "ann": ann, "e": e}]
        if k in ("assign", "upd"):
            vs = [v for v in self.visible() if v.mutable and not (self.in_closure and not self._declared_in_closure(v))]
            if o.toplevel_pure:
                vs = [v for v in vs if not v.toplevel]
            if k == "upd":
                vs = [v for v in vs if v.ty == INT]
            if not vs:
                return self.println(d) if o.prints else []
            v = r.choice(vs)
            e = self.expr(v.ty, d, True)
            if k == "upd":
                return [{"k": "upd", "name": v.name, "bid": v.bid, "op": r.choice("+-"), "e": e}]
            return [{"k": "assign", "name": v.name, "bid": v.bid, "e": e}]
        if k == "if":
            cond = self.head(BOOL, d, True)
            t = self.block_stmts(d - 1, r.choice([1, 2, 2, 3]))
            f = self.block_stmts(d - 1, r.choice([1, 2])) if r.random() < 0.5 else None
            if f is not None and r.random() < 0.06:
                f = []
            if f is not None:
                # `check` insists that both branches of an if/else have compatible types even when the value is
                # unused, so statement-level branches end in Unit
                unitize(t)
                unitize(f)
            return [{"k": "expr", "e": E("if", UNIT, False, False, cond=cond, then=t, els=f, stmt=True)}]
        if k in ("ifbreak", "ifcontinue", "ifreturn"):
            cond = self.head(BOOL, d, False)
            self.push()
            pre = []
            if r.random() < 0.7:
                pre = self.stmt(0, simple=True)
            if k == "ifbreak":
                last = {"k": "break"}
            elif k == "ifcontinue":
                last = {"k": "continue"}
            else:
                last = {"k": "return", "e": self.expr(self.fun_ret, d - 1, False) if self.fun_ret != UNIT else None}
            self.pop()
            body = pre + [last]
            # wrap sometimes in a match arm or a nested if to reach deeper block nesting
            node = E("if", UNIT, False, False, cond=cond, then=body, els=None, stmt=True)
            if r.random() < 0.3:
                node = E("if", UNIT, False, False, cond=self.head(BOOL, 0, False), then=[{"k": "expr", "e": node}], els=None, stmt=True)
            return [{"k": "expr", "e": node}]
        if k == "match":
            sty = r.choice([["Option", r.choice([INT, STR])], ["Result", INT, STR]] +
                           ([["Enum", r.choice(self.enums)["name"]]] if self.enums else []))
            scrut = self.head(sty, d, True)
            arms, _, _ = self.arms(sty, UNIT, d - 1, True, stmt=True)
            return [{"k": "expr", "e": E("match", UNIT, False, False, scrut=scrut, arms=arms, stmt=True)}]
        if k == "while":
            name = "i_%d" % self.new_bid()
            out = []
            v = self.declare(name, INT, False)
            out.append({"k": "let", "name": v.name, "bid": v.bid, "ann": None, "e": E("int", INT, v=0)})
            n = r.choice([1, 2, 3, 4])
            cond = E("bin", BOOL, op="<", l=E("var", INT, name=v.name, bid=v.bid), r=E("int", INT, v=n))
            if r.random() < 0.25:
                extra = self.head(BOOL, 1, False)
                cond = E("bin", BOOL, op="&&", l=cond, r=extra)
            self.in_loop += 1
            self.push()
            body = [{"k": "upd", "name": v.name, "bid": v.bid, "op": "+", "e": E("int", INT, v=1), "counter": True}]
            for _ in range(r.choice([1, 2, 3])):
                s = self.stmt(d - 1)
                body += s
            self.pop()
            self.in_loop -= 1
            out.append({"k": "while", "cond": cond, "body": body})
            return out
        if k == "for":
            if r.random() < 0.3:
                ety = ["Tuple", [INT, STR]]
                lst = self.head(["List", ety], d, True)
                self.in_loop += 1
                self.push()
                n1, n2 = self.pick_name(), self.pick_name()
                while n2 == n1:
                    n2 = r.choice(NAMES)
                v1 = self.declare(n1, INT, False)
                v2 = self.declare(n2, STR, False)
                dest = {"d": [[v1.name, v1.bid], [v2.name, v2.bid]]}
            else:
                ety = r.choice([INT, INT, STR, ["Option", INT]])
                lst = self.head(["List", ety], d, True)
                self.in_loop += 1
                self.push()
                v1 = self.declare(self.pick_name(), ety, False)
                dest = {"v": [v1.name, v1.bid]}
            body = []
            self.push()
            for _ in range(r.choice([1, 2, 3])):
                body += self.stmt(d - 1)
            self.pop()
            self.pop()
            self.in_loop -= 1
            return [{"k": "for", "dest": dest, "e": lst, "body": body}]
        if k == "callstmt":
            fs = [f for f in self.funs]
            if not fs:
                return self.println(d) if o.prints else []
            f = r.choice(fs)
            args = self.siblings([p[2] for p in f["params"]], d, f["pure"] and f["total"])
            p, tt = self.flags(*args)
            return [{"k": "expr", "e": E("call", f["ret"], p and f["pure"], tt and f["total"], fn=f["name"], args=args)}]
        return []

    # ---------------------------------------------------------------- definitions
    def gen_defs(self):
        r = self.rng
        o = self.o
        if o.enums:
            for i in range(r.choice([1, 1, 2])):
                vs = []
                for j in range(r.choice([2, 3])):
                    vs.append(["V%d%s" % (i, "ABC"[j]), r.choice([None, INT, STR, ["Tuple", [INT, STR]]])])
                self.enums.append({"name": "En%d" % i, "variants": vs})
        if o.structs:
            for i in range(r.choice([1, 1, 2])):
                fs = [["f%d" % j, r.choice([INT, STR, BOOL, ["List", INT]])] for j in range(r.choice([1, 2, 3]))]
                self.structs.append({"name": "St%d" % i, "fields": fs})

    def gen_fun(self, idx):
        r = self.rng
        name = "fn%d" % idx
        recursive = r.random() < 0.3
        ret = self.rand_ty(1) if r.random() < 0.85 else UNIT
        params = []
        self.scopes = [{}]
        self.cur_fun = name
        self.fun_ret = ret
        self.in_loop = 0
        if recursive:
            v = self.declare("k", INT, False)
            params.append([v.name, v.bid, INT])
        for _ in range(r.choice([0, 1, 2, 2])):
            t = self.rand_ty(1)
            nm = self.pick_name()
            while any(p[0] == nm for p in params):
                nm = r.choice(NAMES)
            v = self.declare(nm, t, False)
            params.append([v.name, v.bid, t])
        effectful = r.random() < 0.5
        fdesc = {"name": name, "params": params, "ret": ret, "pure": not effectful, "total": not effectful, "body": None}
        body = []
        if recursive:
            # if k <= 0 { return base }  ...  rec(k - 1, ...)
            base = self.expr(ret, 1, False) if ret != UNIT else None
            kvar = E("var", INT, name="k", bid=params[0][1])
            body.append({"k": "expr", "e": E("if", UNIT, True, True, stmt=True,
                                            cond=E("bin", BOOL, op="<=", l=kvar, r=E("int", INT, v=0)),
                                            then=[{"k": "return", "e": base}], els=None)})
            # the function is NOT visible while its arguments are generated: the only recursive call is the guarded one
            rec_args = [E("bin", INT, op="-", l=kvar, r=E("int", INT, v=1))] + [self.expr(p[2], 1, False) for p in params[1:]]
            rec_call = E("call", ret, fdesc["pure"], fdesc["total"], fn=name, args=rec_args)
            if ret == UNIT:
                body.append({"k": "expr", "e": rec_call})
            else:
                v = self.declare(self.pick_name(), ret, False)
                body.append({"k": "let", "name": v.name, "bid": v.bid, "ann": None, "e": rec_call})
        n = r.choice([0, 1, 2, 3]) if effectful else 0
        for _ in range(n):
            s = self.stmt(self.o.max_depth - 1)
            body += s
            if s and s[-1]["k"] in ("break", "continue", "return"):
                break
        if not effectful:
            for _ in range(r.choice([0, 1, 2])):
                ty = self.rand_ty(1)
                e = self.expr(ty, 2, False)
                v = self.declare(self.pick_name(), ty, False)
                body.append({"k": "let", "name": v.name, "bid": v.bid, "ann": None, "e": e})
        if ret != UNIT:
            body.append({"k": "expr", "e": self.final_expr(ret, 2, effectful)})
        else:
            unitize(body)
            if not body or body[-1]["k"] != "expr":
                body.append({"k": "expr", "e": E("unit", UNIT)})
        fdesc["body"] = body
        fdesc["recursive"] = recursive
        self.cur_fun = None
        self.fun_ret = None
        return fdesc

    def program(self):
        r = self.rng
        self.gen_defs()
        for i in range(self.o.n_funs):
            f = self.gen_fun(i)
            self.funs.append(f)
        # calls to recursive functions must pass a small counter: patch args generated for param k
        self.scopes = [{}]
        self.cur_fun = None
        self.fun_ret = None
        main = []
        for _ in range(self.o.n_main):
            main += self.stmt(self.o.max_depth)
        prog = {"enums": self.enums, "structs": self.structs, "funs": self.funs, "main": main}
        clamp_rec_args(prog)
        return prog


def unitize(block):
    """Make a statement-level block evaluate to Unit (an empty block already does)."""
    if block:
        last = block[-1]
        if last["k"] in ("break", "continue", "return", "let", "letd", "assign", "upd", "while", "for"):
            return
        if last["k"] == "expr":
            e = last["e"]
            if e["k"] == "unit" or (e["k"] == "call" and e["ty"] == UNIT and e.get("builtin")):
                return
            if e["k"] == "if" and e.get("stmt") and e.get("els") is None:
                return
    else:
        return
    block.append({"k": "expr", "e": E("unit", UNIT)})


def starts_open(e):
    k = e["k"]
    if k in ("tuple", "list"):
        return True
    if k == "bin":
        return True if e["l"]["k"] == "bin" else starts_open(e["l"])
    if k == "mcall":
        return starts_open(e["recv"])
    if k == "field":
        return starts_open(e["e"])
    if k == "callv":
        return starts_open(e["f"])
    if k == "int" and e["v"] < 0:
        return False
    if k == "lambda":
        return False
    return False


def walk(node, f):
    """Pre-order walk over every dict node."""
    if isinstance(node, dict):
        f(node)
        for v in node.values():
            walk(v, f)
    elif isinstance(node, list):
        for v in node:
            walk(v, f)


def clamp_rec_args(prog):
    """First argument of a call to a recursive function is its counter: make external calls pass 0..4."""
    rec = {f["name"] for f in prog["funs"] if f.get("recursive")}
    rnd = random.Random(len(prog["funs"]) * 31 + len(prog["main"]))

    def fix(n):
        if n.get("k") == "call" and n.get("fn") in rec and not n.get("builtin"):
            a0 = n["args"][0]
            if not (a0["k"] == "bin" and a0["op"] == "-" and a0["l"].get("name") == "k"):
                n["args"][0] = E("int", INT, v=rnd.choice([0, 1, 2, 3, 4]))
    walk(prog, fix)


def generate(seed, opts=None):
    rng = random.Random(seed)
    g = Gen(rng, opts)
    return g.program()
