"""Vocabulary of Garden built-ins, read at run time from <repo>/src/__*.gdn.

Every `fun` / `method` (public or not) with its parameter names and type hints, the namespace file it
lives in, whether its body is `__BUILT_IN_IMPLEMENTATION` (implemented in Rust) and whether it may touch
the outside world (so the caller can restrict its arguments).
"""
import glob
import os
import re

from .. import core

DECL_RE = re.compile(r"^(?:(?:public|shared)\s+)*(fun|method)\s+([A-Za-z_][A-Za-z0-9_]*)", re.M)

# functions that can touch the world: only ever called with paths inside a scratch directory and with
# harmless commands. Anything from __fs.gdn / __shell.gdn is effectful unless listed as pure here.
PURE_IN_EFFECT_FILES = set()
EFFECT_FILES = ("__fs.gdn", "__shell.gdn")
# prelude functions that block / read stdin or reach the file system
PRELUDE_EFFECT = {"read_line": "stdin", "exists": "path", "info": "path"}


def _balanced(text, i, open_c, close_c):
    """text[i] == open_c -> index just after the matching close_c."""
    depth = 0
    n = len(text)
    j = i
    while j < n:
        c = text[j]
        if c == open_c:
            depth += 1
        elif c == close_c:
            depth -= 1
            if depth == 0:
                return j + 1
        j += 1
    return n


def _split_params(s):
    out, cur, depth = [], [], 0
    for c in s:
        if c in "(<[":
            depth += 1
        elif c in ")>]":
            depth -= 1
        if c == "," and depth == 0:
            out.append("".join(cur))
            cur = []
        else:
            cur.append(c)
    if "".join(cur).strip():
        out.append("".join(cur))
    res = []
    for p in out:
        p = p.strip()
        if not p:
            continue
        if ":" in p:
            name, hint = p.split(":", 1)
            res.append((name.strip(), hint.strip()))
        else:
            res.append((p, None))
    return res


def parse_file(path):
    text = open(path, encoding="utf-8").read()
    fname = os.path.basename(path)
    out = []
    for m in DECL_RE.finditer(text):
        kind, name = m.group(1), m.group(2)
        i = m.end()
        # optional type parameters
        while i < len(text) and text[i] in " \t":
            i += 1
        if i < len(text) and text[i] == "<":
            i = _balanced(text, i, "<", ">")
        while i < len(text) and text[i] in " \t":
            i += 1
        if i >= len(text) or text[i] != "(":
            continue
        j = _balanced(text, i, "(", ")")
        params = _split_params(text[i + 1:j - 1])
        # body
        k = text.find("{", j)
        body = ""
        if k >= 0:
            e = _balanced(text, k, "{", "}")
            body = text[k + 1:e - 1]
        builtin = "__BUILT_IN_IMPLEMENTATION" in body
        recv = None
        if kind == "method":
            if not params:
                continue
            recv = params[0][1] or "Any"
            recv = re.sub(r"<.*", "", recv).strip()
            params = params[1:]
        effect = None
        if fname in EFFECT_FILES and name not in PURE_IN_EFFECT_FILES:
            effect = "world"
        elif fname == "__prelude.gdn" and name in PRELUDE_EFFECT:
            effect = PRELUDE_EFFECT[name]
        elif fname == "__reflect.gdn" and name in ("check_snippet",):
            effect = "path-arg"
        out.append({"kind": kind, "name": name, "file": fname, "recv": recv,
                    "params": [[a, b] for a, b in params], "builtin": builtin, "effect": effect,
                    "public": "public" in m.group(0)})
    return out


def vocabulary(repo=None):
    repo = repo or core.REPO
    out = []
    for p in sorted(glob.glob(os.path.join(repo, "src", "__*.gdn"))):
        out.extend(parse_file(p))
    return out


def type_names(repo=None):
    """Names of the types defined in the prelude (struct / enum), for redefinition tricks."""
    repo = repo or core.REPO
    text = open(os.path.join(repo, "src", "__prelude.gdn"), encoding="utf-8").read()
    return sorted(set(re.findall(r"^(?:struct|enum)\s+([A-Z][A-Za-z0-9_]*)", text, re.M)))
