"""Group-B session helper: evaluate many independent inputs in one JSON-session process, with an
optional preamble (definitions) that is re-sent whenever the process has to be restarted, a bound on
the number of watchdog hits per call, and the printed output of every input.

Result per input: {"out": printed stdout, "err": printed stderr, "res": tuple} with res one of
    ("ok", value_text) | ("err", message, position, stack) | ("crash", sig, stderr_tail)
    | ("timeout",) | ("lost", why, stderr_tail) | ("skipped",)
"""
from .. import core
from .. import session


PRE = 1000000000      # request ids of preamble inputs (ids are unsigned in the session protocol)


def eval_many(inputs, preamble=(), timeout=60, env=None, cwd=None, max_timeouts=2):
    results = [None] * len(inputs)
    start = 0
    n_to = 0
    npre = len(preamble)
    with core.Scratch("gm-bsess-") as sc:
        while start < len(inputs):
            if n_to >= max_timeouts:
                for i in range(start, len(inputs)):
                    results[i] = {"out": "", "err": "", "res": ("skipped",)}
                break
            reqs = []
            for k, p in enumerate(preamble):
                reqs.append({"method": "run", "input": p, "id": PRE + 2 * k})
                reqs.append({"method": "run", "input": ":abort", "id": PRE + 2 * k + 1})
            for i in range(start, len(inputs)):
                reqs.append({"method": "run", "input": inputs[i], "id": 2 * i})
                reqs.append({"method": "run", "input": ":abort", "id": 2 * i + 1})
            r, resps = core.json_session_file(reqs, timeout=timeout, scratch=sc, env=env, cwd=cwd or sc.dir)
            out_acc, err_acc = [], []
            answered = start - 1
            pre_seen = 0
            for resp in resps:
                s = session.summarize(resp)
                if s[0] == "printed":
                    out_acc.append(s[1] or "")
                    continue
                if s[0] == "printed_stderr":
                    err_acc.append(s[1] or "")
                    continue
                rid = resp.get("id")
                if rid is None and s[0] in ("ok", "err"):
                    # parse errors are answered without an id: they belong to the next open request
                    rid = PRE + 2 * pre_seen if pre_seen < npre else 2 * (answered + 1)
                if not isinstance(rid, int):
                    continue
                if rid >= PRE:
                    if s[0] in ("ok", "err") and rid % 2 == 0:
                        pre_seen += 1
                    out_acc, err_acc = [], []
                    continue
                if s[0] in ("ok", "err") and rid % 2 == 0:
                    idx = rid // 2
                    if 0 <= idx < len(results) and results[idx] is None:
                        results[idx] = {"out": "".join(out_acc), "err": "".join(err_acc), "res": s}
                        answered = max(answered, idx)
                    out_acc, err_acc = [], []
                elif s[0] == "cmd":
                    out_acc, err_acc = [], []
            if answered >= len(inputs) - 1 and r.cls in ("ok", "diag"):
                break
            if npre and pre_seen < npre and answered < start:
                # the preamble itself killed the process: nothing in this call can be judged
                why = core.crash_sig(r) if (r.cls in core.CRASH or r.cls.startswith("signal")) else r.cls
                for i in range(start, len(inputs)):
                    results[i] = {"out": "", "err": "", "res": ("lost", "preamble:" + why, r.err[-500:])}
                break
            culprit = answered + 1
            if culprit >= len(inputs):
                break
            rec = {"out": "".join(out_acc), "err": "".join(err_acc)}
            if r.timed_out:
                rec["res"] = ("timeout",)
                n_to += 1
            elif r.cls in core.CRASH or r.cls.startswith("signal"):
                rec["res"] = ("crash", core.crash_sig(r), r.err[-1500:])
            else:
                rec["res"] = ("lost", r.cls, r.err[-500:])
            results[culprit] = rec
            start = culprit + 1
    for i, x in enumerate(results):
        if x is None:
            results[i] = {"out": "", "err": "", "res": ("lost", "?", "")}
    return results


def playground(src, timeout=60, cwd=None):
    """Run a program under `garden playground-run` (sandbox, tick limit 100000, stack limit 1000).
    -> ("value", text) | ("error", message) | ("crash", sig, stderr) | ("timeout",) | ("other", brief)"""
    import json
    with core.Scratch("gm-bplay-") as sc:
        path = sc.file(src, name="p.gdn")
        r = core.run_garden(["playground-run", path], timeout=timeout, cwd=cwd or sc.dir)
        if r.timed_out:
            return ("timeout",)
        if r.cls in core.CRASH or r.cls.startswith("signal"):
            return ("crash", core.crash_sig(r), r.err[-1500:])
        last = None
        for line in r.out.split("\n"):
            line = line.strip()
            if not line.startswith("{"):
                continue
            try:
                j = json.loads(line)
            except ValueError:
                continue
            if "error" in j and "value" in j:
                last = j
        if last is None:
            return ("other", r.brief())
        if last.get("error") is not None:
            return ("error", last["error"])
        return ("value", last.get("value"))
