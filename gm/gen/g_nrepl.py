"""nREPL histories for C30 / C31: generator, executor (real `garden nrepl --port 0`) and offline judge.

A *case* is a fully explicit history (JSON-able):

    {"profile": "c30"|"c31", "delays": "seed=N;point=lo..hi;...", "conns": [{"name": "a", "steps": [...]}, ...]}

steps (lists; `s` = session index local to the connection, `r` = request number local to the connection):

    ["clone", s]                     send clone, wait for the answer (the id is chosen by the server)
    ["eval", r, s, shape]            send eval (no wait)
    ["load", r, s, shape, path]      send load-file; path = None | "name.gdn" (-> file-path inside the scratch dir)
    ["compl", r, s, prefix]          completions
    ["lookup", r, s, sym]
    ["intr", r, s]                   interrupt
    ["close", r, s]
    ["op", r, {...}]                 any other request verbatim (describe, ls-sessions, unknown op, no op ...)
    ["noid", {...}]                  request without id (describe / unknown op only)
    ["junk", "i5e"]                  non-dict bencode value (ignored by the server)
    ["wait_done", r] ["wait_out", r] ["wait_idle", s] ["sleep", ms]

`s` may also be "nosuch" (a session id that never existed).  Request ids on the wire are "<conn><r>"
(unique over the whole case); printed lines are "[[<conn>.<s>.<r>.<n>]]" (unique over the whole case).

The judge works on the client-side transcript only (ordered decoded messages + send positions); the
server's event log supplies the step bound of C31(a), coverage signatures and explanations.
"""
import json
import os
import random
import re
import threading
import time

from .. import core
from .. import nreplclient as nc

LONG_ITERS = 1500000        # ~6 s of busy loop on an idle machine: "bounded long eval"
FLUSH_MS = 100
ITERS_PER_MS = 260          # measured on the dev build, idle machine (only used to pick loop sizes)
WATCHDOG = 40.0             # generous; a watchdog never turns into a violation
LONG_WATCHDOG = 120.0       # for waits on a bounded long eval that may have to run to its end
TAG_RE = re.compile(r"\[\[[a-z]\.[0-9a-z]+\.\d+\.\d+\]\]\n")


# --------------------------------------------------------------------------- rendering of eval shapes

def tag(conn, s, r, n):
    return "[[%s.%s.%d.%d]]" % (conn, s, r, n)


def defname(conn, s, n):
    return "gdef_%s_%s_%d" % (conn, s, n)


def render(conn, s, r, shape):
    """-> dict(code, out, err, end, ticks) ; out/err = expected tagged text; end in value|throw|none|parse|any."""
    k = shape["k"]
    if k == "print":
        parts, out, err, n = [], "", "", 0
        order = []                      # program order of the printed lines: (stream, text)
        cnt = "q%d" % r if shape.get("cnt") else None
        if cnt:
            parts.append("let %s = 0" % cnt)
        for seg in shape["segs"]:
            if seg[0] in ("o", "e"):
                for _ in range(seg[1]):
                    t = tag(conn, s, r, n)
                    n += 1
                    style = (n + r) % 3
                    if seg[0] == "o":
                        parts.append('println("%s")' % t if style else 'print("%s\\n")' % t)
                        out += t + "\n"
                    else:
                        parts.append('eprintln("%s")' % t if style else 'eprint("%s\\n")' % t)
                        err += t + "\n"
                    order.append((seg[0], t + "\n"))
                    if cnt:
                        parts.append("%s = %d" % (cnt, n))
            elif seg[0] == "spin":
                v = "v%d_%d" % (r, len(parts))
                parts.append("let %s = 0 while %s < %d { %s += 1 }" % (v, v, seg[1], v))
        end = shape.get("end", "value")
        if end == "value":
            parts.append(str(100000 + r))
        elif end == "throw":
            parts.append('throw("boom %s%d")' % (conn, r))
        return {"code": " ".join(parts), "out": out, "err": err, "end": end if parts else "none",
                "value": str(100000 + r) if end == "value" else None, "order": order}
    if k == "big":
        # LARGE output right before the eval ends: one print of unit * 2^dbl bytes (70 .. 400 KiB) and/or many
        # medium prints in a tight loop, on stdout and/or stderr; everything must arrive before `done`
        unit = ("%s%s.%d." % (conn, s, r) + "0123456789abcdefghij")[:shape.get("unit", 20)]
        blk, j, m = "b%d" % r, "j%d" % r, "m%d" % r
        t0, t1 = tag(conn, s, r, 0), tag(conn, s, r, 1)
        parts = ['let %s = "%s" let %s = 0 while %s < %d { %s = %s ^ %s %s += 1 }' % (
            blk, unit, j, j, shape["dbl"], blk, blk, blk, j), 'println("%s")' % t0]
        big = unit * (1 << shape["dbl"])
        out, err = t0 + "\n", ""
        if shape.get("spin_before"):
            parts.append("let v%d = 0 while v%d < %d { v%d += 1 }" % (r, r, shape["spin_before"], r))
        reps = shape.get("reps", 1)
        for st_ in shape["streams"]:
            fn = "println" if st_ == "o" else "eprintln"
            if reps == 1:
                parts.append("%s(%s)" % (fn, blk))
            else:
                parts.append("let %s%s = 0 while %s%s < %d { %s(%s) %s%s += 1 }" % (m, st_, m, st_, reps, fn, blk, m, st_))
            if st_ == "o":
                out += (big + "\n") * reps
            else:
                err += (big + "\n") * reps
        if shape.get("spin_after"):
            parts.append("let u%d = 0 while u%d < %d { u%d += 1 }" % (r, r, shape["spin_after"], r))
        parts.append('println("%s")' % t1)
        out += t1 + "\n"
        end = shape.get("end", "value")
        parts.append(str(100000 + r) if end == "value" else 'throw("boom %s%d")' % (conn, r))
        return {"code": " ".join(parts), "out": out, "err": err, "end": end,
                "value": str(100000 + r) if end == "value" else None, "err_exact": end == "value"}
    if k == "readcnt":
        return {"code": "q%d" % shape["of"], "out": "", "err": "", "end": "any", "value": None}
    if k == "long":
        t0, t1 = tag(conn, s, r, 0), tag(conn, s, r, 1)
        v = "w%d" % r
        code = 'println("%s") let %s = 0 while %s < %d { %s += 1 } println("%s") %d' % (
            t0, v, v, shape.get("iters", LONG_ITERS), v, t1, 100000 + r)
        return {"code": code, "out": t0 + "\n" + t1 + "\n", "err": "", "end": "value", "value": str(100000 + r),
                "long": shape.get("iters", LONG_ITERS) >= LONG_ITERS}
    if k == "biglong":
        # thousands of small definitions (parse + load takes 100s of ms) followed by a bounded long loop
        t0, t1 = tag(conn, s, r, 0), tag(conn, s, r, 1)
        v = "w%d" % r
        defs = " ".join("fun bg%s%d_%d(): Int { %d }" % (conn, r, i, i) for i in range(shape["ndefs"]))
        code = '%s println("%s") let %s = 0 while %s < %d { %s += 1 } println("%s") %d' % (
            defs, t0, v, v, shape.get("iters", LONG_ITERS), v, t1, 100000 + r)
        return {"code": code, "out": t0 + "\n" + t1 + "\n", "err": "", "end": "value", "value": str(100000 + r),
                "long": shape.get("iters", LONG_ITERS) >= LONG_ITERS}
    if k == "def":
        name = defname(conn, s, shape["n"])
        return {"code": "fun %s(): Int { %d }" % (name, 500000 + shape["n"]), "out": "", "err": "", "end": "none",
                "value": None}
    if k == "call":
        t = tag(conn, s, r, 0)
        return {"code": 'println("%s") %s()' % (t, shape["name"]), "out": t + "\n", "err": "",
                "end": "value" if shape.get("expect") is not None else "unbound",
                "value": str(shape["expect"]) if shape.get("expect") is not None else None}
    if k == "raw":
        return {"code": shape["code"], "out": "", "err": "", "end": shape.get("end", "any"), "value": None}
    raise ValueError(k)


# --------------------------------------------------------------------------- generator

def _print_shape(rng, heavy=False):
    """Evals that print 0, 1, many lines around the 100 ms flusher period."""
    kind = rng.random()
    segs = []
    if kind < 0.12:
        pass                                    # prints nothing
    elif kind < 0.30:
        segs.append([rng.choice("oe") if rng.random() < 0.3 else "o", 1])
    else:
        nseg = rng.randint(1, 4)
        # total busy time aimed at 0 .. ~2.6 flusher periods, split so that lines straddle the ticks
        total_ms = rng.choice([0, 5, 40, 90, 100, 110, 150, 210, 260]) if not heavy else rng.choice([100, 210, 320])
        for i in range(nseg):
            segs.append([rng.choice("oooe"), rng.choice([1, 1, 2, 3, 8])])
            if total_ms:
                segs.append(["spin", int(total_ms * ITERS_PER_MS / nseg * rng.uniform(0.6, 1.4))])
        if rng.random() < 0.6:
            segs.append([rng.choice("ooe"), rng.choice([1, 2])])
    end = "value"
    x = rng.random()
    if x < 0.2:
        end = "throw"
    elif x < 0.25:
        end = "none"
    sh = {"k": "print", "segs": segs, "end": end}
    if segs and rng.random() < 0.5:
        sh["cnt"] = True        # the eval counts its own prints in a top-level variable (read back later)
    return sh


def _chatty_shape(rng):
    """Prints a line or two every 15..60 ms for ~0.3..0.7 s and counts them: to be interrupted mid-way."""
    segs = []
    for _ in range(rng.randint(6, 14)):
        segs.append([rng.choice("oooe"), rng.choice([1, 1, 2])])
        segs.append(["spin", int(rng.choice([15, 25, 40, 60]) * ITERS_PER_MS * rng.uniform(0.7, 1.3))])
    segs.append(["o", 1])
    return {"k": "print", "segs": segs, "end": "value", "cnt": True}


def _interrupt_chatty(g, s):
    """eval that prints steadily; interrupt it somewhere in the middle; read its line counter back."""
    rng = g.rng
    r = g.eval_step(s, _chatty_shape(rng))
    if rng.random() < 0.5:
        g.steps.append(["wait_out", r])
        g.steps.append(["sleep", rng.randint(0, 140)])
    else:
        g.steps.append(["sleep", rng.randint(30, 400)])
    g.steps.append(["intr", g.rid(), s])
    g.dirty[s] = True
    g.readcnt(s, r)


def _big_shape(rng):
    x = rng.random()
    if x < 0.55:        # one print of 70 .. 400 KiB
        sh = {"k": "big", "dbl": rng.choice([12, 13, 13, 14]), "unit": rng.choice([17, 18, 20, 22, 25]), "reps": 1}
    else:               # many medium prints (2.5 .. 10 KiB each, 100 .. 600 KiB in total) in a tight loop
        sh = {"k": "big", "dbl": rng.choice([7, 8, 9]), "unit": 20, "reps": rng.choice([40, 60])}
    sh["streams"] = rng.choice([["o"], ["o"], ["e"], ["o", "e"], ["e", "o"]])
    if rng.random() < 0.4:
        sh["spin_before"] = int(rng.choice([40, 100, 160]) * ITERS_PER_MS)
    if rng.random() < 0.25:
        sh["spin_after"] = int(rng.choice([5, 60, 150, 260]) * ITERS_PER_MS)
    if rng.random() < 0.15:
        sh["end"] = "throw"
    return sh


PANIC_SOURCES = [
    "let x = 1",                 # non-ASCII whitespace (lexer byte stepping)
    "let x = 2 x",
]

PARSE_ERRORS = ["(", "1 +", "fun {", "let = 3", "\"unterminated"]


class _ConnGen:
    def __init__(self, rng, name, profile, all_defs, nsess):
        self.rng, self.name, self.profile = rng, name, profile
        self.steps = []
        self.r = 0
        self.open = []          # open session idxs
        self.closed = []
        self.nsess = 0
        self.max_sess = nsess
        self.defs = {}          # s -> list of (n, epoch)
        self.epoch = {}         # s -> namespace epoch (changes at load-file with a path)
        self.outstanding = {}   # s -> list of r (session-bound, possibly unfinished)
        self.all_defs = all_defs  # shared: list of (conn, s, n) names defined anywhere (static plan)
        self.dirty = {}         # s -> True when an interrupt/close may have left things undefined for probes
        self.counted = {}       # s -> [r of evals that count their prints]

    def rid(self):
        self.r += 1
        return self.r

    def clone(self):
        s = self.nsess
        self.nsess += 1
        self.steps.append(["clone", s])
        self.open.append(s)
        self.defs[s] = []
        self.epoch[s] = 0
        self.outstanding[s] = []
        return s

    def some_session(self, allow_dead=0.12):
        x = self.rng.random()
        if (x < allow_dead and (self.closed or True)) or not self.open:
            if self.closed and self.rng.random() < 0.6:
                return self.rng.choice(self.closed)
            return "nosuch"
        return self.rng.choice(self.open)

    def eval_step(self, s, shape, load=None):
        r = self.rid()
        if load is not None:
            self.steps.append(["load", r, s, shape, load[0]])
        else:
            self.steps.append(["eval", r, s, shape])
        if s in self.outstanding:
            self.outstanding[s].append(r)
            if shape.get("cnt"):
                self.counted.setdefault(s, []).append(r)
        return r

    def readcnt(self, s, r=None):
        cs = self.counted.get(s)
        if cs and s in self.open:
            self.eval_step(s, {"k": "readcnt", "of": r if r is not None else self.rng.choice(cs[-3:])})


def gen_case(rng, profile):
    if profile == "c31":
        return _gen_c31(rng)
    return _gen_c30(rng)


def _delay_spec(rng, profile):
    seed = rng.randrange(1 << 30)
    x = rng.random()
    if profile == "c31":
        if x < 0.12:
            return "seed=%d" % seed
        if x < 0.37:
            # widen the worker's dequeue .. eval.begin stretch (request parsing and loading)
            return ("seed=%d;flag_reset=20..120;eval.begin=0..60;dequeued=0..20;interrupt.before_store=0..10;"
                    "close.before_store=0..10" % seed)
        if x < 0.6:
            return ("seed=%d;dequeued=0..40;flag_reset=0..40;interrupt.before_store=0..40;close.before_store=0..40;"
                    "interrupt.after_store=0..15;eval.begin=0..25;*=0..8" % seed)
        return "seed=%d;*=0..30" % seed
    if x < 0.15:
        return "seed=%d" % seed
    if x < 0.45:
        return ("seed=%d;flusher.tick=0..60;flush.taken=0..40;final_drain=0..40;eval.end=0..40;responses.sent=0..20;"
                "*=0..5" % seed)
    return "seed=%d;*=0..30" % seed


def _gen_c30(rng):
    nconn = rng.choice([1, 1, 2, 2, 3, 4])
    names = "abcd"[:nconn]
    all_defs = []
    conns = []
    gens = []
    for nm in names:
        g = _ConnGen(rng, nm, "c30", all_defs, rng.choice([1, 2, 2, 3, 4]))
        gens.append(g)
    # plan definitions first so that foreign probes can name them regardless of order
    for g in gens:
        for s in range(g.max_sess):
            all_defs.append((g.name, s, 1))
    for g in gens:
        n0 = rng.randint(1, g.max_sess)
        for _ in range(n0):
            g.clone()
        length = rng.randint(6, 22) if nconn > 1 else rng.randint(8, 30)
        for _ in range(length):
            _c30_step(g)
        conns.append({"name": g.name, "steps": g.steps})
    return {"profile": "c30", "delays": _delay_spec(rng, "c30"), "conns": conns}


def _c30_step(g):
    rng = g.rng
    x = rng.random()
    if x < 0.05 and g.open:
        _interrupt_chatty(g, rng.choice(g.open))
    elif x < 0.10 and g.open:
        g.eval_step(rng.choice(g.open), _big_shape(rng), load=(None,) if rng.random() < 0.2 else None)
    elif x < 0.40:
        s = g.some_session(0.06)
        g.eval_step(s, _print_shape(rng))
    elif x < 0.47:
        s = g.some_session(0.06)
        path = None
        if rng.random() < 0.4:
            path = "f%s%d.gdn" % (g.name, rng.randint(0, 2))
            if s in g.epoch:
                g.epoch[s] += 1
        g.eval_step(s, _print_shape(rng), load=(path,))
    elif x < 0.53:
        if g.open:
            s = rng.choice(g.open)
            n = 1 if not g.defs[s] else len(g.defs[s]) + 1
            g.eval_step(s, {"k": "def", "n": n})
            g.defs[s].append((n, g.epoch[s]))
    elif x < 0.61:
        if g.open:
            s = rng.choice(g.open)
            own = [d for d in g.defs[s] if d[1] == g.epoch[s]]
            if own and rng.random() < 0.4 and not g.dirty.get(s):
                n = rng.choice(own)[0]
                g.eval_step(s, {"k": "call", "name": defname(g.name, s, n), "expect": 500000 + n})
            else:
                foreign = [d for d in g.all_defs if not (d[0] == g.name and d[1] == s)]
                if foreign:
                    d = rng.choice(foreign)
                    g.eval_step(s, {"k": "call", "name": defname(*d), "expect": None})
    elif x < 0.66:
        s = g.some_session()
        g.steps.append(["compl", g.rid(), s, rng.choice(["gdef_", "gdef_" + g.name, "pri", "gdef_zz", ""])])
    elif x < 0.70:
        s = g.some_session()
        if rng.random() < 0.5 and g.all_defs:
            sym = defname(*rng.choice(g.all_defs))
        else:
            sym = rng.choice(["println", "nosuchsym", "string_repr"])
        g.steps.append(["lookup", g.rid(), s, sym])
    elif x < 0.76:
        s = g.some_session(0.25)
        g.steps.append(["intr", g.rid(), s])
        if isinstance(s, int):
            g.dirty[s] = True
            if rng.random() < 0.6:
                g.readcnt(s)
    elif x < 0.79:
        if g.open and (len(g.open) > 1 or rng.random() < 0.3):
            s = rng.choice(g.open)
            g.steps.append(["close", g.rid(), s])
            g.open.remove(s)
            g.closed.append(s)
        else:
            g.steps.append(["close", g.rid(), "nosuch"])
    elif x < 0.82:
        if g.nsess < g.max_sess:
            g.clone()
    elif x < 0.88:
        y = rng.random()
        if y < 0.3:
            g.steps.append(["op", g.rid(), {"op": "describe"}])
        elif y < 0.4:
            g.steps.append(["op", g.rid(), {"op": "describe", "verbose?": 1}])
        elif y < 0.65:
            g.steps.append(["op", g.rid(), {"op": "ls-sessions"}])
        elif y < 0.78:
            g.steps.append(["op", g.rid(), {"op": rng.choice(["zork", "stdin", "eval2", "Eval"])}])
        elif y < 0.84:
            g.steps.append(["op", g.rid(), {}])
        elif y < 0.9:
            g.steps.append(["op", g.rid(), {"op": "eval", "code": "1"}])        # eval without a session
        elif y < 0.95:
            g.steps.append(["noid", {"op": rng.choice(["describe", "zork"])}])
        else:
            g.steps.append(["junk", rng.choice(["i5e", "le", "3:abc"])])
    elif x < 0.90:
        s = g.some_session(0.0)
        if isinstance(s, int):
            g.eval_step(s, {"k": "raw", "code": rng.choice(PARSE_ERRORS), "end": "parse"})
    elif x < 0.915:
        s = g.some_session(0.0)
        if isinstance(s, int):
            g.eval_step(s, {"k": "raw", "code": rng.choice(PANIC_SOURCES), "end": "any"})
    elif x < 0.96:
        rs = [r for s in g.open for r in g.outstanding.get(s, [])]
        if rs:
            g.steps.append(["wait_done", rng.choice(rs[-4:])])
        else:
            g.steps.append(["sleep", rng.randint(0, 60)])
    elif x < 0.975:
        if g.open:
            g.steps.append(["wait_idle", rng.choice(g.open)])
    elif x < 0.99:
        if g.open:
            g.readcnt(rng.choice(g.open))
    else:
        g.steps.append(["sleep", rng.choice([0, 5, 30, 90, 100, 110, 150])])


def _gen_c31(rng):
    """Scenario mixes around interrupt / close; every connection runs a few scenarios in sequence."""
    nconn = rng.choice([1, 1, 1, 2, 2, 3])
    names = "abcd"[:nconn]
    conns = []
    for nm in names:
        g = _ConnGen(rng, nm, "c31", [], rng.choice([1, 2, 3]))
        for _ in range(g.max_sess):
            g.clone()
        for _ in range(rng.randint(2, 5)):
            if not g.open:
                g.clone()
            _c31_scenario(g)
        conns.append({"name": nm, "steps": g.steps})
    return {"profile": "c31", "delays": _delay_spec(rng, "c31"), "conns": conns}


def _bystanders(g, target):
    """Evals on other sessions of this connection that must complete normally whatever happens to `target`."""
    rng = g.rng
    out = []
    for s in g.open:
        if s != target and rng.random() < 0.7:
            out.append(g.eval_step(s, _print_shape(rng, heavy=True)))
    return out


def _pre_eval_stop(g, s):
    """Stop request aimed at the worker's parse/load phase: a large source (or just a pipelined stop) without
    waiting for any output; judged from the event log (rule pre-eval-window)."""
    rng = g.rng
    # a shorter loop than LONG_ITERS: rule (d) is logical and needs no "cannot have finished" argument, and a
    # stop that legitimately lands before the reset lets the loop run to its end
    if rng.random() < 0.65:
        shape = {"k": "biglong", "ndefs": rng.choice([1200, 2000, 3000]), "iters": 400000}
    else:
        shape = {"k": "long", "iters": 400000}
    r = g.eval_step(s, shape, load=(None,) if rng.random() < 0.25 else None)
    g.steps.append(["sleep", rng.choice([0, 5, 20, 50, 100, 200])])
    closing = rng.random() < 0.25 and len(g.open) > 1
    if closing:
        g.steps.append(["close", g.rid(), s])
        g.open.remove(s)
        g.closed.append(s)
    else:
        g.steps.append(["intr", g.rid(), s])
    g.steps.append(["wait_done", r])
    if not closing:
        g.eval_step(s, _print_shape(rng))


def _maybe_load(rng):
    """None (eval) or the `load` argument of eval_step: load-file without / with a file-path."""
    x = rng.random()
    if x < 0.6:
        return None
    return (None,) if x < 0.85 else ("verif_l%d.gdn" % rng.randint(0, 2),)


def _c31_scenario(g):
    rng = g.rng
    s = rng.choice(g.open)
    x = rng.random()
    if rng.random() < 0.16:
        _pre_eval_stop(g, s)
    elif x < 0.12:
        _bystanders(g, s)
        _interrupt_chatty(g, s)
        g.eval_step(s, _print_shape(rng))
    elif x < 0.30:
        # (b) interrupt while idle, then the next eval must complete normally
        g.steps.append(["wait_idle", s])
        for _ in range(rng.choice([1, 1, 2])):
            ri = g.rid()
            g.steps.append(["intr", ri, s])
        y = rng.random()
        if y < 0.5:
            g.steps.append(["wait_done", ri])
        elif y < 0.7:
            g.steps.append(["sleep", rng.randint(0, 50)])
        # the next request that evaluates code is an eval or a load-file (both go through the session worker)
        g.eval_step(s, _print_shape(rng, heavy=rng.random() < 0.5), load=_maybe_load(rng))
        if rng.random() < 0.5:
            g.eval_step(s, _print_shape(rng), load=_maybe_load(rng))
    elif x < 0.50:
        # (a) interrupt a bounded long eval that is known to be executing
        _bystanders(g, s)
        r = g.eval_step(s, {"k": "long"})
        queued = rng.random() < 0.4
        if queued and rng.random() < 0.5:
            g.eval_step(s, _print_shape(rng))       # queued behind the long eval (unjudged: sent before the interrupt)
        g.steps.append(["wait_out", r])
        if rng.random() < 0.4:
            g.steps.append(["sleep", rng.randint(0, 120)])
        ri = g.rid()
        g.steps.append(["intr", ri, s])
        if rng.random() < 0.3:
            g.steps.append(["wait_done", ri])
        g.steps.append(["wait_done", r])
        g.eval_step(s, _print_shape(rng, heavy=rng.random() < 0.4), load=_maybe_load(rng))      # must complete normally
    elif x < 0.66:
        # (c) close while executing
        _bystanders(g, s)
        r = g.eval_step(s, {"k": "long"})
        if rng.random() < 0.3:
            g.eval_step(s, _print_shape(rng))       # queued behind; still answered after the close
        g.steps.append(["wait_out", r])
        rc = g.rid()
        g.steps.append(["close", rc, s])
        g.open.remove(s)
        g.closed.append(s)
        if rng.random() < 0.7:
            g.eval_step(s, _print_shape(rng))       # -> unknown-session
        if rng.random() < 0.7:
            g.steps.append(["op", g.rid(), {"op": "ls-sessions"}])
        if rng.random() < 0.5:
            g.steps.append(["intr", g.rid(), s])    # -> unknown-session
        if g.nsess < 4 and (not g.open or rng.random() < 0.6):
            g.clone()
    elif x < 0.84:
        # pipelined: eval, interrupt right behind it (unjudged), then an eval that must be normal
        _bystanders(g, s)
        r1 = g.eval_step(s, _print_shape(rng, heavy=rng.random() < 0.5))
        if rng.random() < 0.5:
            g.steps.append(["sleep", rng.choice([0, 1, 3, 10, 30, 60, 100])])
        for _ in range(rng.choice([1, 1, 2])):
            g.steps.append(["intr", g.rid(), s])
        g.eval_step(s, _print_shape(rng, heavy=rng.random() < 0.5))
        if rng.random() < 0.3:
            g.steps.append(["wait_done", r1])
        if rng.random() < 0.7:
            g.readcnt(s)
    else:
        # interrupts aimed at sessions that do not exist / other sessions while this one works
        r1 = g.eval_step(s, _print_shape(rng, heavy=True))
        others = [t for t in g.open if t != s]
        for _ in range(rng.randint(1, 3)):
            t = rng.choice(others) if others and rng.random() < 0.6 else rng.choice(["nosuch"] + g.closed)
            g.steps.append(["intr", g.rid(), t])
            if rng.random() < 0.5:
                g.steps.append(["sleep", rng.randint(0, 40)])
        g.steps.append(["wait_done", r1])


# --------------------------------------------------------------------------- executor

def _session_name(names, s):
    if s == "nosuch":
        return "garden-99"
    return names.get(s, "garden-unset-%s" % s)


class _Driver(threading.Thread):
    def __init__(self, port, spec, scratch_dir, shared):
        super().__init__(daemon=True)
        self.shared = shared
        self.spec = spec
        self.name_ = spec["name"]
        self.port = port
        self.dir = scratch_dir
        self.conn = None
        self.names = {}         # s -> server session id
        self.log = []           # harness notes (watchdogs etc.)
        self.reqs = {}          # wire id -> info dict
        self.order = []         # wire ids in send order (with non-request events interleaved as tuples)
        self.fail = None

    def wid(self, r):
        return "%s%d" % (self.name_, r)

    def _worker_exited(self, sname):
        """Harness economy only (the verdict is taken later from the complete log): has the worker thread of
        this connection's session `sname` logged `worker.exit`?"""
        path = self.shared["srv"].event_log
        try:
            lines = [l for l in open(path, encoding="utf-8", errors="replace")
                     if '"worker.' in l or ('"dispatch"' in l and "clone %sc1 " % self.name_ in l)]
        except OSError:
            return False
        evs = []
        for l in lines:
            try:
                evs.append(json.loads(l))
            except ValueError:
                pass
        return _worker_exit_event(evs, self.name_, sname) is not None

    def _wait(self, pred, what, limit=None, giveup=None):
        """Wait for a message; the watchdog is generous until something already went wrong in this run
        (a watchdog fired, or the server reported a panic and this wait is already long) - then it is short.
        Purely a harness economy: verdicts never depend on which watchdog fired.
        Every slice rescans the transcript from its start, so no message can slip between two slices."""
        t0 = time.time()
        while True:
            budget = WATCHDOG if limit is None else limit
            if self.shared.get("tripped"):
                budget = min(budget, 3.0)
            if time.time() - t0 > 10.0 and self.shared["srv"].stderr_has_panic():
                budget = 0      # some server thread panicked and this wait is already long: stop waiting
            left = t0 + budget - time.time()
            if left <= 0:
                i = self.conn.wait(pred, 0, 0)
                if i is not None:
                    return i
                self.shared["tripped"] = True
                self.log.append("watchdog: %s" % what)
                return None
            i = self.conn.wait(pred, min(left, 0.5), 0)
            if i is not None:
                return i
            if self.conn.eof:
                self.log.append("eof: %s" % what)
                return None
            if giveup is not None and time.time() - t0 > 1.0 and giveup():
                # one more look: whatever the worker sent before it exited is already on the wire
                i = self.conn.wait(pred, 0.3, 0)
                if i is None:
                    self.log.append("gave up (worker exited): %s" % what)
                return i

    def _wait_done(self, w, what, limit=None, giveup=None):
        if giveup is None:
            sname = self.names.get((self.reqs.get(w) or {}).get("s"))
            if sname and self.reqs[w]["kind"] in ("eval", "load", "compl", "lookup", "sentinel"):
                giveup = lambda sn=sname: self._worker_exited(sn)
        return self._wait(lambda m: m.get("id") == w and nc.is_done(m), "%s %s" % (what, w), limit, giveup)

    def _send(self, r, req, info):
        w = self.wid(r)
        req = dict(req, id=w)
        info = dict(info, wid=w, r=r, sent_index=len(self.conn.sent))
        self.reqs[w] = info
        self.order.append(w)
        self.conn.send(req)

    def run(self):
        try:
            self.conn = nc.Conn(self.port, self.name_)
        except OSError as ex:
            self.fail = "connect: %s" % ex
            return
        try:
            self._run()
        except Exception as ex:     # harness problem -> inconclusive
            import traceback
            self.fail = "driver: %s" % traceback.format_exc()[-800:]

    def _run(self):
        c = self.conn
        nm = self.name_
        nclone = 0
        for st in self.spec["steps"]:
            op = st[0]
            if op == "clone":
                nclone += 1
                w = "%sc%d" % (nm, nclone)
                self.reqs[w] = {"wid": w, "kind": "clone", "s": st[1], "sent_index": len(c.sent)}
                self.order.append(w)
                c.send({"op": "clone", "id": w})
                i = self._wait_done(w, "clone")
                if i is None:
                    return
                self.names[st[1]] = c.msgs[i].get("new-session")
            elif op in ("eval", "load"):
                r, s, shape = st[1], st[2], st[3]
                rd = render(nm, s, r, shape)
                req = {"op": "eval" if op == "eval" else "load-file", "session": _session_name(self.names, s)}
                if op == "eval":
                    req["code"] = rd["code"]
                else:
                    req["file"] = rd["code"]
                    if st[4]:
                        req["file-path"] = os.path.join(self.dir, st[4])
                self._send(r, req, {"kind": op, "s": s, "shape": shape, "path": st[4] if op == "load" else None})
            elif op == "compl":
                self._send(st[1], {"op": "completions", "session": _session_name(self.names, st[2]), "prefix": st[3]},
                           {"kind": "compl", "s": st[2], "prefix": st[3]})
            elif op == "lookup":
                self._send(st[1], {"op": "lookup", "session": _session_name(self.names, st[2]), "sym": st[3]},
                           {"kind": "lookup", "s": st[2], "sym": st[3]})
            elif op == "intr":
                self._send(st[1], {"op": "interrupt", "session": _session_name(self.names, st[2])},
                           {"kind": "intr", "s": st[2]})
            elif op == "close":
                self._send(st[1], {"op": "close", "session": _session_name(self.names, st[2])},
                           {"kind": "close", "s": st[2]})
            elif op == "op":
                self._send(st[1], st[2], {"kind": "op", "req": st[2], "s": None})
            elif op == "noid":
                self.order.append(("noid", len(c.sent)))
                c.send(st[1])
            elif op == "junk":
                c.send_raw(st[1].encode())
            elif op == "wait_done":
                w = self.wid(st[1])
                is_long = (self.reqs.get(w, {}).get("shape") or {}).get("k") in ("long", "biglong")
                self._wait_done(w, "wait_done", LONG_WATCHDOG if is_long else None)
            elif op == "wait_out":
                w = self.wid(st[1])
                # first output, or the request's done if it ends without printing (e.g. unknown session)
                sname = self.names.get((self.reqs.get(w) or {}).get("s"))
                self._wait(lambda m: m.get("id") == w and ("out" in m or nc.is_done(m)), "wait_out %s" % w,
                           giveup=(lambda sn=sname: self._worker_exited(sn)) if sname else None)
            elif op == "wait_idle":
                for w, info in list(self.reqs.items()):
                    if info.get("s") == st[1] and info["kind"] in ("eval", "load", "compl", "lookup"):
                        self._wait_done(w, "wait_idle")
            elif op == "sleep":
                time.sleep(st[1] / 1000.0)
        # ---- final phase: per-session sentinels (FIFO: their done proves every earlier request was processed)
        closed = set(info["s"] for info in self.reqs.values() if info["kind"] == "close")
        self.sentinels = {}
        for s, sname in self.names.items():
            if s in closed:
                continue
            w = "%sz%s" % (nm, s)
            self.reqs[w] = {"wid": w, "kind": "sentinel", "s": s, "sent_index": len(c.sent)}
            self.order.append(w)
            self.sentinels[s] = w
            c.send({"op": "completions", "id": w, "session": sname, "prefix": "gdef_zz"})
        pending_long = any((i.get("shape") or {}).get("k") in ("long", "biglong") and c.wait_done(w, 0) is None
                           for w, i in self.reqs.items())
        deadline = time.time() + (LONG_WATCHDOG if pending_long else WATCHDOG)
        # The sentinel's done proves (FIFO worker, ordered writer, ordered TCP stream) that everything sent
        # earlier to that session has been answered or never will be; only requests queued on sessions we
        # closed have no sentinel and are waited for individually.
        for w in list(self.sentinels.values()):
            self._wait_done(w, "final", max(0.0, deadline - time.time()))
        for w, info in list(self.reqs.items()):
            if info.get("s") in closed and info["kind"] in ("eval", "load", "compl", "lookup"):
                sname = self.names.get(info["s"])
                self._wait_done(w, "final-closed", max(0.0, deadline - time.time()),
                                giveup=(lambda sn=sname: self._worker_exited(sn)) if sname else None)
        # a sentinel that was queued behind a request that killed the worker is lost with it: ask again.
        # (answered `unknown-session` for a session we never closed = the worker is dead)
        self.probes2 = {}
        for s, w in list(self.sentinels.items()):
            if c.wait_done(w, 0) is None and not c.eof:
                w2 = "%sy%s" % (nm, s)
                self.reqs[w2] = {"wid": w2, "kind": "sentinel", "s": s, "sent_index": len(c.sent), "second": True}
                self.order.append(w2)
                self.probes2[s] = w2
                c.send({"op": "completions", "id": w2, "session": self.names[s], "prefix": "gdef_zz"})
        for w2 in self.probes2.values():
            self._wait_done(w2, "probe2", 10.0)
        # quiescence: describe sentinel answered by the reader thread, then 2 flusher periods
        w = "%sq" % nm
        self.reqs[w] = {"wid": w, "kind": "op", "req": {"op": "describe"}, "s": None, "sent_index": len(c.sent)}
        self.order.append(w)
        c.send({"op": "describe", "id": w})
        self._wait_done(w, "quiescence", 10.0)
        time.sleep(2.3 * FLUSH_MS / 1000.0)


def execute(case):
    """Run the history against a fresh server. -> observation dict (JSON-able)."""
    with core.Scratch("gmG-nrepl-") as sc:
        srv = nc.Server(sc.dir, delays=case.get("delays") or None)
        if not srv.ok():
            err = srv.stderr()
            srv.stop()
            return {"harness": "server did not start: %s" % err[-400:]}
        shared = {"srv": srv, "tripped": False, "panic_t": None}
        drivers = [_Driver(srv.port, spec, sc.dir, shared) for spec in case["conns"]]
        t0 = time.time()
        for d in drivers:
            d.start()
        for d in drivers:
            d.join(timeout=max(1.0, 2 * LONG_WATCHDOG + 3 * WATCHDOG - (time.time() - t0)))
        hung = [d.name_ for d in drivers if d.is_alive()]
        alive = srv.p.poll() is None
        obs = {"conns": {}, "server_alive": alive, "hung": hung, "wall": round(time.time() - t0, 2)}
        for d in drivers:
            if d.conn is None:
                obs["conns"][d.name_] = {"fail": d.fail}
                continue
            msgs, sent = d.conn.snapshot()
            obs["conns"][d.name_] = {"msgs": msgs, "sent": [{"id": x["req"].get("id"), "pos": x["pos"]} for x in sent],
                                     "reqs": d.reqs, "order": d.order, "names": d.names, "log": d.log,
                                     "fail": d.fail, "error": d.conn.error,
                                     "sentinels": getattr(d, "sentinels", {}),
                                     "probes2": getattr(d, "probes2", {}), "eof": d.conn.eof}
            d.conn.close()
        time.sleep(0.05)
        srv.stop()
        obs["stderr"] = srv.stderr()[-3000:]
        obs["events"] = srv.events()
        return obs


# --------------------------------------------------------------------------- judge

def _ids_done(msgs):
    done = {}
    for i, m in enumerate(msgs):
        if nc.is_done(m) and "id" in m:
            done.setdefault(m["id"], []).append(i)
    return done


def judge(case, obs):
    """-> dict(c30=[violations], c31=[violations], inconclusive=[...], facts={...}).

    A violation is (sig, detail).  Watchdogs and harness trouble only ever produce `inconclusive`.
    """
    v30, v31, inc = [], [], []
    facts = {"evals": 0, "intr_executing": 0, "intr_idle": 0, "close_executing": 0, "outcomes": {}}
    if obs.get("harness"):
        return {"c30": [], "c31": [], "inconclusive": [obs["harness"]], "facts": facts}
    if obs.get("hung"):
        inc.append("driver threads still running: %s" % obs["hung"])
    panicked = "panicked at" in obs.get("stderr", "")
    for cname, co in sorted(obs["conns"].items()):
        if co.get("fail"):
            inc.append("%s: %s" % (cname, co["fail"]))
            continue
        if co.get("error"):
            inc.append("%s: connection error %s" % (cname, co["error"]))
        msgs, reqs = co["msgs"], co["reqs"]
        sentpos = {x["id"]: x["pos"] for x in co["sent"] if x["id"]}
        sentidx = {x["id"]: k for k, x in enumerate(co["sent"]) if x["id"]}
        done = _ids_done(msgs)
        by_id = {}
        for i, m in enumerate(msgs):
            by_id.setdefault(m.get("id"), []).append(i)
        watchdogs = [l for l in co.get("log", []) if l.startswith("watchdog")]

        # ---- R5 strays
        n_noid_req = sum(1 for o in co["order"] if isinstance(o, (list, tuple)))
        for mid, idxs in by_id.items():
            if mid is None:
                if len(idxs) > n_noid_req:
                    v30.append(("stray-message-without-id", {"conn": cname, "expected": n_noid_req,
                                                            "got": [msgs[i] for i in idxs][:3]}))
            elif mid not in reqs:
                v30.append(("stray-id", {"conn": cname, "msg": msgs[idxs[0]]}))

        # session model in send order: which sessions are closed when a request is sent
        closed_at = {}          # s -> sent index of the close request
        for w in co["order"]:
            if isinstance(w, str) and reqs[w]["kind"] == "close" and isinstance(reqs[w]["s"], int):
                closed_at.setdefault(reqs[w]["s"], reqs[w]["sent_index"])

        def dead_session(info):
            s = info.get("s")
            if s == "nosuch":
                return True
            if isinstance(s, int) and s in closed_at and info["sent_index"] > closed_at[s]:
                return True
            return False

        # interrupts / closes per session, with their send positions
        stops = {}
        for w in co["order"]:
            if isinstance(w, str) and reqs[w]["kind"] in ("intr", "close") and isinstance(reqs[w]["s"], int):
                stops.setdefault(reqs[w]["s"], []).append(w)

        # a worker that died: the sentinel of a session we never closed is answered unknown-session
        dead_workers = set()
        for s, w in list(co.get("sentinels", {}).items()) + list(co.get("probes2", {}).items()):
            for i in done.get(w, []):
                if "unknown-session" in nc.status_of(msgs[i]):
                    dead_workers.add(int(s) if not isinstance(s, int) else s)
        # (sentinel keys become strings after a JSON round trip)
        sent_done = {}
        for s, w in co.get("sentinels", {}).items():
            sent_done[int(s)] = bool(done.get(w))

        received = {}           # wid -> (out lines, err lines, program order, base detail)
        readbacks = []          # (target wid, value text, reader wid)
        for w, info in reqs.items():
            kind = info["kind"]
            idxs = by_id.get(w, [])
            d = done.get(w, [])
            # ---- R1
            if len(d) > 1:
                v30.append(("multiple-done", {"conn": cname, "id": w, "kind": kind, "msgs": [msgs[i] for i in d]}))
            if not d:
                s = info.get("s")
                session_bound = kind in ("eval", "load", "compl", "lookup", "sentinel")
                proof = None
                if session_bound and isinstance(s, int) and not dead_session(info):
                    if s in dead_workers:
                        proof = "worker-panic" if panicked else "worker-dead"
                    elif sent_done.get(s):
                        proof = "later-request-answered"
                    else:
                        # any later session-bound request of the same session that has its done (FIFO worker)
                        for w2, i2 in reqs.items():
                            if i2.get("s") == s and i2["kind"] in ("eval", "load", "compl", "lookup") \
                                    and i2["sent_index"] > info["sent_index"] and done.get(w2) \
                                    and "unknown-session" not in nc.status_of(msgs[done[w2][0]]):
                                proof = "later-request-answered"
                                break
                elif not session_bound or dead_session(info):
                    # answered by the reader thread itself: the quiescence sentinel (sent later on the same
                    # connection, same thread) has been answered
                    q = cname + "q"
                    if done.get(q):
                        proof = "reader-answered-later-request"
                if proof is None and _log_finished(obs, w):
                    proof = "worker-finished-request"
                if proof is None and session_bound and isinstance(s, int) and done.get(cname + "q"):
                    # The session's worker thread left session_worker (`worker.exit`) before the reader thread
                    # dispatched this connection's quiescence `describe`, whose answer we hold: everything the
                    # worker ever sent precedes that answer in the ordered transcript, so nothing more can come.
                    sname = co["names"].get(s)
                    ex = _worker_exit_event(_points(obs), cname, sname) if sname else None
                    qd = next((e for e in _points(obs) if e["point"] == "dispatch"
                               and e.get("extra", "").split(" ")[1:2] == [cname + "q"]), None)
                    if ex is not None and qd is not None and ex["seq"] < qd["seq"]:
                        proof = "worker-exited"
                if proof:
                    sig = "no-done:" + proof if proof in ("worker-panic", "worker-dead") else "no-done"
                    v30.append((sig, {"conn": cname, "id": w, "kind": kind, "proof": proof,
                                      "shape": info.get("shape"), "stderr": obs.get("stderr", "")[-600:] if panicked else ""}))
                else:
                    inc.append("%s: no done for %s within the watchdog and no proof that it was dropped" % (cname, w))
                continue
            di = d[0]
            st = nc.status_of(msgs[di])
            # ---- R2
            later = [i for i in idxs if i > di and i not in d]
            if later:
                v30.append(("message-after-done", {"conn": cname, "id": w, "kind": kind, "done": msgs[di],
                                                   "after": [msgs[i] for i in later][:3]}))
            if kind not in ("eval", "load"):
                _judge_misc(cname, co, w, info, msgs, idxs, di, st, dead_session(info), v30, v31, closed_at, reqs)
                continue

            # ---- eval / load-file
            facts["evals"] += 1
            rd = render(cname, info["s"], info["r"], info["shape"])
            out = "".join(msgs[i]["out"] for i in idxs if isinstance(msgs[i].get("out"), str))
            err = "".join(msgs[i]["err"] for i in idxs if isinstance(msgs[i].get("err"), str))
            err_tagged = "".join(TAG_RE.findall(err))
            if "err_exact" in rd and "interrupted" not in st:
                # untagged bulk text: on success nothing but the program's own text is expected on err; when the
                # eval fails, Garden's error text follows the program's text (final drain, then the error message)
                err_tagged = err if rd["err_exact"] else err[:len(rd["err"])]
            values = [msgs[i]["value"] for i in idxs if "value" in msgs[i]]
            interrupted = "interrupted" in st
            oc = "interrupted" if interrupted else "unknown-session" if "unknown-session" in st else \
                "error" if "eval-error" in st else "value"
            facts["outcomes"][oc] = facts["outcomes"].get(oc, 0) + 1
            base = {"conn": cname, "id": w, "kind": kind, "shape": info["shape"], "status": st}
            if dead_session(info):
                if "unknown-session" not in st:
                    v31.append(("session-not-gone" if info["s"] != "nosuch" else "unknown-session-not-reported",
                                dict(base, msgs=[msgs[i] for i in idxs][:4])))
                if out or err_tagged:
                    v30.append(("output-from-dead-session", dict(base, out=out[:200])))
                continue
            if "unknown-session" in st:
                s = info["s"]
                if s in dead_workers or panicked:
                    v30.append(("no-done:worker-panic" if panicked else "no-done:worker-dead",
                                dict(base, proof="live session answers unknown-session",
                                     stderr=obs.get("stderr", "")[-600:])))
                else:
                    v30.append(("live-session-unknown", base))
                continue
            # ---- R3 conservation
            exp_out, exp_err = rd["out"], rd["err"]
            if interrupted:
                ok_out = exp_out.startswith(out)
                ok_err = exp_err.startswith(err_tagged)
            elif rd["end"] == "any":
                ok_out = ok_err = True
            else:
                ok_out = out == exp_out
                ok_err = err_tagged == exp_err
            if not ok_out:
                v30.append((_conserve_sig("out", exp_out, out, interrupted),
                            dict(base, expected=exp_out[-400:], got=out[-400:], expected_bytes=len(exp_out), got_bytes=len(out))))
            if not ok_err:
                v30.append((_conserve_sig("err", exp_err, err_tagged, interrupted),
                            dict(base, expected=exp_err[-400:], got=err[-400:], expected_bytes=len(exp_err),
                                 got_bytes=len(err_tagged))))
            # program-order causality across the two streams (matters for evals that were cut short): if a
            # line arrived, every line the program printed before it - on either stream - must have arrived
            order = rd.get("order")
            got_o, got_e = out.count("\n"), err_tagged.count("\n")
            received[w] = (got_o, got_e, order, base)
            if order and ok_out and ok_err:
                last = -1
                seen_o = seen_e = 0
                for i, (st_, _) in enumerate(order):
                    if st_ == "o":
                        seen_o += 1
                        if seen_o == got_o:
                            last = max(last, i)
                    else:
                        seen_e += 1
                        if seen_e == got_e:
                            last = max(last, i)
                need_o = sum(1 for st_, _ in order[:last + 1] if st_ == "o")
                need_e = sum(1 for st_, _ in order[:last + 1] if st_ == "e")
                if got_o and got_e or (got_o or got_e):
                    if need_o > got_o:
                        v30.append(("out-lost", dict(base, why="a later line arrived on err", got_out=got_o, need_out=need_o)))
                    if need_e > got_e:
                        v30.append(("err-lost", dict(base, why="a later line arrived on out", got_err=got_e, need_err=need_e)))
            if info["shape"]["k"] == "readcnt" and values and not interrupted:
                readbacks.append((cname + str(info["shape"]["of"]), values[0], w))
            # ---- R4 isolation and end state
            if not interrupted and rd["end"] == "unbound":
                if "eval-error" not in st or values:
                    v30.append(("session-isolation", dict(base, values=values)))
                elif "No such variable" not in err:
                    inc.append("%s: foreign probe %s failed for another reason: %s" % (cname, w, err[:200]))
            elif not interrupted and rd["end"] == "value" and info["shape"]["k"] == "call":
                if values != [rd["value"]]:
                    inc.append("%s: control probe %s did not see the session's own definition: %s %s" % (
                        cname, w, values, err[:200]))
            elif not interrupted and rd["end"] == "value":
                if "eval-error" in st or values != [rd["value"]]:
                    v30.append(("wrong-result", dict(base, values=values, err=err[:300])))
            elif not interrupted and rd["end"] == "throw":
                if "eval-error" not in st or values:
                    v30.append(("wrong-result", dict(base, values=values, err=err[:300])))
            elif not interrupted and rd["end"] == "parse":
                if "eval-error" not in st:
                    v30.append(("wrong-result", dict(base, values=values, err=err[:300])))

            # ---- C31: which interrupts / closes could legitimately have hit this eval?
            s = info["s"]
            cand = [x for x in stops.get(s, []) if sentidx[x] > sentidx[w] and sentpos[x] <= di]
            if interrupted and not cand:
                earlier = [x for x in stops.get(s, []) if sentidx[x] < sentidx[w]]
                sig = "stale-interrupt-cancelled-later-eval" if earlier else "eval-interrupted-without-interrupt"
                v31.append((sig, dict(base, earlier=[(x, reqs[x]["kind"]) for x in earlier][-3:])))
            # known to be executing: first `out` of this eval received before the stop request was sent
            first_out = next((i for i in idxs if "out" in msgs[i]), None)
            if rd.get("long") and first_out is not None:
                for x in cand:
                    if sentpos[x] > first_out:
                        k = reqs[x]["kind"]
                        facts["intr_executing" if k == "intr" else "close_executing"] += 1
                        if not interrupted:
                            # corroborate with the event log: the store must have been complete before the
                            # eval ended (a client that was slow to send after the first output proves nothing)
                            if _stop_before_eval_end(obs, x, w) is False:
                                facts["late_stops"] = facts.get("late_stops", 0) + 1
                            else:
                                v31.append(("interrupt-lost" if k == "intr" else "close-did-not-stop-eval",
                                            dict(base, stop=x, values=values)))
                        break
            for x in stops.get(s, []):
                if reqs[x]["kind"] == "intr" and sentidx[x] < sentidx[w]:
                    # was the session idle (client held done for everything sent to it) when x was sent?
                    prior = [w0 for w0, i0 in reqs.items() if i0.get("s") == s and i0["kind"] in ("eval", "load", "compl", "lookup")
                             and sentidx.get(w0, 1 << 30) < sentidx[x]]
                    if all(done.get(w0) and done[w0][0] < sentpos[x] for w0 in prior):
                        facts["intr_idle"] += 1
                        break

        # ---- the eval's own count of the lines it printed (read back by a later eval of the same session)
        for target, val, reader in readbacks:
            if target not in received or not received[target][2]:
                continue
            try:
                n = int(val)
            except ValueError:
                continue
            got_o, got_e, order, base = received[target]
            need_o = sum(1 for st_, _ in order[:n] if st_ == "o")
            need_e = sum(1 for st_, _ in order[:n] if st_ == "e")
            if need_o > got_o:
                v30.append(("out-lost", dict(base, why="the eval counted %d printed lines (read back by %s)" % (n, reader),
                                             got_out=got_o, need_out=need_o)))
            if need_e > got_e:
                v30.append(("err-lost", dict(base, why="the eval counted %d printed lines (read back by %s)" % (n, reader),
                                             got_err=got_e, need_err=need_e)))
        if watchdogs:
            inc.append("%s: %s" % (cname, "; ".join(watchdogs[:3])))
    v31.extend(_step_bound(obs))
    status_by_wid = {}
    has_exprs = set()       # evals with at least one top-level expression, i.e. at least one interpreter step
    for cname, co in obs["conns"].items():
        if co.get("msgs") is None:
            continue
        for w, info in co["reqs"].items():
            sh = info.get("shape")
            if info["kind"] in ("eval", "load") and sh:
                if sh["k"] in ("long", "biglong", "call", "readcnt", "big") or \
                        (sh["k"] == "print" and render(cname, info["s"], info["r"], sh)["code"].strip()):
                    has_exprs.add(w)
        for m in co["msgs"]:
            if nc.is_done(m) and "id" in m:
                status_by_wid.setdefault(m["id"], nc.status_of(m))
    hits, viol = _pre_eval_window(obs, status_by_wid, has_exprs)
    facts["pre_eval_window"] = hits
    v31.extend(viol)
    return {"c30": v30, "c31": v31, "inconclusive": inc, "facts": facts}


def _conserve_sig(stream, exp, got, interrupted):
    if interrupted:
        return "%s-not-a-prefix-of-expected" % stream
    if len(got) < len(exp) and (exp.startswith(got) or exp.endswith(got) or _subseq(got, exp)):
        return "%s-lost" % stream
    if len(got) > len(exp):
        lines = got.split("\n")
        if len(set(lines)) < len(lines) - 1 and set(lines) <= set(exp.split("\n")):
            return "%s-duplicated" % stream
        if any(l and l + "\n" not in exp for l in lines):
            return "%s-cross-attributed" % stream
    if sorted(got.split("\n")) == sorted(exp.split("\n")):
        return "%s-reordered" % stream
    if any(l and l + "\n" not in exp for l in got.split("\n")):
        return "%s-cross-attributed" % stream
    return "%s-mismatch" % stream


def _subseq(a, b):
    la, lb = a.split("\n"), b.split("\n")
    it = iter(lb)
    return all(x in it for x in la)


def _judge_misc(cname, co, w, info, msgs, idxs, di, st, dead, v30, v31, closed_at, reqs):
    kind = info["kind"]
    m = msgs[di]
    base = {"conn": cname, "id": w, "kind": kind, "status": st}
    own_prefix = None
    if isinstance(info.get("s"), int):
        own_prefix = "gdef_%s_%s_" % (cname, info["s"])
    if kind in ("compl", "lookup", "sentinel", "intr"):
        if dead and "unknown-session" not in st:
            v31.append(("session-not-gone" if info["s"] != "nosuch" else "unknown-session-not-reported",
                        dict(base, msg=m)))
            return
    if kind == "compl" and not dead and "unknown-session" not in st:
        for c in m.get("completions", []) or []:
            cand = c.get("candidate", "") if isinstance(c, dict) else ""
            if cand.startswith("gdef_") and not cand.startswith(own_prefix):
                v30.append(("session-isolation", dict(base, candidate=cand)))
                break
    if kind == "lookup" and not dead and "unknown-session" not in st:
        sym = info.get("sym", "")
        if sym.startswith("gdef_") and not sym.startswith(own_prefix) and "info" in m:
            v30.append(("session-isolation", dict(base, sym=sym, info=m.get("info"))))
    if kind == "close":
        s = info["s"]
        first = isinstance(s, int) and closed_at.get(s) == info["sent_index"]
        if first and "session-closed" not in st:
            v31.append(("close-refused", dict(base, msg=m)))
        if not first and "unknown-session" not in st:
            v31.append(("session-not-gone" if s != "nosuch" else "unknown-session-not-reported", dict(base, msg=m)))
    if kind == "op" and info["req"].get("op") == "ls-sessions":
        # the reader thread handles clone / close / ls-sessions in order: the list is determined by send order
        expect = set()
        for w2 in co["order"]:
            if not isinstance(w2, str):
                continue
            i2 = reqs[w2]
            if i2["sent_index"] > info["sent_index"]:
                break
            if i2["kind"] == "clone":
                nm = co["names"].get(i2["s"], co["names"].get(str(i2["s"])))
                if nm:
                    expect.add(nm)
            elif i2["kind"] == "close" and isinstance(i2["s"], int) and closed_at.get(i2["s"]) == i2["sent_index"]:
                nm = co["names"].get(i2["s"], co["names"].get(str(i2["s"])))
                expect.discard(nm)
        got = m.get("sessions")
        if not isinstance(got, list) or set(got) != expect or len(got) != len(set(got)):
            v31.append(("ls-sessions-wrong", dict(base, expected=sorted(expect), got=got)))


# --------------------------------------------------------------------------- event log

def _points(obs):
    return [e for e in obs.get("events", []) if e.get("ev") == "point"]


def _tkey(e):
    return e.get("tid") or e.get("thread")


def _worker_exit_event(pts, cname, sname):
    """The `worker.exit` event of the worker thread serving session `sname` of connection `cname`, or None.
    reader thread = the thread that dispatched the connection's first clone (ids are unique per case);
    worker thread = `worker.start` with extra = reader tid and thread name nrepl-session-<sname>."""
    reader = None
    for e in pts:
        if e.get("point") == "dispatch" and e.get("extra", "").split(" ")[1:2] == [cname + "c1"]:
            reader = e.get("tid")
            break
    if reader is None:
        return None
    wt = None
    for e in pts:
        if e.get("point") == "worker.start" and e.get("extra") == reader \
                and e.get("thread") == "nrepl-session-%s" % sname:
            wt = e.get("tid")
    if wt is None:
        return None
    for e in pts:
        if e.get("point") == "worker.exit" and e.get("tid") == wt:
            return e
    return None


def _log_finished(obs, wid):
    """True when the log shows the worker dequeued `wid` and later reached responses.sent on that thread."""
    pts = _points(obs)
    for i, e in enumerate(pts):
        if e["point"] == "dequeued" and e.get("extra") == wid and e.get("tid"):
            for f in pts[i + 1:]:
                if _tkey(f) == _tkey(e):
                    if f["point"] == "responses.sent":
                        return True
                    if f["point"] == "dequeued":
                        return True
    return False


def _thread_maps(pts):
    """-> (wid -> worker thread, (client thread, session name) -> worker thread); needs the `tid` field."""
    wid_tid = {}
    for e in pts:
        if e["point"] == "dequeued" and e.get("extra"):
            wid_tid[e["extra"]] = _tkey(e)
    sess_tid = {}
    for e in pts:
        if e["point"] == "dispatch":
            parts = e.get("extra", "").split(" ")
            if len(parts) >= 3 and parts[1] in wid_tid:
                sess_tid[(_tkey(e), parts[2])] = wid_tid[parts[1]]
    return wid_tid, sess_tid


def _step_bound(obs):
    """C31(a), logical time: if the target session's eval is the only eval active in the whole process from
    interrupt.before_store on, the eval loop must observe the flag within 2 interpreter steps (process-wide
    counter) of interrupt.after_store - or end by itself within those 2 steps."""
    out = []
    pts = _points(obs)
    if not pts or not all("tid" in e for e in pts):
        return out
    _, sess_tid = _thread_maps(pts)
    active = {}          # worker thread -> True while between eval.begin and eval.end
    last_dispatch = {}
    for i, e in enumerate(pts):
        p = e["point"]
        if p == "eval.begin":
            active[_tkey(e)] = True
        elif p == "eval.end":
            active.pop(_tkey(e), None)
        elif p == "dispatch":
            last_dispatch[_tkey(e)] = e.get("extra", "").split(" ")
        if p != "interrupt.before_store":
            continue
        d = last_dispatch.get(_tkey(e), [])
        target = sess_tid.get((_tkey(e), d[2] if len(d) >= 3 else None))
        if target is None or list(active) != [target]:
            continue
        after = None
        for f in pts[i + 1:]:
            q = f["point"]
            if q == "eval.begin":
                break                                   # another eval became active: step counter is shared
            if q == "interrupt.after_store" and _tkey(f) == _tkey(e) and after is None:
                after = f
            elif q == "interrupt_seen" and _tkey(f) == target:
                if after is not None and f["steps"] - after["steps"] > 2:
                    out.append(("interrupt-not-observed-within-2-steps",
                                {"interrupt": e.get("extra"), "after_store_steps": after["steps"],
                                 "seen_steps": f["steps"]}))
                break
            elif q == "eval.end" and _tkey(f) == target:
                if after is not None and f["steps"] - after["steps"] > 2:
                    out.append(("interrupt-not-observed-within-2-steps",
                                {"interrupt": e.get("extra"), "after_store_steps": after["steps"],
                                 "eval_end_steps": f["steps"], "note": "eval ran on to its end"}))
                break
    return out


def _stop_before_eval_end(obs, stop_wid, eval_wid):
    """True / False when the log shows that the store of stop request `stop_wid` was complete before /
    only after the `eval.end` of request `eval_wid`; None when the log cannot tell."""
    pts = _points(obs)
    if not pts or not all("tid" in e for e in pts):
        return None
    end = None
    wt = None
    for e in pts:
        if e["point"] == "dequeued" and e.get("extra") == eval_wid:
            wt = e["tid"]
        elif wt is not None and e["tid"] == wt and e["point"] == "eval.end":
            end = e["seq"]
            break
        elif wt is not None and e["tid"] == wt and e["point"] == "dequeued":
            break
    if end is None:
        return None
    rt = None
    stored = False
    for e in pts:
        if e["point"] == "dispatch" and e.get("extra", "").split(" ")[1:2] == [stop_wid]:
            rt = e["tid"]
            continue
        if rt is not None and e["tid"] == rt:
            if e["point"] in ("interrupt.before_store", "close.before_store"):
                stored = True
                continue
            if stored:
                # first event of the reader thread after the store
                return e["seq"] < end
            if e["point"] == "dispatch":
                return None         # the stop request did not reach a store (unknown session)
    return None


def _pre_eval_window(obs, status_by_wid, has_exprs):
    """C31, logical (event log): a stop (interrupt / close) whose store comes after the worker's `flag_reset`
    point of the cycle that handles eval E and is complete before E's `eval.begin` is pending when the eval
    loop makes its first step, so E must end `interrupted`; a done without `interrupted` = the stop was lost
    between dequeue and evaluation.  Order is proved by the global sequence numbers: reset -> flag_reset.seq <
    before_store.seq -> store -> (after_store | next event of the reader thread).seq < eval.begin.seq."""
    pts = _points(obs)
    out = []
    hits = 0
    if not pts or not all("tid" in e for e in pts):
        return hits, out
    _, sess_tid = _thread_maps(pts)
    by_thread = {}
    for i, e in enumerate(pts):
        by_thread.setdefault(_tkey(e), []).append(i)
    # worker cycles: tid -> list of dict(wid, flag_reset, begin, end) (indices into pts)
    cycles = {}
    for t, idxs in by_thread.items():
        cur = None
        for i in idxs:
            p = pts[i]["point"]
            if p == "dequeued":
                cur = {"wid": pts[i].get("extra"), "flag_reset": None, "begin": None, "end": None}
                cycles.setdefault(t, []).append(cur)
            elif cur is not None and p == "flag_reset" and cur["flag_reset"] is None:
                cur["flag_reset"] = i
            elif cur is not None and p == "eval.begin" and cur["begin"] is None:
                cur["begin"] = i
            elif cur is not None and p == "eval.end" and cur["end"] is None:
                cur["end"] = i
    last_dispatch = {}
    for i, e in enumerate(pts):
        p = e["point"]
        if p == "dispatch":
            last_dispatch[_tkey(e)] = e.get("extra", "").split(" ")
            continue
        if p not in ("interrupt.before_store", "close.before_store"):
            continue
        ct = _tkey(e)
        d = last_dispatch.get(ct, [])
        target = sess_tid.get((ct, d[2] if len(d) >= 3 else None))
        if target is None:
            continue
        # first later event of the same reader thread: the store is complete by then
        after = next((j for j in by_thread[ct] if j > i), None)
        if after is None:
            continue
        for cyc in cycles.get(target, []):
            if cyc["flag_reset"] is None or cyc["begin"] is None:
                continue
            if cyc["flag_reset"] < i and after < cyc["begin"]:
                if cyc["wid"] not in has_exprs:
                    break
                hits += 1
                st = status_by_wid.get(cyc["wid"])
                if st is not None and "interrupted" not in st and "unknown-session" not in st:
                    kind = "interrupt" if p.startswith("interrupt") else "close"
                    out.append(("interrupt-lost:pre-eval-window",
                                {"stop": kind, "stop_request": d[1] if len(d) > 1 else None, "eval": cyc["wid"],
                                 "status": st, "flag_reset_seq": pts[cyc["flag_reset"]]["seq"],
                                 "before_store_seq": e["seq"], "store_complete_by_seq": pts[after]["seq"],
                                 "eval_begin_seq": pts[cyc["begin"]]["seq"]}))
                break
    return hits, out


WORKER_POINTS = ("dequeued", "flag_reset", "eval.begin", "eval.end", "final_drain", "responses.sent")


def coverage_signature(obs):
    """Set of hand-off windows reached in this run (used as the coverage key):

      * for every interrupt / close store: the last worker point of the target session's thread before the
        store and the first one after it ("intr@flag_reset>eval.begin"), or "idle";
      * for every eval: number of flusher ticks and flushes between eval.begin and eval.end, final-drain
        content (flush.taken after final_drain), bucketed.
    """
    pts = _points(obs)
    sig = set()
    if not pts:
        return sig
    have_tid = all("tid" in e for e in pts)
    wid_tid, sess_tid = _thread_maps(pts)
    last_dispatch = {}
    by_thread = {}
    for idx, e in enumerate(pts):
        by_thread.setdefault(_tkey(e), []).append(idx)
    for idx, e in enumerate(pts):
        if e["point"] == "dispatch":
            last_dispatch[_tkey(e)] = e.get("extra", "").split(" ")
        if e["point"] in ("interrupt.before_store", "close.before_store") and have_tid:
            d = last_dispatch.get(_tkey(e), [])
            sname = d[2] if len(d) >= 3 else None
            t = sess_tid.get((_tkey(e), sname))
            kind = "intr" if e["point"].startswith("interrupt") else "close"
            if t is None:
                sig.add("%s@never-used-session" % kind)
                continue
            before = [pts[k]["point"] for k in by_thread[t] if k < idx and pts[k]["point"] in WORKER_POINTS]
            after = [pts[k]["point"] for k in by_thread[t] if k > idx and pts[k]["point"] in WORKER_POINTS]
            b = before[-1] if before else "start"
            a = after[0] if after else "end"
            if b in ("responses.sent", "start") and a in ("dequeued", "end"):
                sig.add("%s@idle" % kind)
            else:
                sig.add("%s@%s>%s" % (kind, b, a))
    # per eval: flusher activity
    if have_tid:
        for t, idxs in by_thread.items():
            begin = None
            for k in idxs:
                p = pts[k]["point"]
                if p == "eval.begin":
                    begin = k
                elif p == "eval.end" and begin is not None:
                    ticks = sum(1 for q in pts[begin:k] if q["point"] == "flusher.tick")
                    taken = sum(1 for q in pts[begin:k] if q["point"] == "flush.taken")
                    sig.add("eval:ticks=%s,flushed=%s" % (min(ticks, 3), min(taken, 3)))
                    begin = None
                elif p == "final_drain":
                    nxt = [pts[q]["point"] for q in idxs if q > k][:3]
                    sig.add("drain:%s" % ("nonempty" if "flush.taken" in nxt[:2] else "empty"))
    return sig


def explain(obs, limit=60):
    """Compact tail of the event log for violation details."""
    pts = _points(obs)
    return ["%s %s %s %s %s" % (e["seq"], e.get("tid", e.get("thread")), e["point"], e.get("steps"), e.get("extra", ""))
            for e in pts[-limit:]]
