"""Vocabulary of Garden's built-in functions and methods, read at run time from src/__*.gdn.

Every `fun` / `method` header in the built-in files is parsed into
    {"kind": "fun"|"method", "ns": None|"fs"|..., "file": "__fs.gdn", "name": ..., "recv": hint|None,
     "params": [(name, hint|None), ...], "public": bool}
so a new or changed built-in is picked up automatically. Nothing here knows what a built-in *does*.
"""
import os
import re

from .. import core

HEAD_RE = re.compile(r"^(?P<mods>(?:public\s+|external\s+)*)(?P<kw>fun|method)\s+(?P<name>[a-z_][A-Za-z0-9_]*)\s*"
                     r"(?:<[^>(]*>)?\s*\((?P<rest>.*)\{\s*$")


def _balanced(rest):
    """rest = text after the opening '(' of the parameter list -> (params text, text after ')')."""
    depth = 1
    for i, ch in enumerate(rest):
        if ch == "(":
            depth += 1
        elif ch == ")":
            depth -= 1
            if depth == 0:
                return rest[:i], rest[i + 1:]
    return None, None


def split_top(s, sep=","):
    out, depth, cur = [], 0, ""
    for ch in s:
        if ch in "<([":
            depth += 1
        elif ch in ">)]":
            depth -= 1
        if ch == sep and depth == 0:
            out.append(cur)
            cur = ""
        else:
            cur += ch
    if cur.strip():
        out.append(cur)
    return [x.strip() for x in out]


def _param(p):
    if ":" in p:
        n, h = p.split(":", 1)
        return (n.strip(), h.strip())
    return (p.strip(), None)


def read_file(path):
    out = []
    base = os.path.basename(path)
    ns = None if base == "__prelude.gdn" else base[2:-4]
    for line in open(path, encoding="utf-8"):
        m = HEAD_RE.match(line.rstrip("\n"))
        if not m:
            continue
        ptext, after = _balanced(m.group("rest"))
        if ptext is None:
            continue
        ret = after.strip()
        ret = ret[1:].strip() if ret.startswith(":") else None
        params = [_param(p) for p in split_top(ptext)] if ptext.strip() else []
        recv = None
        if m.group("kw") == "method":
            if not params or params[0][0] != "this":
                continue
            recv = params[0][1]
            params = params[1:]
        out.append({"kind": m.group("kw"), "ns": ns, "file": base, "name": m.group("name"), "recv": recv,
                    "params": params, "public": "public" in m.group("mods"), "ret": ret or None})
    return out


def vocabulary(repo=None):
    repo = repo or core.REPO
    src = os.path.join(repo, "src")
    out = []
    for f in sorted(os.listdir(src)):
        if f.startswith("__") and f.endswith(".gdn"):
            out.extend(x for x in read_file(os.path.join(src, f)) if x["public"])
    return out


def hint_head(h):
    """'List<Int>' -> 'List'; '(Int, String)' -> 'Tuple'; None -> 'Any'."""
    if h is None:
        return "Any"
    h = h.strip()
    if h.startswith("("):
        return "Tuple"
    m = re.match(r"[A-Za-z_][A-Za-z0-9_]*", h)
    return m.group(0) if m else "Any"


def hint_args(h):
    if h is None or "<" not in h:
        return []
    inner = h[h.index("<") + 1:h.rindex(">")]
    return split_top(inner)
