"""Group-C helpers: run a request script through `garden reftest-json-session` and attribute responses.

The batch session answers every worker-thread request with exactly one non-`printed` response, in order;
`printed` / `printed_stderr` responses that precede it belong to that request. If the process dies, the
first request without a response is the culprit.
"""
import json

from .. import core
from .. import session


class Script:
    """Result of one batch run."""
    __slots__ = ("resps", "out", "err", "crashed_at", "run", "n_requests")

    def __init__(self):
        self.resps = []       # per answered request: raw response dict
        self.out = []         # per answered request: concatenated stdout prints that preceded its response
        self.err = []
        self.crashed_at = None
        self.run = None
        self.n_requests = 0

    def summary(self, i):
        return session.summarize(self.resps[i])


def run_script(requests, scratch, timeout=120, env=None):
    """requests: list of request dicts (no `interrupt` requests - those are answered by another thread)."""
    s = Script()
    s.n_requests = len(requests)
    r, resps = core.json_session_file(requests, timeout=timeout, scratch=scratch, env=env)
    s.run = r
    o, e = [], []
    for resp in resps:
        if not isinstance(resp, dict):
            continue
        k = session.resp_kind(resp)
        if k == "printed":
            o.append(session.resp_body(resp).get("s") or "")
            continue
        if k == "printed_stderr":
            e.append(session.resp_body(resp).get("s") or "")
            continue
        if k is None:
            continue
        s.resps.append(resp)
        s.out.append("".join(o))
        s.err.append("".join(e))
        o, e = [], []
    if len(s.resps) < len(requests):
        s.crashed_at = len(s.resps)
    return s


def crash_info(s):
    r = s.run
    if r.timed_out:
        return ("timeout", "timeout", "")
    if r.cls in core.CRASH or r.cls.startswith("signal"):
        return ("crash", core.crash_sig(r), r.err[-1500:])
    return ("lost", r.cls, r.err[-500:])


def run(src, rid=None):
    d = {"method": "run", "input": src}
    if rid is not None:
        d["id"] = rid
    return d


def err_core(summ):
    """("err", msg, pos, stack) -> (msg, position-tuple) for comparison; None if not an error."""
    if summ[0] != "err":
        return None
    pos = summ[2]
    if isinstance(pos, dict):
        pos = (pos.get("path"), pos.get("start_offset"), pos.get("end_offset"), pos.get("line_number"), pos.get("column"))
    return (summ[1], pos)


def brief(summ, n=300):
    out = []
    for x in summ:
        if isinstance(x, str) and len(x) > n:
            x = x[:n] + "..."
        out.append(x)
    return out


def dumps(x):
    return json.dumps(x, sort_keys=True, default=str)
