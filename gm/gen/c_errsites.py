"""Error sites reachable from Garden source, and the contexts they are embedded in (C07, C10).

A *site* is {"cls": class, "name": construct (vocabulary word, never an input literal), "src": source,
"stmt": bool}; `src` is expected to stop with a runtime error (if it does not, the case is trivial).
`@S@` in a source stands for the worker's scratch directory (effectful built-ins only ever see paths
inside it; most calls are ill-typed and never reach the effect anyway).
"""
import random

from . import c_vocab

# Definitions every session starts with (one request each).
PRELUDE = [
    'import "__fs.gdn" as fs',
    'import "__shell.gdn" as shell',
    'import "__random.gdn" as random',
    'import "__reflect.gdn" as reflect',
    'import "__time.gdn" as time',
    'struct VPoint { x: Int, y: String }',
    'enum VColor { VRed, VGreen(Int) }',
    'fun verif_id(v) { v }',
    'fun verif_two(a, b) { a }',
    'fun verif_call0(f) { f() }',
    'fun verif_int(i: Int): Int { i }',
    'fun verif_str2(s: String, t: String): String { s }',
    'fun verif_badret(): Int { "s" }',
    'fun verif_unboundret(): VNoSuchTy { 1 }',
    'fun verif_unboundparam(x: VNoSuchTy) { 1 }',
    'fun verif_generic<T>(x: T, y: List<T>): T { x }',
    'method verif_m(this: VPoint, i: Int): Int { i }',
    'method verif_m0(this: Int) { this }',
    'method verif_mbad(this: Int): String { this }',
]

# (type tag, source). Tag = head of the hint that accepts the value.
POOL = [
    ("Int", "1"), ("Int", "0"), ("Int", "-3"),
    ("String", '"s"'), ("String", '""'),
    ("Bool", "True"),
    ("List", "[1, 2]"), ("List", "[]"), ("List", '["a"]'),
    ("Tuple", '(1, "a")'),
    ("Option", "None"), ("Option", "Some(1)"),
    ("Result", "Ok(1)"), ("Result", 'Err("e")'),
    ("Float", "1.5"),
    ("Fun", "fun(vp) { vp }"), ("Fun", "fun() { 1 }"), ("Fun", "verif_id"), ("Fun", "println"),
    ("Unit", "Unit"),
    ("VPoint", 'VPoint{ x: 1, y: "a" }'),
    ("Path", 'Path{ p: "@S@/vx" }'),
    ("Dict", 'Dict["a" => 1]'),
    ("VColor", "VRed"), ("VColor", "VGreen(2)"),
    ("Fun", "VGreen"),
    ("Namespace", "fs"),
]

INT_OPS = ["+", "-", "*", "/", "%", "**", "<", "<=", ">", ">=", "&", "|"]
FLOAT_OPS = ["+.", "-.", "*.", "/."]
BOOL_OPS = ["&&", "||"]
STR_OPS = ["^"]


def right_value(hint):
    head = c_vocab.hint_head(hint)
    args = c_vocab.hint_args(hint)
    if head == "Int":
        return "2"
    if head == "String":
        return '"ab"'
    if head == "Bool":
        return "True"
    if head == "Float":
        return "2.5"
    if head == "List":
        a = c_vocab.hint_head(args[0]) if args else "Int"
        if a == "String":
            return '["a", "b"]'
        if a == "Path":
            return '[Path{ p: "@S@/vx" }]'
        return "[3, 1, 2]"
    if head == "Path":
        return 'Path{ p: "@S@/vx" }'
    if head == "Fun":
        ret = c_vocab.hint_head(args[1]) if len(args) > 1 else "Any"
        return "fun(vp) { True }" if ret == "Bool" else "fun(vp) { vp }"
    if head == "Option":
        return "Some(1)"
    if head == "Result":
        return "Ok(1)"
    if head == "Dict":
        return 'Dict["a" => 1]'
    if head == "Tuple":
        return '(1, "a")'
    if head == "Namespace":
        return "fs"
    if head == "Unit":
        return "Unit"
    return "1"


def is_generic(hint):
    head = c_vocab.hint_head(hint)
    return hint is None or head in ("Any", "T", "U", "E") or len(head) == 1


def callee_src(f):
    return ("%s::%s" % (f["ns"], f["name"])) if f["ns"] else f["name"]


def call_src(f, recv, args):
    if f["kind"] == "method":
        return "%s.%s(%s)" % (recv, f["name"], ", ".join(args))
    return "%s(%s)" % (callee_src(f), ", ".join(args))


def fname(f):
    if f["kind"] == "method":
        return "%s::%s" % (c_vocab.hint_head(f["recv"]), f["name"])
    return callee_src(f)


def builtin_sites(vocab):
    """Every built-in x wrong-typed position x pool value, arity -1 / +1, wrong receivers."""
    out = []
    for f in vocab:
        hints = [h for (_, h) in f["params"]]
        rights = [right_value(h) for h in hints]
        recv = right_value(f["recv"]) if f["kind"] == "method" else None
        nm = fname(f)
        kind = "builtin-method" if f["kind"] == "method" else "builtin-fun"
        for i, h in enumerate(hints):
            head = c_vocab.hint_head(h)
            for tag, w in POOL:
                if not is_generic(h) and tag == head:
                    continue
                if is_generic(h) and tag != "Unit":
                    continue  # any value is right-typed; keep one to see "no error"
                args = list(rights)
                args[i] = w
                out.append({"cls": kind, "name": "%s#arg%d:%s" % (nm, i, tag), "src": call_src(f, recv, args), "stmt": False})
        if f["kind"] == "method":
            rhead = c_vocab.hint_head(f["recv"])
            for tag, w in POOL:
                if tag == rhead:
                    continue
                rv = w if w[0] not in "-f" else "(%s)" % w
                out.append({"cls": kind, "name": "%s#recv:%s" % (nm, tag), "src": call_src(f, rv, rights), "stmt": False})
        if hints:
            out.append({"cls": kind, "name": "%s#arity-1" % nm, "src": call_src(f, recv, rights[:-1]), "stmt": False})
        if len(hints) >= 2:
            out.append({"cls": kind, "name": "%s#arity0" % nm, "src": call_src(f, recv, []), "stmt": False})
        out.append({"cls": kind, "name": "%s#arity+1" % nm, "src": call_src(f, recv, rights + ["1"]), "stmt": False})
        out.append({"cls": kind, "name": "%s#arity+2" % nm, "src": call_src(f, recv, rights + ['"x"', "[1]"]), "stmt": False})
    return out


def value_error_sites():
    """Well-typed calls that the documentation says raise."""
    S = [
        ("builtin-fun", "throw#value", 'throw("boom")'),
        ("builtin-fun", "todo#value", "todo()"),
        ("builtin-method", "Option::or_throw#value", "None.or_throw()"),
        ("builtin-method", "Result::or_throw#value", 'Err("bad").or_throw()'),
        ("builtin-method", "String::substring#value", '"abc".substring(2, 1)'),
        ("builtin-method", "String::substring#value-neg", '"abc".substring(-1, 1)'),
        ("builtin-method", "String::substring#value-big", '"abc".substring(0, 10)'),
        ("builtin-method", "List::slice#value", "[1, 2].slice(2, 1)"),
        ("builtin-fun", "range#value", "range(3, 1)"),
        ("operator", "/#zero", "1 / 0"),
        ("operator", "%#zero", "1 % 0"),
        ("operator", "**#neg", "2 ** -1"),
        ("operator", "**#overflow", "2 ** 64"),
    ]
    return [{"cls": c, "name": n, "src": s, "stmt": False} for c, n, s in S]


def operator_sites():
    out = []
    groups = [(INT_OPS, "Int", "2"), (FLOAT_OPS, "Float", "2.5"), (BOOL_OPS, "Bool", "True"), (STR_OPS, "String", '"ab"')]
    for ops, want, right in groups:
        for op in ops:
            for tag, w in POOL:
                if tag == want:
                    continue
                wv = "(%s)" % w if w[0] in "-f" else w
                out.append({"cls": "operator", "name": "%s#lhs:%s" % (op, tag), "src": "%s %s %s" % (wv, op, right), "stmt": False})
                out.append({"cls": "operator", "name": "%s#rhs:%s" % (op, tag), "src": "%s %s %s" % (right, op, wv), "stmt": False})
            out.append({"cls": "operator", "name": "%s#both" % op, "src": "Unit %s None" % op, "stmt": False})
    return out


def language_sites():
    E = [  # expression sites
        ("user-fun", "arity-1", "verif_id()"),
        ("user-fun", "arity+1", "verif_id(1, 2)"),
        ("user-fun", "arity+1-two", "verif_two(1, 2, 3)"),
        ("user-fun", "arity-1-two", "verif_two(1)"),
        ("user-fun", "param-hint", 'verif_int("s")'),
        ("user-fun", "param-hint-2nd", 'verif_str2("a", 1)'),
        ("user-fun", "param-hint-1st", 'verif_str2(1, "a")'),
        ("user-fun", "param-hint-both", "verif_str2(1, 2)"),
        ("user-fun", "param-hint-generic", 'verif_generic(1, "s")'),
        ("user-fun", "return-hint", "verif_badret()"),
        ("user-fun", "return-hint-unbound", "verif_unboundret()"),
        ("user-fun", "param-hint-unbound", "verif_unboundparam(1)"),
        ("closure", "arity-1", "verif_call0(fun(va) { va })"),
        ("closure", "arity+1", "verif_id(fun() { 1 })(1)"),
        ("closure", "param-hint", 'verif_id(fun(va: Int) { va })("s")'),
        ("closure", "return-hint", 'verif_call0(fun(): Int { "s" })'),
        ("user-method", "arity-1", 'VPoint{ x: 1, y: "a" }.verif_m()'),
        ("user-method", "arity+1", 'VPoint{ x: 1, y: "a" }.verif_m(1, 2)'),
        ("user-method", "param-hint", 'VPoint{ x: 1, y: "a" }.verif_m("s")'),
        ("user-method", "return-hint", "1.verif_mbad()"),
        ("user-method", "no-such-method", 'VPoint{ x: 1, y: "a" }.verif_nosuch(1)'),
        ("user-method", "no-such-method-int", "1.verif_nosuch()"),
        ("user-method", "no-such-method-args", '"s".verif_nosuch(1, "a", [2])'),
        ("user-method", "no-methods-on-type", "verif_id.verif_nosuch(1)"),
        ("user-method", "wrong-receiver", '"s".verif_m0()'),
        ("call", "non-function-int", "1(2)"),
        ("call", "non-function-str-args", '"s"(1, [2])'),
        ("call", "non-function-noargs", "None()"),
        ("call", "enum-constructor-arity-1", "VGreen()"),
        ("call", "enum-constructor-arity+1", "VGreen(1, 2)"),
        ("call", "some-arity-1", "Some()"),
        ("call", "variant-not-callable", "VRed(1)"),
        ("variable", "unbound", "verif_nosuchvar"),
        ("if", "cond-int", "if 1 { 2 } else { 3 }"),
        ("if", "cond-str-noelse", 'if "s" { 1 }'),
        ("match", "fall-through", "match VRed { VGreen(vn) => vn }"),
        ("match", "fall-through-option", "match Some(1) { None => 2 }"),
        ("match", "non-enum", "match 1 { Some(vn) => vn }"),
        ("struct-literal", "no-such-struct", "VNoSuch{ x: 1 }"),
        ("struct-literal", "missing-field", "VPoint{ x: 1 }"),
        ("struct-literal", "wrong-field-type", 'VPoint{ x: "s", y: "a" }'),
        ("struct-literal", "wrong-field-type-2nd", "VPoint{ x: 1, y: 2 }"),
        ("struct-literal", "extra-field", 'VPoint{ x: 1, y: "a", z: 2 }'),
        ("struct-literal", "not-a-struct", "VColor{ x: 1 }"),
        ("struct-literal", "malformed-path", "Path{ p: 1 }"),
        ("dot", "non-struct", "1.x"),
        ("dot", "no-such-field", 'VPoint{ x: 1, y: "a" }.zz'),
        ("namespace", "no-such-name", "fs::verif_nosuch"),
        ("namespace", "non-namespace", "verif_id::foo"),
        ("dict-literal", "key-int", "Dict[1 => 2]"),
        ("dict-literal", "key-int-2nd", 'Dict["a" => 1, 2 => 3]'),
        ("assert", "false", "assert(False)"),
        ("assert", "eq", "assert(1 == 2)"),
        ("assert", "lt", "assert(3 < 2)"),
        ("assert", "non-bool", "assert(1)"),
        ("assert", "list-eq", "assert([1] == [2])"),
        ("assert", "call", "assert(not(True))"),
        ("throw", "string", 'throw("x" ^ "y")'),
        ("throw", "non-string", "throw(1)"),
    ]
    S = [  # statement sites
        ("let", "hint-mismatch", 'let vh: Int = "s"'),
        ("let", "hint-mismatch-list", "let vh: List<Int> = 1"),
        ("let", "hint-unbound", "let vh: VNoSuchTy = 1"),
        ("let", "destructure-non-tuple", "let (va, vb) = 1"),
        ("let", "destructure-arity", "let (va, vb) = (1, 2, 3)"),
        ("assign", "unbound", "verif_nosuchvar = 1"),
        ("assign-update", "unbound", "verif_nosuchvar += 1"),
        ("assign-update", "non-int-var", 'let vq = "s" vq += 1'),
        ("assign-update", "non-int-rhs", 'let vq = 1 vq += "s"'),
        ("assign-update", "non-int-rhs-sub", "let vq = 1 vq -= [2]"),
        ("for", "non-list", "for vx in 1 { vx }"),
        ("for", "non-list-str", 'for vx in "abc" { vx }'),
        ("for", "destructure-non-tuple", "for (va, vb) in [1] { va }"),
        ("for", "destructure-arity", "for (va, vb) in [(1, 2, 3)] { va }"),
        ("for", "destructure-arity-2nd", "for (va, vb) in [(1, 2), (1, 2, 3)] { va }"),
        ("while", "cond-int", "while 1 { 2 }"),
        ("while", "cond-later", "let vw = 0 while (if vw < 2 { True } else { 3 }) { vw += 1 }"),
        ("return", "toplevel-error", "return verif_nosuchvar"),
    ]
    out = [{"cls": c, "name": n, "src": s, "stmt": False} for c, n, s in E]
    out += [{"cls": c, "name": n, "src": s, "stmt": True} for c, n, s in S]
    return out


# ------------------------------------------------------------------ contexts

EXPR_CONTEXTS = ["bare", "plus-right", "plus-left", "list", "call-arg-last", "call-arg-first", "method-arg",
                 "let-init", "fun-depth2", "for-loop", "while-loop", "if-branch", "match-arm", "closure",
                 "method-body", "block", "test-body", "string-arg"]
STMT_CONTEXTS = ["bare", "fun-depth2-stmt", "for-loop", "while-loop", "if-branch", "closure", "block", "method-body",
                 "test-body"]


def embed(site, ctx, n):
    """-> (setup requests, run request source). `n` makes per-case definition names unique."""
    e = site["src"]
    pe = "(%s)" % e
    if ctx == "bare":
        return [], e
    if ctx == "plus-right":
        return [], "7 + %s" % pe
    if ctx == "plus-left":
        return [], "%s + 7" % pe
    if ctx == "list":
        return [], "[7, %s, 8]" % e
    if ctx == "call-arg-last":
        return [], "verif_two(7, %s)" % e
    if ctx == "call-arg-first":
        return [], "verif_two(%s, 7)" % e
    if ctx == "method-arg":
        return [], "[7].append(%s)" % e
    if ctx == "string-arg":
        return [], '"a".replace("b", %s)' % e
    if ctx == "let-init":
        return [], "let vli%d = %s" % (n, e)
    if ctx == "fun-depth2":
        return (["fun vfa%d(vpa) { let vl = 5 let vr = %s vr }" % (n, e),
                 "fun vfb%d() { vfa%d(6) + 1 }" % (n, n)], "vfb%d()" % n)
    if ctx == "fun-depth2-stmt":
        return (["fun vfa%d(vpa) { let vl = 5 %s vl }" % (n, e),
                 "fun vfb%d() { let vo = vfa%d(6) vo }" % (n, n)], "vfb%d()" % n)
    if ctx == "for-loop":
        return [], "for vi in [1, 2] { let vk = vi %s }" % e
    if ctx == "while-loop":
        return [], "while True { %s break }" % e
    if ctx == "if-branch":
        return [], "if True { let vt = 1 %s } else { 0 }" % e
    if ctx == "match-arm":
        return [], "match Some(1) { Some(vq) => { %s } None => 0 }" % e
    if ctx == "closure":
        return [], "verif_call0(fun() { let vcl = 2 %s })" % e
    if ctx == "method-body":
        return ["method vm%d(this: Int, vmp) { %s }" % (n, e)], "4.vm%d(5)" % n
    if ctx == "block":
        return [], "{ let vb = 3 %s }" % e
    if ctx == "test-body":
        return [], "test vt%d { let vtl = 1 %s }" % (n, e)
    raise ValueError(ctx)


def contexts_for(site):
    return STMT_CONTEXTS if site["stmt"] else EXPR_CONTEXTS


def all_sites(vocab=None):
    vocab = vocab if vocab is not None else c_vocab.vocabulary()
    return language_sites() + value_error_sites() + operator_sites() + builtin_sites(vocab)


def core_sites(vocab=None):
    """A small, always-run subset: every language site, every value error, and per built-in / operator one
    wrong-typed value per position plus arity +-1."""
    vocab = vocab if vocab is not None else c_vocab.vocabulary()
    out = language_sites() + value_error_sites()
    seen = set()
    for s in operator_sites() + builtin_sites(vocab):
        k = s["name"].rsplit(":", 1)[0] if "#arg" in s["name"] or "#lhs" in s["name"] or "#rhs" in s["name"] or "#recv" in s["name"] else s["name"]
        if k in seen:
            continue
        seen.add(k)
        out.append(s)
    return out


def stream(seed, vocab=None):
    """Endless seeded stream of (site, ctx)."""
    rng = random.Random(seed * 104729 + 7)
    sites = all_sites(vocab)
    while True:
        s = rng.choice(sites)
        yield s, rng.choice(contexts_for(s))
