"""Grammar-directed syntax-tree generator, token-stream printer and layout engine (group J: C03/C33/C17).

Trees are built directly in the format of the hook's AST dump (DESIGN Appendix A) without `pos`
and `used`, so that `normalize(dump) == tree` is the whole comparison. The expected tree always
comes from the generator, never from parsing.

Printing is two-stage:
  1. `Printer` turns a tree into a token stream. Every token carries the constraint on the gap in
     front of it (what the *grammar* requires) and a canonical separator (what a tidy writer uses):
        G  glue      - must touch the previous token (`f(`, `x.y`, `a::b`, `Name{`)
        L  same line - whitespace without a newline (the value of `return`)
        N  newline   - at least one newline (the token after a bare `return`)
        A  any       - any whitespace, newlines and comments; may be empty when `can_zero` says the
                       two lexemes cannot merge
  2. `render_canonical` / `render_perturbed` turn a token stream into text.  The same engine
     re-renders token streams lexed from repository files (`tokens_from_lex`).

Genuine ambiguities that garden resolves by layout are respected by construction, not flagged:
struct literal needs `Name{` touching; a call needs `f(` touching; `.`/`::` touch their symbol; the
value of `return` starts on the line of `return`; binary operators are always spaced (`a -1` is two
expressions because `-1` is one lexeme); keywords are never used as names; a lambda cannot start a
top-level expression (`fun` at top level starts a definition).
"""
import random
import struct

KEYWORDS = {"let", "fun", "enum", "struct", "import", "if", "else", "while", "return", "test", "match",
            "break", "continue", "for", "in", "assert", "as", "method", "public", "shared", "try", "catch"}
RESERVED = KEYWORDS | {"Dict", "Tuple", "__placeholder", "__keyword_placeholder", "external"}

# (source text, name in the dump). 21 binary operators.
OPS = [("+", "Add"), ("+.", "AddFloat"), ("-", "Subtract"), ("-.", "SubtractFloat"), ("*", "Multiply"),
       ("*.", "MultiplyFloat"), ("/", "Divide"), ("/.", "DivideFloat"), ("%", "Modulo"), ("**", "Exponent"),
       ("==", "Equal"), ("!=", "NotEqual"), ("&&", "And"), ("||", "Or"), ("&", "BitwiseAnd"),
       ("|", "BitwiseOr"), ("<", "LessThan"), ("<=", "LessThanOrEqual"), (">", "GreaterThan"),
       (">=", "GreaterThanOrEqual"), ("^", "StringConcat")]
OP_NAME = dict(OPS)
OP_SRC = {v: k for k, v in OPS}

# Set by the owner of the C12 lexer defect once it is fixed: string contents ending in a backslash.
JTREE_TRAILING_BACKSLASH = True


# --------------------------------------------------------------------------- tree constructors

def sym(n):
    return {"k": "sym", "name": n}


def tsym(n):
    return {"k": "tsym", "name": n}


def hint(name, args=()):
    return {"k": "hint", "sym": tsym(name), "args": list(args)}


def block(exprs=()):
    return {"k": "block", "exprs": list(exprs)}


def var(n):
    return {"k": "var", "sym": sym(n)}


def intlit(v):
    return {"k": "int", "v": str(v)}


def strlit(s):
    return {"k": "str", "v": s}


def floatlit(text):
    """text is the literal's source; the tree holds the bit pattern of the nearest double."""
    return {"k": "float", "bits": "%016x" % struct.unpack("<Q", struct.pack("<d", float(text)))[0], "_src": text}


def binop(op_src, l, r):
    return {"k": "binop", "op": OP_NAME[op_src], "lhs": l, "rhs": r}


def paren(e):
    return {"k": "paren", "expr": e}


def normalize(x, erase_paren=False):
    """Erase positions, `used` and private `_*` keys from a dump or generated tree."""
    if isinstance(x, list):
        return [normalize(i, erase_paren) for i in x]
    if isinstance(x, dict):
        if erase_paren and x.get("k") == "paren":
            return normalize(x["expr"], erase_paren)
        return {k: normalize(v, erase_paren) for k, v in x.items()
                if k not in ("pos", "used", "open", "close", "op_pos", "path_pos") and not k.startswith("_")}
    return x


def first_diff(a, b, path="$"):
    """Shortest description of where two normalized trees differ (for the violation detail)."""
    if type(a) != type(b):
        return "%s: %s vs %s" % (path, _brief(a), _brief(b))
    if isinstance(a, dict):
        if a.get("k") != b.get("k"):
            return "%s: kind %s vs %s" % (path, a.get("k"), b.get("k"))
        for k in sorted(set(a) | set(b)):
            if k not in a or k not in b:
                return "%s.%s: missing on one side" % (path, k)
            d = first_diff(a[k], b[k], "%s.%s" % (path, k))
            if d:
                return d
        return None
    if isinstance(a, list):
        if len(a) != len(b):
            return "%s: %d vs %d elements" % (path, len(a), len(b))
        for i, (x, y) in enumerate(zip(a, b)):
            d = first_diff(x, y, "%s[%d]" % (path, i))
            if d:
                return d
        return None
    if a != b:
        return "%s: %r vs %r" % (path, a, b)
    return None


def diff_class(a, b):
    """Stable class of the first difference: json-path with indices removed + the kinds involved."""
    d = first_diff(a, b)
    if d is None:
        return None
    import re
    p = d.split(":", 1)[0]
    p = re.sub(r"\[\d+\]", "[]", p)
    parts = p.split(".")
    return ".".join(parts[-3:])


def _brief(x):
    if isinstance(x, dict):
        return "{%s}" % x.get("k", "?")
    if isinstance(x, list):
        return "[%d]" % len(x)
    return repr(x)


# --------------------------------------------------------------------------- names and literals

VAR_NAMES = ["x", "y", "z", "i", "n", "acc", "item", "foo", "bar", "baz", "value", "xs", "res", "tmp", "a1", "b_2",
             "_x", "self_", "iffy", "lets", "returned", "format", "matcher", "forx", "in_", "Some_", "testing",
             "funky", "publicity", "as_", "elsewhere", "breaker", "tryit", "catcher", "imported", "q", "w", "None",
             "True", "False", "Some", "Ok", "Err", "Unit", "this"]
TYPE_NAMES = ["Int", "String", "Bool", "List", "Option", "Result", "Unit", "Float", "Foo", "Bar", "Point", "Tree",
              "T", "U", "E", "Node_1", "NoValue", "Path", "Any", "Fun", "myType", "t"]
VARIANT_NAMES = ["Some", "None", "Ok", "Err", "Red", "Green", "Leaf", "Node", "A", "B", "C_1", "True", "False"]
FIELD_NAMES = ["x", "y", "name", "age", "left", "right", "value", "f1", "_f", "kind"]
METHOD_NAMES = ["len", "get", "map", "push", "foo", "bar", "to_string", "or_else", "x", "first", "is_empty"]
FUN_NAMES = ["main", "helper", "f", "g", "compute_total", "do_it", "fib", "h_2", "Make", "run_all"]

STR_ALPHABET = ["a", "b", "z", "A", "0", "9", " ", " ", "  ", "\n", "\n", "\t", "\"", "\\", "\\n", "//", "/", "{", "}",
                "(", ")", "'", "é", "ß", "中", "\U0001F600", "́", " ", " ", "\r", "#", "$",
                "%", ":", ",", ".", "=>", "=", "let", "if x {", "\\\"", "\"\"", "    ", "\n  ", "\n\n", "é"]
DOC_ALPHABET = ["a", "doc", " ", "comment", "/", "x = 1", "{", "\"", "é", "中", "TODO:", "`code`", "*", "  ",
                "fun", "\\", "."]


def rand_name(rng, pool):
    n = rng.choice(pool)
    if rng.random() < 0.15:
        n = n + rng.choice(["1", "_", "2b", "X", "_y"])
    if n in RESERVED:
        n = n + "_"
    return n


def rand_string(rng, maxlen=8):
    k = rng.random()
    if k < 0.15:
        s = ""
    elif k < 0.5:
        s = "".join(rng.choice("abcxyz ") for _ in range(rng.randint(1, 6)))
    else:
        s = "".join(rng.choice(STR_ALPHABET) for _ in range(rng.randint(1, maxlen)))
    if not JTREE_TRAILING_BACKSLASH:
        while s.endswith("\\"):
            s = s[:-1]
    return s


def rand_int(rng):
    k = rng.random()
    if k < 0.6:
        return rng.randint(0, 12)
    if k < 0.8:
        return rng.randint(-20, 1000)
    if k < 0.9:
        return rng.choice([-(1 << 63), (1 << 63) - 1, -1, 0, 1 << 32, -(1 << 31)])
    return rng.randint(-(1 << 63), (1 << 63) - 1)


def rand_float_text(rng):
    k = rng.random()
    if k < 0.5:
        return "%d.%d" % (rng.randint(0, 20), rng.randint(0, 99))
    if k < 0.7:
        return "-%d.%d" % (rng.randint(0, 20), rng.randint(0, 9))
    if k < 0.8:
        return rng.choice(["0.0", "-0.0", "1.0", "0.1", "0.5", "123456789.125", "0.30000000000000004",
                           "9007199254740993.0", "179769313486231570000000000000000000000.0", "0.000000001"])
    return "%d.%0*d" % (rng.randint(0, 10 ** rng.randint(1, 17)), rng.randint(1, 12), rng.randint(0, 999))


def rand_doc(rng):
    """-> list of comment lines (without the `// ` prefix), or None."""
    if rng.random() < 0.7:
        return None
    lines = []
    for _ in range(rng.randint(1, 3)):
        lines.append("".join(rng.choice(DOC_ALPHABET) for _ in range(rng.randint(0, 5))).rstrip("\n"))
    return lines


def doc_value(lines):
    """What the parser documents as the doc comment: the comment lines joined with newlines."""
    if lines is None:
        return None
    return "\n".join(lines)


# --------------------------------------------------------------------------- generator

OPERAND_KINDS = ["int", "int", "var", "var", "var", "str", "float", "call", "call", "mcall", "dot", "ns", "paren",
                 "list", "tuple", "struct_lit", "dict", "funlit", "assert", "if", "match"]
VALUE_EXTRA = ["binop", "binop", "binop", "binop"]
STMT_KINDS = ["let", "let", "let", "assign", "assign_update", "if", "if", "while", "for", "match", "return", "break",
              "continue", "try", "call", "mcall", "binop", "var", "assert", "funlit", "int", "str"]


class Gen:
    """Random tree generator. `budget` bounds the number of expression nodes; `maxdepth` the nesting."""

    def __init__(self, rng, maxdepth=6, budget=40, docs=True):
        self.rng = rng
        self.maxdepth = maxdepth
        self.budget = budget
        self.docs = docs
        self.kinds = set()

    # ---- helpers
    def _name(self, pool=VAR_NAMES):
        return rand_name(self.rng, pool)

    def _distinct(self, n, pool=VAR_NAMES, allow_underscore=True):
        out, seen = [], set()
        while len(out) < n:
            x = self._name(pool)
            if allow_underscore and self.rng.random() < 0.1:
                out.append("_")
                continue
            if x in seen:
                x = x + "_%d" % len(out)
            seen.add(x)
            out.append(x)
        return out

    def hint(self, depth=0):
        r = self.rng
        k = r.random()
        if depth >= 2 or k < 0.55:
            return hint(self._name(TYPE_NAMES))
        if k < 0.8:
            return hint(self._name(TYPE_NAMES), [self.hint(depth + 1) for _ in range(r.randint(1, 3))])
        return hint("Tuple", [self.hint(depth + 1) for _ in range(r.choice([0, 1, 2, 2, 3]))])

    def hint_opt(self, p=0.5):
        return self.hint() if self.rng.random() < p else None

    def dest(self):
        r = self.rng
        if r.random() < 0.7:
            return sym(self._name())
        return {"k": "destructure", "syms": [sym(n) for n in self._distinct(r.choice([1, 2, 2, 3]))]}

    def block(self, depth, n=None):
        r = self.rng
        if n is None:
            n = r.choice([0, 1, 1, 2, 2, 3]) if depth < self.maxdepth else r.choice([0, 1])
        return block([self.stmt(depth + 1) for _ in range(n)])

    def fun_info(self, depth, name=None, doc=None, lambda_=False, skip_first_param=False):
        r = self.rng
        names = self._distinct(r.choice([0, 1, 1, 2, 3]))
        params = [{"sym": sym(n), "hint": self.hint_opt(0.6)} for n in names]
        tps = [] if lambda_ or r.random() < 0.7 else [tsym(n) for n in self._distinct(r.randint(1, 2), ["T", "U", "E", "K", "V"], False)]
        return {"k": "funinfo", "doc": doc_value(doc), "_doc": doc, "name": sym(name) if name else None,
                "type_params": tps, "params": params, "ret": self.hint_opt(0.5), "body": self.block(depth)}

    # ---- expressions
    def _take(self):
        self.budget -= 1

    def leaf(self):
        r = self.rng
        self._take()
        k = r.random()
        if k < 0.4:
            self.kinds.add("var")
            return var(self._name())
        if k < 0.7:
            self.kinds.add("int")
            return intlit(rand_int(r))
        if k < 0.9:
            self.kinds.add("str")
            return strlit(rand_string(r))
        self.kinds.add("float")
        return floatlit(rand_float_text(r))

    def operand(self, depth, allow_binop=False):
        """An expression that can stand as an operand of a binary operator or as a receiver."""
        r = self.rng
        if depth >= self.maxdepth or self.budget <= 0:
            return self.leaf()
        kinds = OPERAND_KINDS + (VALUE_EXTRA if allow_binop else [])
        return self.make(r.choice(kinds), depth)

    def value(self, depth):
        """An expression in a delimited position (argument, initialiser, condition, ...)."""
        r = self.rng
        if depth >= self.maxdepth or self.budget <= 0:
            return self.leaf()
        if r.random() < 0.05:
            return self.make(r.choice(["let", "assign", "assign_update", "return", "break", "continue", "while", "for", "try"]), depth)
        return self.operand(depth, allow_binop=True)

    def stmt(self, depth):
        r = self.rng
        if depth >= self.maxdepth + 1 or self.budget <= 0:
            return self.leaf()
        return self.make(r.choice(STMT_KINDS), depth)

    def args(self, depth):
        r = self.rng
        return [self.value(depth + 1) for _ in range(r.choice([0, 1, 1, 2, 3]))]

    def chain(self, depth):
        """A left-leaning operator chain with optional parenthesised sub-chains on either side."""
        r = self.rng
        n = r.choice([2, 2, 2, 3, 3, 4, 5, 6])
        e = self.operand(depth + 1)
        for _ in range(n - 1):
            rhs = self.operand(depth + 1)
            e = binop(r.choice(OPS)[0], e, rhs)
            self._take()
            if r.random() < 0.1:
                e = paren(e)
        return e

    def make(self, kind, depth):
        r = self.rng
        self._take()
        self.kinds.add(kind)
        d = depth + 1
        if kind == "int":
            return intlit(rand_int(r))
        if kind == "float":
            return floatlit(rand_float_text(r))
        if kind == "str":
            return strlit(rand_string(r, 12))
        if kind == "var":
            return var(self._name())
        if kind == "binop":
            return self.chain(depth)
        if kind == "paren":
            return paren(self.value(d))
        if kind == "list":
            return {"k": "list", "items": [self.value(d) for _ in range(r.choice([0, 1, 2, 3]))]}
        if kind == "tuple":
            return {"k": "tuple", "items": [self.value(d) for _ in range(r.choice([0, 1, 2, 2, 3]))]}
        if kind == "dict":
            return {"k": "dict", "items": [[self.value(d), self.value(d)] for _ in range(r.choice([0, 1, 2]))]}
        if kind == "struct_lit":
            return {"k": "struct_lit", "type": tsym(self._name(TYPE_NAMES)),
                    "fields": [[sym(self._name(FIELD_NAMES)), self.value(d)] for _ in range(r.choice([0, 1, 2, 3]))]}
        if kind == "call":
            return {"k": "call", "fun": self.receiver(d, ["var", "var", "var", "ns", "call", "paren", "mcall", "funlit"]),
                    "args": self.args(depth)}
        if kind == "mcall":
            return {"k": "mcall", "recv": self.receiver(d), "sym": sym(self._name(METHOD_NAMES)), "args": self.args(depth)}
        if kind == "dot":
            return {"k": "dot", "recv": self.receiver(d), "sym": sym(self._name(FIELD_NAMES))}
        if kind == "ns":
            return {"k": "ns", "recv": self.receiver(d, ["var", "var", "var", "ns"]), "sym": sym(self._name(FUN_NAMES + VARIANT_NAMES))}
        if kind == "funlit":
            return {"k": "funlit", "fun": self.fun_info(d, lambda_=True)}
        if kind == "assert":
            return {"k": "assert", "value": self.value(d)}
        if kind == "if":
            return self.if_(depth)
        if kind == "while":
            return {"k": "while", "cond": self.value(d), "body": self.block(d)}
        if kind == "for":
            return {"k": "for", "dest": self.dest(), "iter": self.value(d), "body": self.block(d)}
        if kind == "try":
            return {"k": "try", "body": self.block(d), "sym": sym(self._name()), "catch": self.block(d)}
        if kind == "break":
            return {"k": "break"}
        if kind == "continue":
            return {"k": "continue"}
        if kind == "match":
            cases = []
            for _ in range(r.choice([0, 1, 2, 2, 3])):
                payload = None if r.random() < 0.4 else self.dest()
                cases.append({"variant": sym(self._name(VARIANT_NAMES)), "payload": payload,
                              "body": self.block(d, r.choice([0, 1, 1, 1, 2]))})
            return {"k": "match", "scrutinee": self.value(d), "cases": cases}
        if kind == "let":
            return {"k": "let", "dest": self.dest(), "hint": self.hint_opt(0.3), "value": self.value(d)}
        if kind == "assign":
            return {"k": "assign", "sym": sym(self._name()), "value": self.value(d)}
        if kind == "assign_update":
            return {"k": "assign_update", "sym": sym(self._name()), "op": r.choice(["+=", "-="]), "value": self.value(d)}
        if kind == "return":
            return {"k": "return", "value": None if r.random() < 0.3 else self.value(d)}
        raise ValueError(kind)

    def receiver(self, depth, kinds=None):
        r = self.rng
        if depth >= self.maxdepth or self.budget <= 0:
            self._take()
            return var(self._name())
        kinds = kinds or ["var", "var", "var", "call", "mcall", "dot", "ns", "paren", "str", "int", "float", "list",
                          "tuple", "struct_lit", "dict", "funlit", "assert", "if", "match"]
        return self.make(r.choice(kinds), depth)

    def if_(self, depth):
        r = self.rng
        d = depth + 1
        k = r.random()
        if k < 0.4:
            els = None
        elif k < 0.7 or depth + 1 >= self.maxdepth:
            els = self.block(d)
        else:
            self._take()
            els = block([self.if_(depth + 1)])
            els["_elseif"] = True
        return {"k": "if", "cond": self.value(d), "then": self.block(d), "else": els}

    # ---- items
    def item(self, kind=None):
        r = self.rng
        kind = kind or r.choice(["fun", "fun", "fun", "method", "test", "enum", "struct", "import", "expr", "expr", "expr", "block"])
        self.kinds.add("item:" + kind)
        doc = rand_doc(r) if self.docs else None
        if kind == "fun":
            name = self._name(FUN_NAMES)
            return {"k": "fun", "sym": sym(name), "public": r.random() < 0.3, "fun": self.fun_info(0, name=name, doc=doc)}
        if kind == "method":
            name = self._name(METHOD_NAMES)
            fi = self.fun_info(0, name=name, doc=doc)
            recv = self._name(["this", "self_", "me", "it"])
            fi["params"] = [p for p in fi["params"] if p["sym"]["name"] != recv]
            return {"k": "method", "public": r.random() < 0.3, "recv_hint": self.hint(1), "recv_sym": sym(recv),
                    "sym": sym(name), "fun": fi}
        if kind == "test":
            return {"k": "test", "doc": doc_value(doc), "_doc": doc, "sym": sym(self._name(FUN_NAMES)), "body": self.block(0)}
        if kind == "enum":
            vs = [{"sym": sym(n), "payload": self.hint_opt(0.5)} for n in self._distinct(r.choice([0, 1, 2, 3, 4]), VARIANT_NAMES, False)]
            return {"k": "enum", "public": r.random() < 0.3, "doc": doc_value(doc), "_doc": doc,
                    "sym": tsym(self._name(TYPE_NAMES)), "type_params": self._tps(), "variants": vs}
        if kind == "struct":
            fs = []
            for n in self._distinct(r.choice([0, 1, 2, 3]), FIELD_NAMES, False):
                fd = rand_doc(r) if self.docs and r.random() < 0.5 else None
                fs.append({"sym": sym(n), "hint": self.hint(), "doc": doc_value(fd), "_doc": fd})
            return {"k": "struct", "public": r.random() < 0.3, "doc": doc_value(doc), "_doc": doc,
                    "sym": tsym(self._name(TYPE_NAMES)), "type_params": self._tps(), "fields": fs}
        if kind == "import":
            p = r.choice(["./foo.gdn", "../lib/bar.gdn", "__fs.gdn", "./a b/c.gdn", "./été.gdn", "x"])
            return {"k": "import", "path": p, "as": sym(self._name()) if r.random() < 0.4 else None}
        if kind == "block":
            return self.block(0)
        while True:
            e = self.stmt(0)
            if leftmost_token_kind(e) != "funlit":
                return {"k": "expr", "expr": e}

    def _tps(self):
        r = self.rng
        if r.random() < 0.6:
            return []
        return [tsym(n) for n in self._distinct(r.randint(1, 2), ["T", "U", "E", "K", "V"], False)]

    def program(self, n_items=None):
        r = self.rng
        n = n_items or r.choice([1, 1, 2, 3, 4])
        return [self.item() for _ in range(n)]


def leftmost_token_kind(e):
    """Kind of the node whose first token starts expression e."""
    while True:
        k = e["k"]
        if k == "binop":
            e = e["lhs"]
        elif k == "call":
            e = e["fun"]
        elif k in ("mcall", "dot", "ns"):
            e = e["recv"]
        else:
            return k


# --------------------------------------------------------------------------- printer (tree -> tokens)

G, L, N, A, Z = "G", "L", "N", "A", "Z"


def escape_string(s, rng=None, raw_newlines=0.5):
    """Source text of a string literal with contents s. Newlines and tabs are written raw or escaped."""
    out = ['"']
    for ch in s:
        if ch == "\\":
            out.append("\\\\")
        elif ch == '"':
            out.append('\\"')
        elif ch == "\n":
            out.append("\n" if rng is not None and rng.random() < raw_newlines else "\\n")
        elif ch == "\t":
            out.append("\t" if rng is not None and rng.random() < raw_newlines else "\\t")
        else:
            out.append(ch)
    out.append('"')
    return "".join(out)


class Printer:
    """tree -> list of tokens [text, gap, canonical separator, comments]. Choices between equivalent
    spellings (else-if vs else { if }, braceless match arms, trailing commas, raw newlines in strings)
    are drawn from `rng`; with rng=None the printer is deterministic and minimal."""

    def __init__(self, rng=None, trailing_commas=0.0, raw_newlines=0.5, braceless=0.5):
        self.rng = rng
        self.toks = []
        self.depth = 0
        self.tc = trailing_commas
        self.raw = raw_newlines
        self.braceless = braceless
        self.pending_gap = None

    def _p(self, p):
        return self.rng is not None and self.rng.random() < p

    # emit helpers: sep is the canonical separator
    def t(self, text, gap=A, sep=" "):
        if self.pending_gap is not None:
            gap, sep = self.pending_gap
            self.pending_gap = None
        self.toks.append([text, gap, sep, None])

    def glue(self, text):
        self.t(text, G, "")

    def tight(self, text):
        """Token that canonical style writes without a space but that does not have to touch."""
        self.t(text, A, "")

    def loose(self, text):
        """Token usually written touching the previous one although the grammar does not care
        (`fun f(`, `assert(`, `Dict[`, `Some(x)` in patterns, `List<`)."""
        self.t(text, Z, "")

    def nl(self, text):
        self.t(text, A, "\n" + "  " * self.depth)

    def doc(self, lines):
        """Attach doc comment lines to the next token."""
        self._doc = lines

    def comments_for_next(self, lines):
        if lines:
            self._pending_comments = ["// " + l for l in lines]

    # ---- pieces
    def sym(self, s, **kw):
        self.t(s["name"], **kw)

    def hint(self, h, first=True, sep=" "):
        name = h["sym"]["name"]
        if name == "Tuple":
            self.t("(", sep=sep)
            self._commas(h["args"], lambda a, i: self.hint(a, sep="" if i == 0 else " "), ")")
            return
        self.t(name, sep=sep)
        if h["args"]:
            self.loose("<")
            self._commas(h["args"], lambda a, i: self.hint(a, sep="" if i == 0 else " "), ">")

    def _commas(self, xs, f, close, force_trailing=False, close_sep=""):
        for i, x in enumerate(xs):
            f(x, i)
            if i < len(xs) - 1:
                self.tight(",")
        if xs and (force_trailing or self._p(self.tc)):
            self.tight(",")
        self.tight(close) if close_sep == "" else self.t(close, sep=close_sep)

    def dest(self, d, sep=" "):
        if d["k"] == "sym":
            self.t(d["name"], sep=sep)
        else:
            self.t("(", sep=sep)
            self._commas(d["syms"], lambda s, i: self.t(s["name"], sep="" if i == 0 else " "), ")")

    def block(self, b, sep=" "):
        self.t("{", sep=sep)
        if not b["exprs"]:
            self.tight("}")
            return
        self.depth += 1
        for e in b["exprs"]:
            self.expr(e, stmt=True)
        self.depth -= 1
        self.nl("}")

    def doc_comments(self, lines):
        return ["// " + l for l in lines] if lines else None

    def fun_sig(self, fi, first_param=None):
        if fi["type_params"]:
            self.loose("<")
            self._commas(fi["type_params"], lambda s, i: self.t(s["name"], sep="" if i == 0 else " "), ">")
        self.loose("(")
        params = ([first_param] if first_param else []) + fi["params"]

        def one(p, i):
            self.t(p["sym"]["name"], sep="" if i == 0 else " ")
            if p["hint"] is not None:
                self.tight(":")
                self.hint(p["hint"])
        self._commas(params, one, ")")
        if fi["ret"] is not None:
            self.tight(":")
            self.hint(fi["ret"])
        self.block(fi["body"])

    def with_doc(self, lines, start_index):
        if lines:
            cms = self.doc_comments(lines)
            if self._p(0.3):
                # a free-standing comment block, separated from the doc comment by a blank line,
                # is not part of the documentation
                cms = ["// " + w for w in ["Section.", "not documentation"][:1 + (len(lines) % 2)]] + [""] + cms
            self.toks[start_index][3] = cms

    def item(self, it, first=False):
        k = it["k"]
        start = len(self.toks)
        sep = "" if first else "\n\n"
        if k == "expr":
            self.pending_gap = (A, "" if first else "\n")
            self.expr(it["expr"], stmt=False)
            return
        if k == "block":
            self.block(it, sep="" if first else "\n")
            return
        if k == "import":
            self.t("import", sep="" if first else "\n")
            self.t(escape_string(it["path"]))
            if it["as"] is not None:
                self.t("as")
                self.sym(it["as"])
            return
        if it.get("public"):
            self.t("public", sep=sep)
            sep = " "
        if k == "fun":
            self.t("fun", sep=sep)
            self.sym(it["sym"])
            self.fun_sig(it["fun"])
            self.with_doc(it["fun"].get("_doc"), start)
        elif k == "method":
            self.t("method", sep=sep)
            self.sym(it["sym"])
            self.fun_sig(it["fun"], {"sym": it["recv_sym"], "hint": it["recv_hint"]})
            self.with_doc(it["fun"].get("_doc"), start)
        elif k == "test":
            self.t("test", sep=sep)
            self.sym(it["sym"])
            self.block(it["body"])
            self.with_doc(it.get("_doc"), start)
        elif k == "enum":
            self.t("enum", sep=sep)
            self.t(it["sym"]["name"])
            self._tparams(it["type_params"])
            self.t("{")
            self.depth += 1
            for i, v in enumerate(it["variants"]):
                self.nl(v["sym"]["name"])
                if v["payload"] is not None:
                    self.loose("(")
                    self.hint(v["payload"], sep="")
                    self.tight(")")
                if i < len(it["variants"]) - 1 or not self._p(0.3):
                    self.tight(",")
            self.depth -= 1
            self.nl("}") if it["variants"] else self.tight("}")
            self.with_doc(it.get("_doc"), start)
        elif k == "struct":
            self.t("struct", sep=sep)
            self.t(it["sym"]["name"])
            self._tparams(it["type_params"])
            self.t("{")
            self.depth += 1
            for i, f in enumerate(it["fields"]):
                j = len(self.toks)
                self.nl(f["sym"]["name"])
                self.with_doc(f.get("_doc"), j)
                self.tight(":")
                self.hint(f["hint"])
                if i < len(it["fields"]) - 1 or not self._p(0.3):
                    self.tight(",")
            self.depth -= 1
            self.nl("}") if it["fields"] else self.tight("}")
            self.with_doc(it.get("_doc"), start)
        else:
            raise ValueError(k)

    def _tparams(self, tps):
        if tps:
            self.loose("<")
            self._commas(tps, lambda s, i: self.t(s["name"], sep="" if i == 0 else " "), ">")

    def program(self, items):
        for i, it in enumerate(items):
            self.item(it, first=(i == 0))
        return self.toks

    # ---- expressions
    def expr(self, e, stmt=False, sep=" "):
        """Emit e. If stmt, the first token goes on its own line."""
        if stmt:
            self.pending_gap = (A, "\n" + "  " * self.depth)
        elif self.pending_gap is None and sep != " ":
            self.pending_gap = (A, sep)
        k = e["k"]
        if k == "int":
            self.t(e["v"])
        elif k == "float":
            self.t(e["_src"])
        elif k == "str":
            self.t(escape_string(e["v"], self.rng, self.raw))
        elif k == "var":
            self.t(e["sym"]["name"])
        elif k == "paren":
            self.t("(")
            self.expr(e["expr"], sep="")
            self.tight(")")
        elif k == "binop":
            self.expr(e["lhs"])
            # `a - 1`: can_zero keeps an operator apart from a following digit (`-1` is one lexeme)
            self.t(OP_SRC[e["op"]])
            self.expr(e["rhs"])
        elif k == "list":
            self.t("[")
            self._commas(e["items"], lambda x, i: self.expr(x, sep="" if i == 0 else " "), "]")
        elif k == "tuple":
            self.t("(")
            self._commas(e["items"], lambda x, i: self.expr(x, sep="" if i == 0 else " "), ")",
                         force_trailing=len(e["items"]) == 1)
        elif k == "dict":
            self.t("Dict")
            self.loose("[")

            def kv(p, i):
                self.expr(p[0], sep="" if i == 0 else " ")
                self.t("=>")
                self.expr(p[1])
            self._commas(e["items"], kv, "]")
        elif k == "struct_lit":
            self.t(e["type"]["name"])
            self.glue("{")

            def fld(p, i):
                self.t(p[0]["name"])
                self.tight(":")
                self.expr(p[1])
            self._commas(e["fields"], fld, "}", close_sep=" " if e["fields"] else "")
        elif k == "call":
            self.expr(e["fun"])
            self.glue("(")
            self._commas(e["args"], lambda x, i: self.expr(x, sep="" if i == 0 else " "), ")")
        elif k == "mcall":
            self.expr(e["recv"])
            self.tight(".")
            self.glue(e["sym"]["name"])
            self.glue("(")
            self._commas(e["args"], lambda x, i: self.expr(x, sep="" if i == 0 else " "), ")")
        elif k == "dot":
            self.expr(e["recv"])
            self.tight(".")
            self.glue(e["sym"]["name"])
        elif k == "ns":
            self.expr(e["recv"])
            self.tight("::")
            self.glue(e["sym"]["name"])
        elif k == "funlit":
            self.t("fun")
            fi = e["fun"]
            # a lambda is recognised by `fun` followed by `(`: no type parameters
            self.loose("(")

            def one(p, i):
                self.t(p["sym"]["name"], sep="" if i == 0 else " ")
                if p["hint"] is not None:
                    self.tight(":")
                    self.hint(p["hint"])
            self._commas(fi["params"], one, ")")
            if fi["ret"] is not None:
                self.tight(":")
                self.hint(fi["ret"])
            self.block(fi["body"])
        elif k == "assert":
            self.t("assert")
            self.loose("(")
            self.expr(e["value"], sep="")
            self.tight(")")
        elif k == "if":
            self.if_(e)
        elif k == "while":
            self.t("while")
            self.expr(e["cond"])
            self.block(e["body"])
        elif k == "for":
            self.t("for")
            self.dest(e["dest"])
            self.t("in")
            self.expr(e["iter"])
            self.block(e["body"])
        elif k == "try":
            self.t("try")
            self.block(e["body"])
            self.t("catch")
            self.t("(")
            self.t(e["sym"]["name"], sep="")
            self.tight(")")
            self.block(e["catch"])
        elif k == "break":
            self.t("break")
        elif k == "continue":
            self.t("continue")
        elif k == "match":
            self.t("match")
            self.expr(e["scrutinee"])
            self.t("{")
            self.depth += 1
            for c in e["cases"]:
                self.nl(c["variant"]["name"])
                if c["payload"] is not None:
                    self.loose("(")
                    self.dest(c["payload"], sep="")
                    self.tight(")")
                self.t("=>")
                b = c["body"]
                if len(b["exprs"]) == 1 and self._p(self.braceless):
                    self.expr(b["exprs"][0])
                    self.tight(",")
                else:
                    self.block(b)
                    if self._p(0.3):
                        self.tight(",")
            self.depth -= 1
            self.nl("}") if e["cases"] else self.tight("}")
        elif k == "let":
            self.t("let")
            self.dest(e["dest"])
            if e["hint"] is not None:
                self.tight(":")
                self.hint(e["hint"])
            self.t("=")
            self.expr(e["value"])
        elif k == "assign":
            self.t(e["sym"]["name"])
            self.t("=")
            self.expr(e["value"])
        elif k == "assign_update":
            self.t(e["sym"]["name"])
            self.t(e["op"])
            self.expr(e["value"])
        elif k == "return":
            self.t("return")
            if e["value"] is None:
                # whatever follows a bare `return` must start on a later line (fix_bare_returns)
                self.toks[-1].append("bare_return")
            else:
                self.pending_gap = (L, " ")
                self.expr(e["value"])
        else:
            raise ValueError(k)

    def if_(self, e):
        self.t("if")
        self.expr(e["cond"])
        self.block(e["then"])
        els = e["else"]
        if els is not None:
            self.t("else")
            one_if = len(els["exprs"]) == 1 and els["exprs"][0]["k"] == "if"
            if one_if and (els.get("_elseif") if self.rng is None else self._p(0.7)):
                self.if_(els["exprs"][0])
            else:
                self.block(els)


def fix_bare_returns(toks):
    """The token after a bare `return` must be on a later line unless it is a closing delimiter or a
    comma (which cannot start the returned expression): turn its gap into N."""
    for i, t in enumerate(toks):
        if len(t) > 4 and t[4] == "bare_return":
            if i + 1 < len(toks) and toks[i + 1][0] not in ("}", ")", "]", ","):
                nxt = toks[i + 1]
                nxt[1] = N
                if "\n" not in nxt[2]:
                    nxt[2] = "\n" + nxt[2].lstrip(" ")
    return toks


def print_tokens(items, rng=None, **kw):
    p = Printer(rng, **kw)
    p.program(items)
    return fix_bare_returns(p.toks)


# --------------------------------------------------------------------------- layout engine

WORD = set("abcdefghijklmnopqrstuvwxyzABCDEFGHIJKLMNOPQRSTUVWXYZ0123456789_")
OPCH = set("+-*/%^=<>&|.:!")


def can_zero(prev, nxt):
    """May the lexemes prev and nxt be written with nothing between them without changing the token
    sequence or creating a call / struct literal / member access?"""
    if not prev or not nxt:
        return True
    a, b = prev[-1], nxt[0]
    if prev in (".", "::"):
        return False          # a member name touches its dot: only a G gap may be empty
    if nxt == "(":
        return prev in ("(", "[", "{", ",")      # after a complete expression `(` would make a call
    if nxt == "{":
        return prev == ")"                       # `Name{` is a struct literal
    if a in WORD and b in WORD:
        return False
    if a in OPCH and b in OPCH:
        return False
    if a in OPCH and b in "0123456789":
        return False          # `-1`, `.5`
    if a == '"' or b == '"':
        return a != b and a not in WORD and b not in WORD
    if a == "/" or b == "/":
        return False
    return True


def render_canonical(toks, trailing=None):
    out = []
    for i, t in enumerate(toks):
        text, sep, cm = t[0], t[2], t[3]
        if i == 0:
            sep = ""
        if cm:
            # comments go on their own lines, directly above the token
            if "\n" in sep:
                ind = sep.rsplit("\n", 1)[1]
                out.append(sep)
            else:
                ind = ""
                out.append("\n" if i > 0 else "")
            for c in cm:
                out.append(c + "\n" + ind)
        else:
            out.append(sep)
        out.append(text)
    out.append("\n")
    for c in trailing or []:
        out.append(c + "\n")
    return "".join(out)


PERTURB_DEFAULT = {
    "indent_max": 12, "tabs": 0.15, "blank_runs": 0.2, "newline": 0.12, "join_lines": 0.1, "zero": 0.2,
    "extra_space": 0.25, "comment": 0.06, "crlf": 0.0, "nonascii_comment": 0.3, "comment_blank": 0.15,
}

COMMENT_WORDS = ["note", "TODO", "x = 1", "{", "}", "\"quoted\"", "=", "fun f()", "été", "中文", "\U0001F600",
                 "//", "/", "a = b", ")", "(", "let", "  spaced", ",", "=> x", "\"", "if x {", "é"]


def rand_comment(rng, nonascii=0.3):
    n = rng.randint(0, 4)
    words = []
    for _ in range(n):
        w = rng.choice(COMMENT_WORDS)
        if not w.isascii() and rng.random() > nonascii:
            w = "c"
        words.append(w)
    lead = rng.choice(["// ", "//", "/// ", "//  "])
    return lead + " ".join(words)


def render_perturbed(toks, rng, cfg=None, style=None):
    """Render a token stream with random whitespace, indentation, blank lines and comments while
    honouring every gap constraint. `style`: None | "oneline" (join wherever allowed) | "exploded"
    (newline wherever allowed)."""
    c = dict(PERTURB_DEFAULT)
    if cfg:
        c.update(cfg)
    nlch = "\r\n" if rng.random() < c["crlf"] else "\n"
    out = []
    tabs = rng.random() < c["tabs"]
    base_indent = rng.randint(0, c["indent_max"]) if rng.random() < 0.5 else None

    def indent():
        if tabs:
            return "\t" * rng.randint(0, 3)
        if base_indent is not None and rng.random() < 0.6:
            return " " * base_indent
        return " " * rng.randint(0, c["indent_max"])

    def spaces(minimum):
        k = rng.random()
        if k < 1 - c["extra_space"]:
            return " " * minimum
        if tabs and rng.random() < 0.3:
            return "\t" * max(1, minimum)
        return " " * (minimum + rng.randint(0, 3))

    def newlines():
        n = 1
        if rng.random() < c["blank_runs"]:
            n = rng.randint(2, 4)
        return nlch * n

    def comment_newlines():
        # blank lines between comment lines detach them from the item they document
        return newlines() if rng.random() < c["comment_blank"] else nlch

    prev = ""
    for i, t in enumerate(toks):
        text, gap, sep, cm = t[0], t[1], t[2], t[3]
        cms = list(cm) if cm else []
        if gap in (A, N, Z) and i > 0 and rng.random() < c["comment"]:
            cms.insert(rng.randint(0, len(cms)), rand_comment(rng, c["nonascii_comment"]))
        if i == 0:
            lead = ""
            if rng.random() < 0.3:
                lead = (newlines() if rng.random() < 0.3 else "") + indent()
            out.append(lead)
            for cmt in cms:
                out.append(cmt + comment_newlines() + indent())
        elif gap == G:
            pass
        elif gap == L:
            out.append(spaces(1))
        else:
            canon_nl = "\n" in sep
            need = 0 if gap == Z or (gap == A and can_zero(prev, text)) else 1
            if cms:
                # first comment either trails the previous token's line or starts its own line
                first = True
                for cmt in cms:
                    if first and rng.random() < 0.4:
                        out.append(spaces(rng.choice([0, 1, 1, 2])))
                    else:
                        out.append((newlines() if first else comment_newlines()) + indent())
                    first = False
                    out.append(cmt)
                out.append(comment_newlines() + indent())
            else:
                if gap == N:
                    want_nl = True
                elif style == "oneline":
                    want_nl = False
                elif style == "exploded":
                    want_nl = True
                elif canon_nl:
                    want_nl = rng.random() >= c["join_lines"]
                else:
                    want_nl = rng.random() < c["newline"]
                if want_nl:
                    out.append(newlines() + indent())
                else:
                    zero_ok = need == 0
                    if zero_ok and (sep == "" or rng.random() < c["zero"]):
                        out.append(spaces(0) if sep == "" else "")
                    else:
                        out.append(spaces(1))
        out.append(text)
        prev = text
    k = rng.random()
    if k < 0.7:
        out.append(nlch)
    elif k < 0.8:
        out.append(nlch * rng.randint(2, 4))
    elif k < 0.9:
        out.append("  ")
    if rng.random() < c["comment"] * 3:
        out.append(rand_comment(rng, c["nonascii_comment"]) + (nlch if rng.random() < 0.5 else ""))
    return "".join(out)


def tokens_from_lex(src, tokens, comments):
    """Token stream (same format as Printer's) from the hook's `tokens` and `comments` of a file.
    Gap constraints are inferred conservatively from the original layout: touching stays touching
    unless the two lexemes are safe to separate, a token on the line of a preceding `return` stays on
    that line, a token that started a new line after `return` keeps a newline.
    -> (tokens, trailing comment texts)"""
    b = src.encode("utf-8")
    toks = []
    ci = 0
    prev_end = None
    prev_text = ""
    for t in tokens:
        s, e = t["pos"][0], t["pos"][1]
        cms = []
        while ci < len(comments) and comments[ci]["pos"][0] < s:
            cms.append(comments[ci]["text"].rstrip("\r\n"))
            ci += 1
        if prev_end is None:
            gap, sep = A, ""
        else:
            raw = b[prev_end:s].decode("utf-8", "replace")
            if raw == "":
                gap, sep = (A if can_zero(prev_text, t["text"]) else G), ""
            elif prev_text == "return" and t["text"] not in ("}", ")", "]", ","):
                gap, sep = (N, "\n" + " " * t["pos"][4]) if "\n" in raw else (L, " ")
            elif "\n" in raw:
                gap, sep = A, "\n" + " " * t["pos"][4]
            else:
                gap, sep = A, " "
        toks.append([t["text"], gap, sep, cms or None])
        prev_end = e
        prev_text = t["text"]
    trailing = [c["text"].rstrip("\r\n") for c in comments[ci:]]
    return toks, trailing
