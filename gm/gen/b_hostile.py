"""Hostile workloads for C02: pool of values of every runtime type, argument vectors for every
built-in, operator grids, random ill-typed expression trees, redefinition tricks, depth programs.

Everything is Garden *source text*. `@S@` stands for the case's scratch directory (substituted by the
monitor at run time; the session runs with that directory as cwd). SAFETY (the checks run as root):
  * every string in the pool is free of "/" and ".." (asserted below), so a relative use stays in cwd;
  * Path values that name something are always `@S@/...`;
  * String-hinted parameters of functions from __shell.gdn only get `true`, `echo` or a non-existent
    command name.
"""
import random

from . import b_builtins

MAX = (1 << 63) - 1
MIN = -(1 << 63)

# definitions every C02 session starts with
PREAMBLE = [
    'import "__fs.gdn" as fs',
    'import "__shell.gdn" as shell',
    'import "__reflect.gdn" as reflect',
    'import "__random.gdn" as rnd',
    'import "__time.gdn" as time',
    "struct BPt { x: Int, y: Int }",
    "struct BBox<T> { v: T }",
    "enum BCol { BRed, BGreen(Int), BBlue(String) }",
    "fun b_id<T>(x: T): T { x }",
    "fun b_two(x: Int, y: Int): Int { x + y }",
    "method b_m(this: BPt): Int { this.x }",
    'let b_huge = "x" let b_i = 0 while b_i < 17 { b_huge = b_huge ^ b_huge b_i += 1 }',
    'let b_big = "ab,é " let b_i = 0 while b_i < 6 { b_big = b_big ^ b_big b_i += 1 }',
    "let b_l1000 = [] let b_i = 0 while b_i < 1000 { b_l1000 = b_l1000.append(b_i) b_i += 1 }",
    "let b_l100 = [] let b_i = 0 while b_i < 100 { b_l100 = b_l100.append(100 - b_i) b_i += 1 }",
    "let b_deep = [] let b_i = 0 while b_i < 60 { b_deep = [b_deep] b_i += 1 }",
    "let b_k = 5 let b_clo = fun(x) { x + b_k }",
    "let b_clo0 = fun() { 1 }",
    'fs::create_dir(Path{ p: "@S@/dir" }) fs::write_file("hello\\n", Path{ p: "@S@/file.txt" })',
]

# (type tag, source, size class) ; size class: "" normal, "huge" only for Rust-implemented built-ins
POOL = [
    ("Int", "0", ""), ("Int", "1", ""), ("Int", "-1", ""), ("Int", "7", ""), ("Int", "64", ""), ("Int", "1000", ""),
    ("Int", str(MAX), "ext"), ("Int", str(MIN), "ext"), ("Int", str(MAX - 1), "ext"), ("Int", "4294967296", "ext"),
    ("Float", "0.0", ""), ("Float", "1.5", ""), ("Float", "-1.5", ""), ("Float", "9223372036854775808.0", ""),
    ("Float", "-9223372036854775809.0", ""), ("Float", "1" + "0" * 308 + ".0", ""), ("Float", "0." + "0" * 320 + "1", ""),
    ("Float", "(1" + "0" * 308 + ".0 *. 10.0)", ""), ("Float", "((1" + "0" * 308 + ".0 *. 10.0) -. (1" + "0" * 308 + ".0 *. 10.0))", ""),
    ("String", '""', ""), ("String", '"a"', ""), ("String", '"é\U0001F600"', ""), ("String", '"a\\\\"', ""), ("String", '"\\n"', ""),
    ("String", '" "', ""), ("String", '"\\""', ""), ("String", '"123"', ""), ("String", '"true"', ""), ("String", "b_big", ""),
    ("String", "b_huge", "huge"), ("String", '"Int"', ""), ("String", '"String"', ""), ("String", '"len"', ""), ("String", '"__prelude.gdn"', ""),
    ("List", "[]", ""), ("List", "[1, 2, 3]", ""), ("List", '["a", "b"]', ""), ("List", "[[1], [2, [3]]]", ""),
    ("List", '[1, "a", None]', ""), ("List", "b_l100", ""), ("List", "b_l1000", "huge"), ("List", "b_deep", ""),
    ("List", "[" + str(MAX) + ", " + str(MIN) + ", 256, -1]", ""), ("List", '[Path{ p: "@S@/file.txt" }]', ""),
    ("Tuple", '(1, "a")', ""), ("Tuple", "(1,)", ""), ("Tuple", "()", ""), ("Tuple", "((1, 2), [3])", ""),
    ("Dict", "Dict[]", ""), ("Dict", 'Dict["a" => 1]', ""), ("Dict", 'Dict["a" => [1], "é" => [2]]', ""),
    ("Unit", "Unit", ""), ("Bool", "True", ""), ("Bool", "False", ""),
    ("Option", "None", ""), ("Option", "Some(1)", ""), ("Option", 'Some("a")', ""), ("Result", 'Ok("x")', ""), ("Result", "Err(1)", ""),
    ("BCol", "BRed", ""), ("BCol", "BGreen(1)", ""),
    ("Fun", "Some", ""), ("Fun", "max", ""), ("Fun", "string_repr", ""), ("Fun", "b_clo", ""), ("Fun", "b_clo0", ""),
    ("Fun", "fun(x) { x }", ""), ("Fun", "fun(x: Int, y: Int) { True }", ""), ("Fun", "fun(x) { throw(\"boom\") }", ""), ("Fun", "BGreen", ""),
    ("BPt", "BPt{ x: 1, y: 2 }", ""), ("BBox", "BBox{ v: [1] }", ""),
    ("Path", 'Path{ p: "@S@/file.txt" }', ""), ("Path", 'Path{ p: "@S@/dir" }', ""), ("Path", 'Path{ p: "@S@/nope/é.txt" }', ""),
    ("Path", 'Path{ p: "@S@/dir/new" }', ""), ("Path", 'Path{ p: "" }', ""), ("Path", "Path{ p: 1 }", "malformed"),
    ("Path", "Path{ p: [] }", "malformed"),
    ("Namespace", "fs", ""), ("Namespace", "reflect", ""),
]
SAFE_CMDS = ['"true"', '"echo"', '"gm-no-such-command-b"']

def _check_safe(src):
    """Every string literal either names something under the scratch directory or has no path syntax."""
    import re
    for lit in re.findall(r'"((?:\\.|[^"\\])*)"', src):
        assert ".." not in lit, src
        assert lit.startswith("@S@/") or "/" not in lit, src


for _e in POOL:
    _check_safe(_e[1])
del _e


def by_type(t):
    return [p for p in POOL if p[0] == t]


def hint_type(hint):
    """Runtime type tag that a parameter hint asks for (None: anything)."""
    if hint is None:
        return None
    h = hint.strip()
    for t in ("Int", "Float", "String", "List", "Dict", "Bool", "Option", "Result", "Path", "Namespace", "Unit", "Fun"):
        if h == t or h.startswith(t + "<"):
            return t
    if h.startswith("("):
        return "Tuple"
    return None


def _allowed(entry, fn, hint):
    """May pool entry go to a parameter with this hint of built-in fn?"""
    t, s, c = entry
    rust = fn["builtin"]
    if c == "huge" and not rust:
        return False
    if c == "ext" and not rust and hint_type(hint) == "Int":
        return False          # Garden-level loops over i64 ranges do not terminate in practice
    if fn["file"] == "__shell.gdn" and t == "String" and hint_type(hint) == "String":
        return False          # only SAFE_CMDS there
    return True


def candidates(fn, hint):
    out = [e for e in POOL if _allowed(e, fn, hint)]
    if fn["file"] == "__shell.gdn" and hint_type(hint) == "String":
        out += [("String", c, "") for c in SAFE_CMDS]
    return out


def well_typed(fn, hint, rng):
    t = hint_type(hint)
    c = [e for e in candidates(fn, hint) if t is None or e[0] == t]
    if not c:
        c = candidates(fn, hint)
    c2 = [e for e in c if e[2] in ("", "ext")] or c
    return rng.choice(c2)


def call_src(fn, recv, args):
    a = ", ".join(args)
    if fn["kind"] == "method":
        r = recv
        if r.startswith("-") or r.startswith("fun"):
            r = "(%s)" % r
        return "%s.%s(%s)" % (r, fn["name"], a)
    ns = {"__fs.gdn": "fs::", "__shell.gdn": "shell::", "__reflect.gdn": "reflect::", "__random.gdn": "rnd::",
          "__time.gdn": "time::"}.get(fn["file"], "")
    return "%s%s(%s)" % (ns, fn["name"], a)


def fn_label(fn):
    return ("%s::%s" % (fn["recv"], fn["name"])) if fn["kind"] == "method" else ("%s:%s" % (fn["file"][2:-4], fn["name"]))


def builtin_cases(vocab, rng, per_position=None):
    """Systematic exploration: for every built-in, arities n-1..n+1; every position x every pool value
    (others well typed); every receiver of the right type."""
    for fi, fn in enumerate(vocab):
        hints = [h for _, h in fn["params"]]
        n = len(hints)
        recvs = [None]
        if fn["kind"] == "method":
            recvs = [e for e in POOL if e[0] == fn["recv"] and (e[2] != "huge" or fn["builtin"])] or \
                    [e for e in POOL if e[2] == ""][:3]
        label = fn_label(fn)

        def mk(recv, args, types, why):
            return {"t": "call", "src": call_src(fn, recv[1] if recv else None, [a for a in args]),
                    "fn": label, "types": ([recv[0]] if recv else []) + types, "why": why}

        # all receivers with well-typed arguments
        for r in recvs:
            args = [well_typed(fn, h, rng) for h in hints]
            yield mk(r, [a[1] for a in args], [a[0] for a in args], "typed")
        # each position x each pool value
        for pos in range(n):
            cands = candidates(fn, hints[pos])
            if per_position:
                cands = rng.sample(cands, min(per_position, len(cands)))
            for e in cands:
                args = [well_typed(fn, h, rng) for h in hints]
                args[pos] = e
                r = rng.choice(recvs)
                yield mk(r, [a[1] for a in args], [a[0] for a in args], "pos%d" % pos)
        # arity n-1 and n+1 (and 0 / n+2 for good measure)
        for m in sorted(set([max(0, n - 1), n + 1, 0, n + 2]) - {n}):
            for r in recvs[:2]:
                hs = (hints + [None, None])[:m]
                args = [well_typed(fn, h, rng) for h in hs]
                yield mk(r, [a[1] for a in args], [a[0] for a in args], "arity%+d" % (m - n))


def random_call(vocab, rng):
    fn = rng.choice(vocab)
    hints = [h for _, h in fn["params"]]
    recv = None
    if fn["kind"] == "method":
        c = [e for e in POOL if e[0] == fn["recv"] and (e[2] != "huge" or fn["builtin"])]
        recv = rng.choice(c) if c else None
        if recv is None:
            return None
    args = []
    for h in hints:
        args.append(rng.choice(candidates(fn, h)) if rng.random() < 0.6 else well_typed(fn, h, rng))
    return {"t": "call", "src": call_src(fn, recv[1] if recv else None, [a[1] for a in args]),
            "fn": fn_label(fn), "types": ([recv[0]] if recv else []) + [a[0] for a in args], "why": "random"}


# ----------------------------------------------------------------------------- operators

OPS = ["==", "!=", ">=", "<=", "&&", "||", "**", "+.", "-.", "*.", "/.", "+", "-", "*", "/", "%", "^", "<", ">", "&", "|"]
OP_POOL = [("Int", "0"), ("Int", "1"), ("Int", "-1"), ("Int", "63"), ("Int", "64"),
           ("Int", str(MAX)), ("Int", str(MIN)), ("Int", "4294967296"), ("Int", "3037000500"),
           ("Float", "0.0"), ("Float", "1.5"), ("Float", "1" + "0" * 308 + ".0"), ("Float", "0." + "0" * 320 + "1"),
           ("String", '""'), ("String", '"a"'), ("Bool", "True"),
           ("List", "[]"), ("List", "[1]"), ("Tuple", "(1, 2)"), ("Dict", 'Dict["a" => 1]'), ("Unit", "Unit"),
           ("Option", "None"), ("Fun", "max"), ("BPt", "BPt{ x: 1, y: 2 }"), ("Namespace", "fs")]
OP_POOL_MORE = [("Int", "2"), ("Int", "65"), ("Int", str(MIN + 1)), ("Float", "-2.0"), ("Float", "9223372036854775808.0"),
                ("String", "b_big"), ("Bool", "False"), ("Option", "Some(1)"), ("Fun", "b_clo")]


def operator_cases(tier="quick"):
    pool = OP_POOL if tier == "quick" else OP_POOL + OP_POOL_MORE
    for op in OPS:
        for ta, a in pool:
            for tb, b in pool:
                yield {"t": "op", "src": "(%s) %s (%s)" % (a, op, b), "op": op, "types": [ta, tb]}
    for op in ("+=", "-="):
        for ta, a in pool:
            for tb, b in pool:
                yield {"t": "op", "src": "let b_v = %s b_v %s %s b_v" % (a, op, b), "op": op, "types": [ta, tb]}
    for op in ("+=", "-=", "="):
        for name in ("max", "fs", "True", "Some", "b_nope", "BPt", "b_id", "_", "b_clo"):
            yield {"t": "op", "src": "%s %s 1" % (name, op), "op": op + "name", "types": [name, "Int"]}


# ----------------------------------------------------------------------------- random ill-typed expressions

IDENTS = ["b_x", "b_y", "b_nope", "b_clo", "b_clo0", "max", "b_id", "b_two", "fs", "Some", "None", "True", "BRed", "BGreen",
          "b_big", "b_l100", "_", "this", "Unit"]
METHODS = ["len", "get", "append", "substring", "index_of", "split", "join", "first", "last", "slice", "map", "filter",
           "floor", "ceil", "as_float", "as_int", "or_throw", "or_value", "is_some", "items", "set", "remove", "chars",
           "lines", "trim", "contains", "concat", "enumerate", "b_m", "nope", "x", "p", "parent", "file_name", "exists"]


class ExprGen:
    def __init__(self, rng):
        self.rng = rng

    def atom(self):
        r = self.rng
        k = r.random()
        if k < 0.55:
            return r.choice([e for e in POOL if e[2] in ("", "ext")])[1]
        if k < 0.8:
            return r.choice(IDENTS)
        return r.choice(["1", "0", '"s"', "[]", "True", "2.5", str(MAX), str(MIN)])

    def expr(self, d):
        r = self.rng
        if d <= 0:
            return self.atom()
        k = r.random()
        e = lambda: self.expr(d - 1)
        if k < 0.14:
            return self.atom()
        if k < 0.30:
            return "(%s) %s (%s)" % (e(), r.choice(OPS), e())
        if k < 0.44:
            n = r.choice([0, 1, 1, 2, 3])
            return "(%s).%s(%s)" % (e(), r.choice(METHODS), ", ".join(e() for _ in range(n)))
        if k < 0.54:
            n = r.choice([0, 1, 2, 3])
            f = r.choice(IDENTS + ["string_repr", "print", "not", "todo", "throw", "dbg", "assert",
                                   "fs::read_file", "reflect::lex", "shell::nope", "nope::f", "b_clo", "(fun(x) { x })",
                                   "(fun() { b_q })", "1", '"a"'])
            return "%s(%s)" % (f, ", ".join(e() for _ in range(n)))
        if k < 0.60:
            return "if %s { %s } else { %s }" % (e(), e(), e())
        if k < 0.68:
            pats = r.sample(["Some(b_p) => b_p", "None => 0", "Ok(b_p) => b_p", "Err(_) => 1", "True => 2", "False => 3",
                             "BGreen(b_p) => b_p", "BRed => 4", "_ => 5", "Some(_) => 6", "Unit => 7", "b_p => b_p"],
                            r.randint(1, 3))
            return "match %s { %s }" % (e(), ", ".join(pats))
        if k < 0.73:
            return "[%s]" % ", ".join(e() for _ in range(r.randint(0, 3)))
        if k < 0.77:
            return "(%s, %s)" % (e(), e())
        if k < 0.80:
            return 'Dict[%s => %s]' % (e(), e())
        if k < 0.84:
            return r.choice(["BPt{ x: %s, y: %s }", "BPt{ x: %s }", "BPt{ x: %s, y: 1, z: 2 }", "BBox{ v: %s }", "Path{ p: %s }",
                             "Nope{ a: %s }", "BPt{ y: 1, x: %s, x: 2 }"]).replace("%s", "@E@").replace("@E@", e(), 1).replace("@E@", "0")
        if k < 0.88:
            return "(%s).%s" % (e(), r.choice(["x", "y", "p", "v", "nope", "len"]))
        if k < 0.92:
            return "(fun(b_a, b_b) { %s })(%s)" % (e(), ", ".join(e() for _ in range(r.choice([0, 1, 2, 2, 3]))))
        if k < 0.95:
            return "{ let b_x = %s %s }" % (e(), e())
        return r.choice(["return %s", "{ break %s }", "{ continue %s }", "assert(%s)", "{ b_x = %s }", "{ b_nope += %s }"]) \
            .replace("%s", e() if r.random() < 0.7 else "")

    def stmt(self, d):
        r = self.rng
        k = r.random()
        if k < 0.4:
            return self.expr(d)
        if k < 0.55:
            return "let %s = %s" % (r.choice(["b_x", "b_y", "(b_x, b_y)", "(b_x, b_y, b_z)", "_", "b_x: Int", "b_x: String",
                                              "b_x: List<Int>", "(b_x, _)"]), self.expr(d))
        if k < 0.65:
            return "let b_n = 0 while b_n < 3 { b_n += 1 %s }" % self.expr(d)
        if k < 0.75:
            return "for %s in %s { %s }" % (r.choice(["b_x", "(b_x, b_y)", "_"]), self.expr(d), self.expr(d))
        if k < 0.82:
            return "while %s { %s break }" % (self.expr(d - 1), self.atom())
        if k < 0.9:
            return "let b_x = 1 b_x %s %s b_x" % (r.choice(["=", "+=", "-="]), self.expr(d))
        return "let b_f = fun(b_n) { if b_n < 1 { %s } else { b_f(b_n - 1) } } b_f(3)" % self.expr(d - 1)

    def program(self):
        d = self.rng.choice([1, 2, 2, 3, 3, 4])
        return " ".join(self.stmt(d) for _ in range(self.rng.choice([1, 1, 2, 3])))


# ----------------------------------------------------------------------------- redefinition tricks

BATTERY = [
    "1 + 1", "1.5 +. 2.5", '"a" ^ "b"', "[1, 2].len()", "[1, 2].get(0)", "[1, 2].get(5)", "[].first()", "[1].last()",
    '"abc".index_of("c")', '"abc".substring(0, 1)', '"a,b".split(",")', '"a".len()', '"1".as_int()', '"x".as_int()',
    "1.as_float()", "1.5.floor()", "1.5.ceil()", 'Dict["a" => 1].get("a")', 'Dict["a" => 1].get("b")', 'Dict["a" => 1].items()',
    'Dict["a" => 1].set("b", 2)', 'Dict["a" => 1].remove("a")', "if True { 1 } else { 2 }", "if 1 < 2 { 1 } else { 2 }",
    "1 == 1", "[1] == [1]", "not(True)", "True && False", "match Some(1) { Some(x) => x, None => 0 }",
    "match [1].get(0) { Some(x) => x, None => 0 }", "match [1].get(9) { Some(x) => x, None => 0 }",
    'match "1".as_int() { Some(x) => x, None => 0 }', "Some(1).or_value(2)", "None.or_value(2)", "Some(1).is_some()",
    'match fs::read_file(Path{ p: "@S@/file.txt" }) { Ok(s) => s, Err(e) => e }',
    'match fs::read_file(Path{ p: "@S@/nope" }) { Ok(s) => s, Err(e) => e }',
    'fs::read_file(Path{ p: "@S@/file.txt" })', 'fs::list_directory(Path{ p: "@S@" })', "fs::working_directory()",
    'Path{ p: "@S@/file.txt" }.exists()', 'Path{ p: "@S@/file.txt" }.info()', 'Path{ p: "@S@/a/b.txt" }.parent()',
    'Path{ p: "@S@/a/b.txt" }.file_name()', 'Path{ p: "@S@/a/b.txt" }.extension()', 'Path{ p: "@S@/a" }.join("b")',
    'print("x")', 'println("x")', "string_repr(Unit)", "string_repr(None)", "string_repr(True)", "string_repr([Some(1), None])",
    'string_repr(Ok(1))', 'string_repr(Path{ p: "x" })', "string_repr(1.5)", 'string_repr("s")', "string_repr((1, 2))",
    'string_repr(Dict["a" => 1])', "string_repr(fun() { 1 })", "string_repr(max)", "string_repr(fs)", "dbg(1)",
    "for x in [1, 2] { x }", "let b_w = 0 while b_w < 2 { b_w += 1 } b_w", "[1, 2].map(fun(x) { x + 1 })",
    "[1, 2].filter(fun(x) { x > 1 })", "sort_nums([2, 1])", "range(0, 3)", "[(1, 2)].enumerate()", '"".join(["a"])',
    'shell::run("true", [])', 'shell::get_env("HOME")', "shell::is_tty()", "read_line()", "shell_arguments()",
    'reflect::lex("1 + x")', 'reflect::doc_comment_for_type("Int")', 'reflect::methods_for_type("String")',
    "reflect::prelude_types()", 'reflect::source_for_type("Option")', "rnd::choose([1])", "rnd::choose([])", "time::unixtime()",
    'assert(1 == 1)', "todo()", 'throw("x")', "let (b_a, b_b) = (1, 2) b_a", "BPt{ x: 1, y: 2 }.b_m()", "()",
]


def redefinitions(type_names):
    """(label, [definition inputs]) pairs: every prelude type name redefined as a struct and as an enum."""
    out = []
    for t in type_names:
        out.append(("struct " + t, ["struct %s { x: Int }" % t], ["%s{ x: 1 }" % t]))
        out.append(("generic struct " + t, ["struct %s<T> { x: T }" % t], ["%s{ x: [] }" % t]))
        out.append(("enum " + t, ["enum %s { B%sA(Int), B%sB }" % (t, t, t)], ["B%sA(1)" % t, "B%sB" % t]))
        out.append(("empty enum " + t, ["enum %s {}" % t], []))
    out.append(("Option swapped", ["enum Option<T> { None, Some(T) }"], ["None", "Some(1)"]))
    out.append(("Option one variant", ["enum Option<T> { Some(T) }"], ["Some(1)"]))
    out.append(("Option payload moved", ["enum Option<T> { Some, None(T) }"], ["Some", "None(1)"]))
    out.append(("Result swapped", ["enum Result<T, E> { Err(E), Ok(T) }"], ["Ok(1)", "Err(1)"]))
    out.append(("Bool swapped", ["enum Bool { False, True }"], ["True", "False"]))
    out.append(("Bool extra", ["enum Bool { Maybe, True, False }"], ["True", "Maybe"]))
    out.append(("Bool payload", ["enum Bool { True(Int), False }"], ["True(1)", "False"]))
    out.append(("Unit payload", ["enum Unit { Unit(Int) }"], ["Unit(1)"]))
    out.append(("Path other field", ["struct Path { q: String }"], ['Path{ q: "a" }']))
    out.append(("Path two fields", ["struct Path { p: String, q: Int }"], ['Path{ p: "@S@/file.txt", q: 1 }']))
    out.append(("Path int", ["struct Path { p: Int }"], ["Path{ p: 1 }"]))
    out.append(("PathInfo small", ["struct PathInfo { size: String }"], ['PathInfo{ size: "a" }']))
    out.append(("functions shadowed", ["fun string_repr(x: Int): Int { x }", "fun print(x: Int) { x }", "fun throw() { 1 }",
                                       "fun not(x: Int): Int { x }", "fun max(x: String): String { x }"], ["string_repr", "max"]))
    out.append(("methods shadowed", ["method len(this: String): String { this }", "method get(this: List<Int>): Int { 1 }",
                                     "method ceil(this: Float, x: Int): Int { x }", "method append<T>(this: List<T>): Int { 1 }"],
                ['"a".len()', "[1].get()", "1.5.ceil(1)", "[].append()"]))
    return out


# ----------------------------------------------------------------------------- depth

def depth_programs(tier):
    """(label, kind, depth, [inputs]) - every program runs in a fresh process."""
    out = []
    rec = [1000, 10000, 100000] + ([1000000] if tier != "quick" else [])
    for n in rec:
        light = tier == "quick" and n >= 100000
        out.append(("recursion:fun", "recursion", n,
                    ["fun b_rec(n: Int): Int { if n == 0 { 0 } else { 1 + b_rec(n - 1) } }", "b_rec(%d)" % n]))
        out.append(("recursion:closure", "recursion", n,
                    ["let b_r = fun(n) { if n == 0 { 0 } else { 1 + b_r(n - 1) } } b_r(%d)" % n]))
        if light:
            continue
        out.append(("recursion:mutual", "recursion", n,
                    ["fun b_ev(n: Int): Bool { if n == 0 { True } else { b_od(n - 1) } } fun b_od(n: Int): Bool { if n == 0 { False } else { b_ev(n - 1) } }",
                     "b_ev(%d)" % n]))
        out.append(("recursion:method", "recursion", n,
                    ["method b_down(this: Int): Int { if this == 0 { 0 } else { (this - 1).b_down() } }", "%d.b_down()" % n]))
        out.append(("recursion:list-building", "recursion", n,
                    ["fun b_build(n: Int): List<Int> { if n == 0 { [] } else { b_build(n - 1).append(n) } }", "b_build(%d).len()" % n]))
    shapes = {
        "list": ("[]", "[b_v]"),
        "tuple": ("(1,)", "(b_v,)"),
        "option": ("None", "Some(b_v)"),
        "struct": ("BBox{ v: 0 }", "BBox{ v: b_v }"),
        "dict": ("Dict[]", 'Dict["k" => b_v]'),
        "result": ("Ok(1)", "Err(b_v)"),
    }
    # building a value nested n deep costs O(n^2) in this interpreter (the element type is rebuilt at every
    # step), so 10^4 is the practical ceiling (about a minute per program in the dev build)
    depths = [100, 1000, 2000] if tier == "quick" else [100, 300, 1000, 3000, 10000]
    if tier == "quick":
        shapes = {k: shapes[k] for k in ("list", "option", "struct")}
    for sh, (base, step) in shapes.items():
        for n in depths:
            build = "let b_v = %s let b_i = 0 while b_i < %d { b_v = %s b_i += 1 }" % (base, n, step)
            out.append(("nest:%s:build" % sh, "deep-value", n, [build + " 1"]))
            out.append(("nest:%s:print" % sh, "deep-value", n, [build + " string_repr(b_v).len()"]))
            out.append(("nest:%s:compare" % sh, "deep-value", n,
                        [build + " " + build.replace("b_v", "b_w").replace("b_i", "b_j") + " b_v == b_w"]))
            out.append(("nest:%s:drop" % sh, "deep-value", n, [build + " b_v = %s 1" % base]))
            if tier == "quick":
                continue
            out.append(("nest:%s:display" % sh, "deep-value", n, [build + " b_v"]))
            out.append(("nest:%s:pass" % sh, "deep-value", n, [build + " b_id(b_v) 1"]))
    wide = [10000] if tier == "quick" else [10000, 100000]
    for n in wide:
        out.append(("wide:list-print", "wide", n,
                    ["let b_v = [] let b_i = 0 while b_i < %d { b_v = b_v.append(b_i) b_i += 1 } string_repr(b_v).len()" % n]))
        out.append(("wide:string", "wide", n,
                    ['let b_v = "" let b_i = 0 while b_i < %d { b_v = b_v ^ "é" b_i += 1 } b_v.len()' % (n // 10)]))
        out.append(("wide:dict", "wide", n,
                    ["let b_v = Dict[] let b_i = 0 while b_i < %d { b_v = b_v.set(string_repr(b_i), b_i) b_i += 1 } b_v.items().len()" % (n // 10)]))
    return out


def playground_programs():
    """(label, source, expected error substring or None) run under `garden playground-run`
    (sandbox: tick limit 100000, stack limit 1000): the limits and refusals are Garden-level errors."""
    return [
        ("unbounded-recursion", "fun b_inf(n: Int): Int { 1 + b_inf(n + 1) }\nb_inf(0)", "stack limit"),
        ("infinite-loop", "let b_i = 0\nwhile True { b_i += 1 }", "tick limit"),
        ("deep:value-within-ticks", "let b_v = []\nlet b_i = 0\nwhile b_i < 2000 { b_v = [b_v] b_i += 1 }\n1", None),
        ("sandbox-write", 'import "__fs.gdn" as fs\nfs::write_file("x", Path{ p: "@S@/sandbox.txt" })', "sandbox"),
        ("sandbox-shell", 'import "__shell.gdn" as shell\nshell::run("true", [])', "sandbox"),
        ("sandbox-read", 'import "__fs.gdn" as fs\nfs::read_file(Path{ p: "@S@/file.txt" })', "sandbox"),
        ("recursion-999", "fun b_r(n: Int): Int { if n == 0 { 0 } else { 1 + b_r(n - 1) } }\nb_r(990)", None),
        ("throw", 'throw("x")', None),
        ("assert", "assert(1 == 2)", None),
        ("overflow-ops", "let b_v = 9223372036854775807\nb_v += 1\n-9223372036854775808 / -1", None),
    ]


# ----------------------------------------------------------------------------- indexes around the receiver's length

LEN_RECV = {
    "String": [('""', 0), ('"a"', 1), ('"abc"', 3), ('"\u00e9"', 1), ('"a\u00e9\U0001F600"', 3), ('"abcdefgh"', 8)],
    "List": [("[]", 0), ("[1]", 1), ("[1, 2, 3]", 3), ('["a"]', 1), ("[[], [1], [1, 2]]", 3)],
    "Dict": [("Dict[]", 0), ('Dict["a" => 1]', 1), ('Dict["a" => 1, "b" => 2, "c" => 3]', 3)],
}


def near(n):
    return sorted(set([-1, 0, 1, n - 1, n, n + 1, n + 2, 2 * n + 3]))


def index_cases(vocab, rng, chunk=50):
    """For every built-in with Int-hinted parameters: all combinations of small ints around the length of
    the receiver (or of the first String / List argument; lengths 0, 1, 3, 8), incl. from > to.
    Yields (label, [sources]) in chunks."""
    import itertools
    for fn in vocab:
        hints = [h for _, h in fn["params"]]
        ipos = [i for i, h in enumerate(hints) if hint_type(h) == "Int"]
        if not ipos or fn["effect"] == "world":
            continue
        if fn["kind"] == "method":
            recvs = LEN_RECV.get(fn["recv"])
            if recvs is None:
                c = [e for e in POOL if e[0] == fn["recv"] and e[2] == ""][:2]
                recvs = [(e[1], k) for e in c for k in (0, 1, 3)]
        else:
            recvs = [(None, 0), (None, 1), (None, 3)]
        srcs = []
        for rsrc, n in recvs:
            base = []
            length = n
            for h in hints:
                t = hint_type(h)
                if t in LEN_RECV and rsrc is None:
                    # a function whose first container argument plays the receiver's role
                    e = LEN_RECV[t][[0, 1, 3].index(n) if n in (0, 1, 3) else 0]
                    base.append(e[0])
                    length = e[1]
                else:
                    base.append(well_typed(fn, h, rng)[1])
            vals = near(length)
            combos = itertools.product(vals, repeat=len(ipos)) if len(ipos) <= 2 else \
                [tuple(rng.choice(vals) for _ in ipos) for _ in range(80)]
            for combo in combos:
                args = list(base)
                for p, v in zip(ipos, combo):
                    args[p] = str(v)
                srcs.append(call_src(fn, rsrc, args))
        label = fn_label(fn)
        for i in range(0, len(srcs), chunk):
            yield label, srcs[i:i + chunk]
