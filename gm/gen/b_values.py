"""Generators of abstract Garden values (see gm.ref.bval) for C12 / C13 / C02 / C32.

PREAMBLE defines the user types the generators use; it must be loaded into a session before any
source emitted from these values is evaluated.
"""
import itertools
import math
import struct

from ..ref import bval

MIN, MAX = bval.MIN, bval.MAX

PREAMBLE = [
    "struct BPt { x: Int, y: Int }",
    "struct BBox<T> { v: T }",
    "struct BRec { name: String, tags: List<String>, next: Option<Int> }",
    "enum BCol { BRed, BGreen(Int), BBlue(String) }",
    "enum BOpt<T> { BNone, BSome(T) }",
    "fun b_id<T>(x: T): T { x }",
]

I = lambda n: ["int", n]
F = lambda x: ["float", x]
S = lambda s: ["str", s]
L = lambda *xs: ["list", list(xs)]
T = lambda *xs: ["tuple", list(xs)]
D = lambda *kv: ["dict", [list(p) for p in kv]]
E = lambda name, p=None: ["enum", name, p]
TRUE, FALSE, UNIT, NONE = E("True"), E("False"), E("Unit"), E("None")
SOME = lambda v: E("Some", v)
OK = lambda v: E("Ok", v)
ERR = lambda v: E("Err", v)
PT = lambda x, y: ["struct", "BPt", [["x", I(x)], ["y", I(y)]]]
BOX = lambda v: ["struct", "BBox", [["v", v]]]
PATH = lambda s: ["struct", "Path", [["p", S(s)]]]
REC = lambda name, tags, nxt: ["struct", "BRec", [["name", S(name)], ["tags", L(*[S(t) for t in tags])],
                                                   ["next", NONE if nxt is None else SOME(I(nxt))]]]

INT_EDGE = [0, 1, -1, 2, 7, -7, 10, 255, 1 << 31, -(1 << 31), (1 << 53) + 1, MAX, MAX - 1, MIN, MIN + 1]
FLOAT_EDGE = [0.0, 1.0, -1.0, 1.5, -1.5, 0.1, 0.2, 0.30000000000000004, 2.5, 100.0, 1e15, 1e16, 1e21, 1e22,
              123456789.125, 9007199254740993.0, 1.7976931348623157e308, -1.7976931348623157e308,
              2.2250738585072014e-308, 5e-324, 1e-7, 1e-5, 0.001, 1e100, 3.141592653589793, 4503599627370496.5]
STR_ALPHA = ["a", '"', "\\", "\n", "\t", "\r", "\u00e9", "\U0001F600"]
STR_EXTRA = [" ", "b", "Z", "0", "_", "{", "}", "[", "]", "(", ")", ",", ":", "=", ">", "/", "'", "`", "$", "#",
             "\u0301", "\u00a0", "\u2028", "\u3000", "\ufeff", "\u00df", "\u4e2d", "\U00010348", "\x7f", "\x01", "n", "t"]


def atoms_small():
    return ([I(n) for n in (0, 1, -1, 2, MAX, MIN)] +
            [F(x) for x in (0.0, 1.0, 1.5, -1.5, 0.1, 2.0)] +
            [S(s) for s in ("", "a", "b", "A", "ab", "ba", "a\\", "\\", "é", "1", "1.0", "\n", "True", "a\"")] +
            [TRUE, FALSE, UNIT, NONE, E("BRed"), E("BNone")])


def c13_pool():
    """~300 literal values of depth <= 3 with many near-misses (same shape, one difference; same
    elements in another container; same printed digits in another type; dict written in another order
    or with an overwritten key)."""
    a = atoms_small()
    out = list(a)
    lvl1 = []
    base = [I(0), I(1), I(2), F(1.0), F(1.5), S(""), S("a"), S("b"), TRUE, FALSE, NONE, UNIT]
    for x in base:
        lvl1 += [L(x), T(x), SOME(x), OK(x), ERR(x), BOX(x), E("BSome", x), D(("a", x)), D(("b", x))]
    lvl1 += [L(), T(), D(),
             L(I(1), I(2)), L(I(2), I(1)), L(I(1), I(2), I(3)), L(I(1), I(1)), L(I(1), F(2.0)), L(F(1.0), F(2.0)),
             L(S("a"), S("b")), L(S("b"), S("a")), L(S("ab")), L(S("a"), S("")),
             T(I(1), I(2)), T(I(2), I(1)), T(I(1), I(2), I(3)), T(I(1), S("a")), T(S("a"), I(1)), T(F(1.5), F(1.5)),
             D(("a", I(1)), ("b", I(2))), D(("b", I(2)), ("a", I(1))), D(("a", I(0)), ("a", I(1))),
             D(("a", I(1)), ("b", I(3))), D(("a", I(1)), ("c", I(2))), D(("a", F(1.5))), D(("a", F(2.5))),
             D(("", I(1))), D(("A", I(1))), D(("a", I(1)), ("b", I(2)), ("c", I(3))),
             PT(1, 2), PT(2, 1), PT(1, 1), PT(0, 0), PATH(""), PATH("a"), PATH("b"), PATH("/tmp/x"),
             E("BGreen", I(1)), E("BGreen", I(2)), E("BBlue", S("a")), E("BBlue", S("1")),
             REC("a", [], None), REC("a", ["t"], None), REC("a", [], 1), REC("b", [], None), REC("a", ["t", "u"], 2)]
    out += lvl1
    lvl2 = []
    seeds = [L(I(1)), L(I(2)), L(), T(I(1), I(2)), SOME(I(1)), SOME(F(1.5)), NONE, D(("a", I(1))), D(), PT(1, 2),
             OK(S("a")), ERR(S("a")), BOX(I(1)), L(F(1.5)), T(S("a"),)]
    for x in seeds:
        lvl2 += [L(x), SOME(x), BOX(x), D(("k", x)), T(x, I(0))]
    lvl2 += [L(L(I(1)), L(I(2))), L(L(I(2)), L(I(1))), L(L(I(1), I(2))), L(L(), L()), L(L()),
             L(SOME(I(1)), NONE), L(NONE, SOME(I(1))), L(T(I(0), S("a")), T(I(1), S("b"))),
             D(("a", L(I(1))), ("b", L())), D(("b", L()), ("a", L(I(1)))), D(("a", D(("a", I(1))))),
             T(L(I(1)), D(("a", F(1.5)))), OK(T(I(1), I(2))), ERR(L(S("e"))), SOME(SOME(NONE)), SOME(NONE),
             BOX(PT(1, 2)), BOX(PT(2, 1)), L(PT(1, 2), PT(1, 2)), L(PATH("a")), SOME(PATH("a")), SOME(PATH("b"))]
    out += lvl2
    lvl3 = []
    for x in (L(L(I(1))), SOME(L(I(1))), D(("k", L(I(1)))), BOX(L(F(1.5))), T(L(I(1)), I(0)), L(D(("a", I(1)))),
              L(D(("a", I(2)))), SOME(SOME(I(1))), SOME(SOME(I(2))), OK(SOME(F(1.5)))):
        lvl3 += [L(x), SOME(x), D(("z", x), ("y", x))]
    out += lvl3
    # dedupe by source text (not by canon: equal-but-differently-written values must both stay)
    seen, res = set(), []
    for v in out:
        k = bval.src(v)
        if k not in seen:
            seen.add(k)
            res.append(v)
    return res


# ----------------------------------------------------------------------------- random values

def rand_string(rng, maxlen=12, alpha=None):
    k = rng.random()
    n = 0 if k < 0.08 else rng.randint(1, maxlen)
    alpha = alpha or (STR_ALPHA * 3 + STR_EXTRA)
    cs = []
    for _ in range(n):
        if rng.random() < 0.06:
            while True:
                cp = rng.choice([rng.randint(0x20, 0x7e), rng.randint(0xa0, 0x2fff), rng.randint(0x3000, 0xd7ff),
                                 rng.randint(0xe000, 0xfffd), rng.randint(0x10000, 0x10ffff)])
                if not (0xd800 <= cp <= 0xdfff):
                    break
            cs.append(chr(cp))
        else:
            cs.append(rng.choice(alpha))
    s = "".join(cs)
    if rng.random() < 0.12:
        s += "\\" * rng.randint(1, 3)
    return s


def rand_int(rng):
    k = rng.random()
    if k < 0.3:
        return rng.choice(INT_EDGE)
    if k < 0.6:
        return rng.randint(-100, 100)
    v = rng.getrandbits(rng.randint(1, 63))
    return -v if rng.random() < 0.5 else v


def rand_float(rng):
    k = rng.random()
    if k < 0.3:
        return rng.choice(FLOAT_EDGE)
    if k < 0.6:
        return round(rng.uniform(-1000, 1000), rng.randint(0, 6)) or 1.0
    while True:
        x = struct.unpack("<d", struct.pack("<Q", rng.getrandbits(64)))[0]
        if math.isfinite(x) and x != 0:
            return x


def rand_value(rng, depth=3, floats=True, user=True):
    k = rng.random()
    if depth <= 0 or k < 0.38:
        j = rng.random()
        if j < 0.25:
            return I(rand_int(rng))
        if j < 0.4 and floats:
            return F(rand_float(rng))
        if j < 0.75:
            return S(rand_string(rng))
        return rng.choice([TRUE, FALSE, UNIT, NONE] + ([E("BRed"), E("BNone")] if user else []))
    d = depth - 1
    sub = lambda: rand_value(rng, d, floats, user)
    if k < 0.52:
        return L(*[sub() for _ in range(rng.choice([0, 1, 1, 2, 2, 3, 4]))])
    if k < 0.62:
        return T(*[sub() for _ in range(rng.choice([1, 2, 2, 3]))])
    if k < 0.74:
        n = rng.choice([0, 1, 1, 2, 3])
        return D(*[(rand_string(rng, 4), sub()) for _ in range(n)])
    if k < 0.86:
        return rng.choice([SOME, OK, ERR] + ([lambda v: E("BSome", v)] if user else []))(sub())
    if not user:
        return PATH(rand_string(rng, 6))
    j = rng.random()
    if j < 0.25:
        return PT(rand_int(rng), rand_int(rng))
    if j < 0.5:
        return BOX(sub())
    if j < 0.6:
        return PATH(rand_string(rng, 6))
    if j < 0.75:
        return E("BGreen", I(rand_int(rng)))
    if j < 0.85:
        return E("BBlue", S(rand_string(rng, 5)))
    return REC(rand_string(rng, 5), [rand_string(rng, 3) for _ in range(rng.randint(0, 2))],
               rng.choice([None, rand_int(rng)]))


def mutate(rng, v, typed=False):
    """A value that differs from v in exactly one place (or, rarely, is an equal rewrite).
    typed: keep the static type of v (used inside fields of structs with declared field types)."""
    t = v[0]
    if t == "int":
        if typed or rng.random() < 0.8:
            return I(v[1] + 1 if v[1] < MAX else v[1] - 1)
        return F(float(v[1] % 1000))
    if t == "float":
        return F(v[1] * 2 if abs(v[1]) < 1e300 else 1.0) if v[1] != 0 else F(1.0)
    if t == "str":
        k = rng.random()
        if k < 0.4:
            return S(v[1] + rng.choice(STR_ALPHA))
        if k < 0.7 and v[1]:
            i = rng.randrange(len(v[1]))
            return S(v[1][:i] + v[1][i + 1:])
        return S(rng.choice(STR_ALPHA) + v[1])
    if t in ("list", "tuple"):
        items = list(v[1])
        k = rng.random()
        if items and k < 0.5:
            i = rng.randrange(len(items))
            items[i] = mutate(rng, items[i], typed)
        elif items and k < 0.65 and not (t == "tuple" and (len(items) == 1 or typed)):
            items.pop(rng.randrange(len(items)))
        elif len(items) >= 2 and k < 0.8 and not (typed and t == "tuple"):
            i = rng.randrange(len(items) - 1)
            items[i], items[i + 1] = items[i + 1], items[i]
        elif typed:
            if not items or t == "tuple":
                return v if t == "tuple" else ["list", items]
            items.append(items[-1])
        else:
            items.append(I(0))
        if t == "list" and not typed and rng.random() < 0.1:
            return ["tuple", items] if items else ["list", items + [UNIT]]
        return [t, items]
    if t == "dict":
        items = [list(p) for p in v[1]]
        k = rng.random()
        if items and k < 0.4:
            i = rng.randrange(len(items))
            items[i][1] = mutate(rng, items[i][1], typed)
        elif items and k < 0.6:
            i = rng.randrange(len(items))
            items[i][0] = items[i][0] + "x"
        elif len(items) >= 2 and k < 0.8:
            rng.shuffle(items)          # equal rewrite (unless keys repeat)
        elif typed:
            if items:
                items.append(["zz", items[-1][1]])
        else:
            items.append(["zz", I(0)])
        return ["dict", items]
    if t == "enum":
        if v[2] is None:
            if typed:
                return {"True": FALSE, "False": TRUE, "None": NONE, "Unit": UNIT, "BRed": E("BGreen", I(0)),
                        "BNone": E("BNone")}.get(v[1], v)
            return rng.choice([x for x in (TRUE, FALSE, UNIT, NONE, E("BRed"), E("BNone")) if x[1] != v[1]])
        if rng.random() < 0.25:
            if typed:
                if v[1] in ("Some", "BSome"):
                    return NONE if v[1] == "Some" else E("BNone")
            else:
                other = {"Some": "BSome", "BSome": "Some", "Ok": "Err", "Err": "Ok"}.get(v[1])
                if other:
                    return E(other, v[2])
        return E(v[1], mutate(rng, v[2], typed))
    if t == "struct":
        fields = [list(p) for p in v[2]]
        i = rng.randrange(len(fields))
        fields[i][1] = mutate(rng, fields[i][1], typed or v[1] != "BBox")
        return ["struct", v[1], fields]
    return v


# ----------------------------------------------------------------------------- other ways to build the same value

def alt_src(rng, v, depth=0, typed=False):
    """Source that builds a value equal to v through operations instead of one literal.
    typed: inside a struct field with a declared type - avoid forms whose inferred element type differs."""
    t = v[0]
    k = rng.random()
    if t == "int":
        n = v[1]
        if k < 0.3 and MIN < n < MAX:
            return "(%d + 1)" % (n - 1)
        if k < 0.4:
            return "b_id(%d)" % n
        return str(n)
    if t == "float":
        if k < 0.3:
            return "b_id(%s)" % bval.float_src(v[1])
        if k < 0.45 and v[1] == int(v[1]) and abs(v[1]) < 1e15:
            return "%d.as_float()" % int(v[1])
        return bval.float_src(v[1])
    if t == "str":
        s = v[1]
        if k < 0.35 and len(s) >= 1:
            i = rng.randrange(len(s) + 1)
            return "(%s ^ %s)" % (bval.str_src(s[:i], safe=False), bval.str_src(s[i:], safe=False))
        if k < 0.5:
            return "%s.substring(1, %d)" % (bval.str_src("q" + s + "q", safe=False), len(s) + 1)
        if k < 0.6:
            return '"".join(%s)' % ("[" + ", ".join(bval.str_src(c, safe=False) for c in s) + "]")
        return bval.str_src(s, safe=False)
    if t == "list":
        items = [alt_src(rng, x, depth + 1, typed) for x in v[1]]
        if typed and k >= 0.45:
            return "[%s]" % ", ".join(items)
        if k < 0.3:
            return "[]" + "".join(".append(%s)" % x for x in items)
        if k < 0.45:
            i = rng.randrange(len(items) + 1)
            return "[%s].concat([%s])" % (", ".join(items[:i]), ", ".join(items[i:]))
        if k < 0.6:
            return "[0, %s].slice(1, %d)" % (", ".join(items), len(items) + 1) if items else "[0].slice(1, 1)"
        if k < 0.7:
            return "[%s].map(fun(b_x) { b_x })" % ", ".join(items)
        return "[%s]" % ", ".join(items)
    if t == "tuple":
        items = [alt_src(rng, x, depth + 1, typed) for x in v[1]]
        body = "(%s,)" % items[0] if len(items) == 1 else "(%s)" % ", ".join(items)
        return "b_id(%s)" % body if k < 0.3 else body
    if t == "dict":
        pairs = [(bval.str_src(kk, safe=False), alt_src(rng, x, depth + 1, typed)) for kk, x in v[1]]
        if k < 0.4:
            return "Dict[]" + "".join(".set(%s, %s)" % p for p in pairs)
        if k < 0.55:
            return "Dict[\"b_gone\" => 0, %s].remove(\"b_gone\")" % ", ".join("%s => %s" % p for p in pairs) \
                if all(kk != "b_gone" for kk, _ in v[1]) and pairs else "Dict[%s]" % ", ".join("%s => %s" % p for p in pairs)
        return "Dict[%s]" % ", ".join("%s => %s" % p for p in pairs)
    if t == "enum":
        if v[2] is None:
            return "b_id(%s)" % v[1] if k < 0.3 else v[1]
        inner = alt_src(rng, v[2], depth + 1, typed)
        if k < 0.25:
            return "b_id(%s(%s))" % (v[1], inner)
        if k < 0.4 and v[1] == "Some":
            return "[%s].first()" % inner
        return "%s(%s)" % (v[1], inner)
    if t == "struct":
        body = "%s{ %s }" % (v[1], ", ".join("%s: %s" % (f, alt_src(rng, x, depth + 1, typed or v[1] != "BBox")) for f, x in v[2]))
        return "b_id(%s)" % body if k < 0.3 else body
    raise ValueError(v)


def strings_exhaustive(maxlen=3, alpha=None):
    alpha = alpha or STR_ALPHA
    for n in range(maxlen + 1):
        for t in itertools.product(alpha, repeat=n):
            yield "".join(t)
