"""Hostile source-text generators shared by the front-end monitors (C01, C18, C23; LSP groups may import it).

Everything is deterministic in the `random.Random` instance that is passed in. Public API:

    corpus_files(repo=None)         -> [(relative path, text)]   every .gdn under the repository (footer cut)
    soup(rng, n=None)               -> str   Unicode soup over a weighted alphabet
    token_soup(rng, n=None)         -> str   random sequence of real lexemes with random spacing
    tokens(src)                     -> [(start, end, kind)]   approximate lexer (only used to pick mutation points)
    mutate(rng, src, ops=None)      -> str   token-level delete / duplicate / swap / replace / insert
    truncate(rng, src)              -> str   cut at a random token boundary
    truncations(src, limit=None)    -> iterator of every token-boundary prefix (shortest first)
    unbalance(rng, src)             -> str   delete / insert / swap a delimiter
    splice_nonascii(rng, src)       -> str   insert multi-byte characters anywhere
    swap_whitespace(rng, src)       -> str   replace ASCII whitespace by Unicode whitespace (and CR / CRLF)
    multiline_strings(rng, src)     -> str   put newlines and non-ASCII inside string literals
    nest(rng, k, kind=None)         -> str   one construct nested k times
    snippet(rng)                    -> str   a small well-formed program from templates
    texts(rng, n, corpus=None, classes=None, max_len=...) -> iterator of (class name, text)
    sanitize(text)                  -> str   valid UTF-8-encodable text without a reftest footer marker

No function here knows anything about what garden *should* do with the text: this module only produces
inputs; verdicts belong to the monitors.
"""
import os
import re

KEYWORDS = ["let", "fun", "enum", "struct", "import", "if", "else", "while", "return", "test", "match",
            "break", "continue", "for", "in", "assert", "as", "method", "public", "shared", "try", "catch"]
TWO_CHAR = ["==", "!=", ">=", "<=", "&&", "||", "+=", "-=", "**", "+.", "-.", "*.", "/.", "=>", "::"]
ONE_CHAR = list("+-*/%^=<>&|(){},[].:")
OPENERS = "([{"
CLOSERS = ")]}"
IDENTS = ["x", "y", "foo", "bar", "_", "__x", "i", "n", "self", "it", "acc", "True", "False", "None", "Some", "Ok",
          "Err", "Unit", "Int", "String", "List", "Option", "Result", "Float", "Tuple", "Fun", "Dict", "T", "U",
          "println", "print", "dbg", "error", "todo", "len", "get", "append", "map", "NoValue", "Foo", "Bar",
          "__placeholder", "__BUILTIN_IMPLEMENTATION", "lines", "x1", "a_b", "A1"]
NUMBERS = ["0", "1", "2", "10", "-1", "-0", "007", "1_000", "1__0", "9223372036854775807", "-9223372036854775808",
           "9223372036854775808", "99999999999999999999", "1.5", "-0.0", "0.1", "1_0.0_1", "1.", "1e5", "0x10",
           "1.5.2", "1._5", "123456789.123456789", "1.7976931348623157e308",
           "179769313486231570000000000000000000000000000000000000000000000000000000000000000000000000000000000000000"
           "00000000000000000000000000000000000000000000000000000000000000000000000000000000000000000000000000000000000"
           "000000000000000000000000000000000000000000000000000000000000000000000000000000000000000000000000000.0"]
STRINGS = ['""', '"a"', '"a b"', '"\\n"', '"\\\\"', '"\\""', '"\\q"', '"{x}"', '"\\', '"abc', '"a\nb"', '"\n"',
           '"\n\n  x\n"', '"é"', '"日本"', '"\U0001F600"', '"a\\', '"//"', '"// args: "', '"a\tb"', '"\r\n"',
           '"\\u{1F600}"', '"\\x41"', '"\'"', "'a'", "'", '" "', '"é"']
COMMENTS = ["// c\n", "//\n", "/// doc\n", "///\n", "// é ü 日本\n", "//// four\n", "// \t trailing  \n", "//x",
            "// \U0001F600\n", "/// doc é\n/// more\n", "//\r\n", "/* c */", "#!shebang\n", "# x\n"]

UNI_WS = [" ", " ", "　", "﻿", " ", " ", "\u0085", "​", " ", " ",
          "\u000b", "\u000c", " ", " ", "᠎", "⁠"]
ASCII_WS = [" ", " ", " ", "\n", "\n", "\t", "  ", "\n\n", "\r\n", "\r", "\n  ", "\n\n\n", " \n"]
NONASCII = ["é", "ü", "ß", "ñ", "λ", "π", "Ж", "я", "א", "ع", "日", "本", "語", "한", "ก", "€", "→", "∀", "≠", "×", "÷",
            "“", "”", "‘", "’", "«", "…", "·", "¬", "°", "\U0001F600", "\U0001F468‍\U0001F469", "\U00010000",
            "\U0010FFFF", "́", "̈", "⃣", "️", "‍", "­", "￿", "�", "\u0000",
            "\u0001", "\u007f", "\u0080", "߿", "ࠀ", "ａ", "１", "＋", "（", "）", "｛", "＂", "Ⅻ", "²", "٣",
            "𝐱", "𝟏", "ª", "ǅ", "ı", "İ", "ſ", "K"]


# --------------------------------------------------------------------------- corpus

_CORPUS = {}
FOOTER = "// args: "


def cut_footer(text):
    """Cut a reftest footer (`// args: ...` and everything after it), as the CLI itself does for some
    subcommands; keeps the rest byte-for-byte."""
    out = []
    for line in text.splitlines(True):
        if line.startswith(FOOTER):
            break
        out.append(line)
    return "".join(out)


def sanitize(text):
    """Make `text` safe to hand to every front-end entry point alike: encodable as UTF-8 (no lone
    surrogates) and without a line that starts with the reftest footer marker (the `format` and
    refactoring subcommands cut the file there, the in-process entry points do not)."""
    if FOOTER in text:
        text = re.sub(r"(?m)^// args: ", "// argz: ", text)
        if text.startswith(FOOTER):
            text = "// argz: " + text[len(FOOTER):]
    try:
        text.encode("utf-8")
    except UnicodeEncodeError:
        text = text.encode("utf-8", "replace").decode("utf-8")
    return text


def corpus_files(repo=None, max_bytes=400000, optional_dirs=True):
    """Every .gdn file under `repo` (default: the tree under verification) as (relative path, text).
    Skips the cargo target dir, non-UTF-8 files and files above max_bytes. Sorted, cached per repo."""
    if repo is None:
        from .. import core
        repo = core.REPO
    key = (repo, max_bytes, optional_dirs)
    if key in _CORPUS:
        return _CORPUS[key]
    out = []
    for root, dirs, files in os.walk(repo):
        dirs[:] = sorted(d for d in dirs if d not in ("target", ".git", "node_modules"))
        if not optional_dirs and os.path.relpath(root, repo).split(os.sep)[0] in ("website", "benchmarks"):
            continue
        for f in sorted(files):
            if not f.endswith(".gdn"):
                continue
            p = os.path.join(root, f)
            try:
                if os.path.getsize(p) > max_bytes:
                    continue
                with open(p, "rb") as fh:
                    text = fh.read().decode("utf-8")
            except (OSError, UnicodeDecodeError):
                continue
            out.append((os.path.relpath(p, repo), sanitize(cut_footer(text))))
    if optional_dirs:
        out.extend(_website_blocks(repo))
    _CORPUS[key] = out
    return out


def _website_blocks(repo):
    out = []
    d = os.path.join(repo, "website")
    if not os.path.isdir(d):
        return out
    for f in sorted(os.listdir(d)):
        if not f.endswith(".md"):
            continue
        try:
            text = open(os.path.join(d, f), encoding="utf-8").read()
        except (OSError, UnicodeDecodeError):
            continue
        for i, m in enumerate(re.finditer(r"```[a-z]*\n(.*?)```", text, re.S)):
            body = m.group(1)
            if body.strip():
                out.append(("website/%s#%d" % (f, i), sanitize(body)))
    return out


# --------------------------------------------------------------------------- approximate lexer

_TOK = re.compile(r"""
    (?P<comment>//[^\n]*\n?)
  | (?P<ws>\s+)
  | (?P<str>"(?:\\"|[^"])*(?:"|\Z))
  | (?P<num>-?[0-9][0-9_]*(?:\.[0-9][0-9_]*)?)
  | (?P<op2>==|!=|>=|<=|&&|\|\||\+=|-=|\*\*|\+\.|-\.|\*\.|/\.|=>|::)
  | (?P<sym>[a-zA-Z_][a-zA-Z0-9_]*)
  | (?P<op1>[-+*/%^=<>&|(){},\[\].:])
  | (?P<other>.)
""", re.X | re.S)


def tokens(src):
    """Approximate token spans [(start, end, kind)] in *character* offsets, whitespace and comments included.
    Deliberately simple: it only chooses where mutations cut."""
    return [(m.start(), m.end(), m.lastgroup) for m in _TOK.finditer(src)]


def code_tokens(src):
    return [t for t in tokens(src) if t[2] not in ("ws",)]


# --------------------------------------------------------------------------- primitive generators

def _wchoice(rng, table):
    total = sum(w for w, _ in table)
    x = rng.random() * total
    for w, v in table:
        x -= w
        if x <= 0:
            return v
    return table[-1][1]


def rand_lexeme(rng):
    k = rng.random()
    if k < 0.20:
        return rng.choice(KEYWORDS)
    if k < 0.42:
        return rng.choice(IDENTS)
    if k < 0.62:
        return rng.choice(ONE_CHAR)
    if k < 0.70:
        return rng.choice(TWO_CHAR)
    if k < 0.80:
        return rng.choice(NUMBERS)
    if k < 0.90:
        return rng.choice(STRINGS)
    if k < 0.94:
        return rng.choice(COMMENTS)
    if k < 0.97:
        return rng.choice(NONASCII)
    return rng.choice(UNI_WS)


def rand_space(rng, hostile=0.03):
    if rng.random() < hostile:
        return rng.choice(UNI_WS)
    k = rng.random()
    if k < 0.25:
        return ""
    return rng.choice(ASCII_WS)


def soup(rng, n=None):
    """Unicode soup: characters and short lexemes drawn from a weighted alphabet."""
    if n is None:
        n = _wchoice(rng, [(5, rng.randint(1, 6)), (5, rng.randint(6, 40)), (2, rng.randint(40, 400))])
    out = []
    for _ in range(n):
        k = rng.random()
        if k < 0.30:
            out.append(rng.choice(ONE_CHAR))
        elif k < 0.40:
            out.append(rng.choice('"\\\n\t\r /#\'`@$?!;~'))
        elif k < 0.50:
            out.append(rng.choice("abcxyzXYZ_0123456789"))
        elif k < 0.58:
            out.append(rng.choice(KEYWORDS))
        elif k < 0.66:
            out.append(" ")
        elif k < 0.78:
            out.append(rng.choice(NONASCII))
        elif k < 0.86:
            out.append(rng.choice(UNI_WS))
        elif k < 0.90:
            out.append(rng.choice(TWO_CHAR))
        elif k < 0.94:
            out.append("\n")
        elif k < 0.97:
            out.append(chr(rng.choice([rng.randint(0, 0x7f), rng.randint(0x80, 0x7ff), rng.randint(0x800, 0xd7ff),
                                       rng.randint(0xe000, 0xffff), rng.randint(0x10000, 0x10ffff)])))
        else:
            out.append(rng.choice(["//", "///", "\"", "\\\"", "{", "}"]))
    return "".join(out)


def token_soup(rng, n=None):
    """Random sequence of real lexemes with random spacing."""
    if n is None:
        n = _wchoice(rng, [(4, rng.randint(1, 4)), (6, rng.randint(4, 25)), (2, rng.randint(25, 200))])
    out = []
    for _ in range(n):
        out.append(rand_lexeme(rng))
        out.append(rand_space(rng))
    return "".join(out)


# --------------------------------------------------------------------------- small well-formed programs

_EXPRS = ["1", "x", "\"s\"", "[1, 2]", "f(x)", "x.len()", "(1, 2)", "Some(1)", "x + 1", "a && b", "p.x", "None",
          "fun(a) { a }", "Foo{ x: 1 }", "[]", "()", "-1", "1.5", "\"a\nb\"", "\"é\"", "f()", "x.y.z", "a::b",
          "if c { 1 } else { 2 }", "match v { Some(q) => q None => 0 }", "[1, [2, [3]]]", "x == y", "\"{x}\""]
_STMTS = ["let {i} = {e}", "let {i}: Int = {e}", "let ({i}, y) = {e}", "{i} = {e}", "{i} += {e}", "{e}", "return {e}",
          "assert({e})", "if {e} {{ {s} }}", "if {e} {{ {s} }} else {{ {s} }}", "while {e} {{ {s} }}",
          "for {i} in {e} {{ {s} }}", "for ({i}, j) in {e} {{ {s} }}", "match {e} {{ Some({i}) => {e}, None => {e} }}",
          "match {e} {{ _ => {{ {s} }} }}", "try {{ {s} }} catch err {{ {s} }}", "break", "continue",
          "{e}.foo({e}, {e})", "f({e}\n, {e})", "{{ {s} }}", "return", "// c\n{e}", "{e} // t", "let {i} = fun() {{ {s} }}"]
_ITEMS = ["fun {i}() {{ {s} }}", "fun {i}(a: Int, b: List<Int>): Int {{ {s}\n{s} }}", "fun {i}<T>(a: T): T {{ a }}",
          "public fun {i}(a) {{\n  {s}\n}}", "method {i}(this: Foo) {{ {s} }}", "public method {i}(this: List<T>, n: Int): T {{ {s} }}",
          "test {i} {{ {s} }}", "enum {I} {{ A, B(Int), C(List<{I}>) }}", "public enum {I}<T> {{\n  A(T),\n  B,\n}}",
          "struct {I} {{ x: Int, y: String }}", "public struct {I}<T> {{\n  /// doc\n  x: T,\n}}", "import \"./foo.gdn\"",
          "import \"./foo.gdn\" as f", "/// Doc é.\nfun {i}() {{}}", "{s}", "{s}", "// comment\n", "shared fun {i}() {{}}"]


def _fill(rng, tpl, depth=0):
    def e():
        x = rng.choice(_EXPRS)
        if depth < 2 and rng.random() < 0.3:
            x = rng.choice(["(%s)", "[%s]", "f(%s)", "%s + 1", "%s.m()", "Some(%s)", "!%s", "%s\n  .m()", "1 -\n%s"]) % x
        return x

    def s():
        if depth >= 2:
            return e()
        return _fill(rng, rng.choice(_STMTS), depth + 1)

    out = []
    i = 0
    while i < len(tpl):
        if tpl.startswith("{{", i):
            out.append("{")
            i += 2
        elif tpl.startswith("}}", i):
            out.append("}")
            i += 2
        elif tpl.startswith("{e}", i):
            out.append(e())
            i += 3
        elif tpl.startswith("{s}", i):
            out.append(s())
            i += 3
        elif tpl.startswith("{i}", i):
            out.append(rng.choice(["x", "y", "foo", "bar_1", "_", "n"]))
            i += 3
        elif tpl.startswith("{I}", i):
            out.append(rng.choice(["Foo", "Bar", "T1"]))
            i += 3
        else:
            out.append(tpl[i])
            i += 1
    return "".join(out)


def snippet(rng, items=None):
    """A small program built from templates (mostly well-formed; badly indented on purpose)."""
    n = items or rng.randint(1, 4)
    parts = []
    for _ in range(n):
        parts.append(_fill(rng, rng.choice(_ITEMS)))
        parts.append(rng.choice(["\n", "\n\n", "\n\n\n", " ", "\n  ", ""]))
    src = "".join(parts)
    if rng.random() < 0.4:
        src = respace(rng, src)
    return src


def respace(rng, src, p=0.15):
    """Change the whitespace between tokens (never inside strings or comments)."""
    out = []
    for a, b, k in tokens(src):
        t = src[a:b]
        if k == "ws" and rng.random() < p:
            t = rng.choice(["", " ", "  ", "\n", "\n\n", "\t", "\n    ", "\n\n\n\n", " \n", "\r\n"])
        elif k not in ("ws", "comment") and rng.random() < p / 3:
            t = t + rng.choice([" ", "\n", "  ", "\n\t"])
        out.append(t)
    return "".join(out)


# --------------------------------------------------------------------------- mutations

def _pick_code_token(rng, toks):
    code = [t for t in toks if t[2] != "ws"]
    return rng.choice(code) if code else None


def mutate(rng, src, ops=None):
    """Apply `ops` (default 1-3) random token-level edits."""
    if ops is None:
        ops = _wchoice(rng, [(6, 1), (3, 2), (1, 3), (1, rng.randint(4, 8))])
    for _ in range(ops):
        toks = tokens(src)
        if not toks:
            return src + rand_lexeme(rng)
        t = _pick_code_token(rng, toks) or rng.choice(toks)
        a, b, _k = t
        k = rng.random()
        if k < 0.22:      # delete
            src = src[:a] + src[b:]
        elif k < 0.36:    # duplicate
            src = src[:b] + rng.choice(["", " "]) + src[a:b] + src[b:]
        elif k < 0.50:    # swap with another token
            u = _pick_code_token(rng, toks) or t
            (a1, b1, _), (a2, b2, _) = sorted([t, u])
            if b1 <= a2:
                src = src[:a1] + src[a2:b2] + src[b1:a2] + src[a1:b1] + src[b2:]
        elif k < 0.72:    # replace
            src = src[:a] + rand_lexeme(rng) + src[b:]
        elif k < 0.90:    # insert before / after
            at = rng.choice([a, b])
            src = src[:at] + rng.choice(["", " "]) + rand_lexeme(rng) + rng.choice(["", " "]) + src[at:]
        elif k < 0.95:    # delete a range of tokens
            u = _pick_code_token(rng, toks) or t
            lo, hi = min(a, u[0]), max(b, u[1])
            if hi - lo < 400:
                src = src[:lo] + src[hi:]
        else:             # cut inside a token (char level)
            if b - a > 1:
                c = rng.randint(a + 1, b - 1)
                src = src[:c] + rng.choice(["", " ", "\n", rng.choice(NONASCII)]) + src[c:]
    return src


def truncate(rng, src):
    toks = tokens(src)
    if not toks:
        return src
    a, b, _ = rng.choice(toks)
    cut = rng.choice([a, b])
    if rng.random() < 0.1 and b - a > 1:
        cut = rng.randint(a + 1, b - 1)
    return src[:cut]


def truncations(src, limit=None):
    """Every prefix of src that ends at a token boundary (shortest first)."""
    seen = 0
    last = -1
    for a, b, k in tokens(src):
        if k == "ws":
            continue
        for cut in (a, b):
            if cut > last:
                last = cut
                yield src[:cut]
                seen += 1
                if limit and seen >= limit:
                    return


def suffix_cut(rng, src):
    """Drop a prefix: start in the middle of the program."""
    toks = tokens(src)
    if not toks:
        return src
    return src[rng.choice(toks)[0]:]


def unbalance(rng, src):
    toks = [t for t in tokens(src) if t[2] == "op1" and src[t[0]] in OPENERS + CLOSERS]
    k = rng.random()
    if toks and k < 0.45:
        a, b, _ = rng.choice(toks)
        return src[:a] + src[b:]
    if toks and k < 0.65:
        a, b, _ = rng.choice(toks)
        return src[:a] + rng.choice(OPENERS + CLOSERS) + src[b:]
    if toks and k < 0.75:
        a, b, _ = rng.choice(toks)
        return src[:a] + src[a:b] * rng.randint(2, 5) + src[b:]
    allt = tokens(src)
    at = rng.choice(allt)[0] if allt else 0
    return src[:at] + rng.choice(OPENERS + CLOSERS + '"') + src[at:]


def splice_nonascii(rng, src, n=None):
    if n is None:
        n = _wchoice(rng, [(6, 1), (3, 2), (1, rng.randint(3, 10))])
    for _ in range(n):
        k = rng.random()
        if k < 0.6:
            toks = tokens(src)
            at = rng.choice([rng.choice(toks)[0], rng.choice(toks)[1]]) if toks else 0
        else:
            at = rng.randint(0, len(src))
        ch = rng.choice(NONASCII + UNI_WS) if rng.random() < 0.9 else chr(rng.randint(0x80, 0x2fff))
        src = src[:at] + ch + src[at:]
    return src


def swap_whitespace(rng, src, p=None):
    if p is None:
        p = rng.choice([0.02, 0.1, 0.5, 1.0])
    out = []
    hit = False
    for a, b, k in tokens(src):
        t = src[a:b]
        if k == "ws" and rng.random() < p:
            r = rng.random()
            if r < 0.6:
                t = "".join(rng.choice(UNI_WS) if (c == " " and rng.random() < 0.7) else c for c in t)
            elif r < 0.8:
                t = t.replace("\n", rng.choice(["\r\n", "\r", " ", "\u0085", "\n\r", "\u000c\n"]))
            else:
                t = rng.choice(UNI_WS) + t
            hit = True
        out.append(t)
    if not hit:
        at = rng.randint(0, len(src))
        return src[:at] + rng.choice(UNI_WS) + src[at:]
    return "".join(out)


def multiline_strings(rng, src, p=0.5):
    """Put newlines, tabs and non-ASCII inside string literals and comments, so that tokens span lines and
    byte offsets differ from character offsets on every line."""
    out = []
    hit = False
    for a, b, k in tokens(src):
        t = src[a:b]
        if k == "str" and len(t) >= 2 and rng.random() < p:
            body = t[1:-1] if t.endswith('"') and len(t) > 1 else t[1:]
            ins = rng.choice(["\n", "\n\n", "\n  ", "é\n", "\n日本", "\r\n", "\n\t", " \n ", "\U0001F600\n\n}", "\n//x\n", "\n{\n"])
            at = rng.randint(0, len(body))
            if at > 0 and body[at - 1] == "\\":
                at -= 1
            t = '"' + body[:at] + ins + body[at:] + ('"' if t.endswith('"') and len(t) > 1 else "")
            hit = True
        elif k == "comment" and rng.random() < p / 2:
            nl = "\n" if t.endswith("\n") else ""
            t = t.rstrip("\n") + rng.choice([" é", " 日本語", " \U0001F600", "\t", "  "]) + nl
            hit = True
        elif k == "sym" and rng.random() < 0.03:
            t = '"' + rng.choice(["a\nb", "\n", "é\nü\n"]) + '"'
            hit = True
        out.append(t)
    if not hit:
        toks = tokens(src)
        at = rng.choice(toks)[0] if toks else 0
        return src[:at] + rng.choice(['"a\nb" ', '"\né" ', 'let s = "x\n\n  y"\n']) + src[at:]
    return "".join(out)


# --------------------------------------------------------------------------- deep nesting

NEST_KINDS = ["paren", "list", "block", "if", "call", "method_chain", "binop", "binop_right", "hint", "funlit", "match",
              "else_if", "dot", "tuple", "unclosed_paren", "unclosed_brace", "unclosed_list", "closers", "not_chain",
              "struct_lit", "dict", "while", "long_line", "many_items", "many_args", "many_comments", "string_big",
              "ns", "try", "assign", "let_chain", "index"]


def nest(rng, k, kind=None):
    """One construct nested (or repeated) k times."""
    kind = kind or rng.choice(NEST_KINDS)
    if kind == "paren":
        return "(" * k + "1" + ")" * k
    if kind == "list":
        return "[" * k + "]" * k
    if kind == "tuple":
        return "(" * k + "1," + ",)" * k
    if kind == "block":
        return "{ " * k + "1" + " }" * k
    if kind == "if":
        return "if x { " * k + "1" + " }" * k
    if kind == "while":
        return "fun f() { " + "while x { " * k + "1" + " }" * k + " }"
    if kind == "call":
        return "f(" * k + "1" + ")" * k
    if kind == "method_chain":
        return "x" + ".m()" * k
    if kind == "dot":
        return "x" + ".y" * k
    if kind == "ns":
        return "x" + "::y" * k
    if kind == "binop":
        return "1" + " + 1" * k
    if kind == "binop_right":
        return "1 + (" * k + "1" + ")" * k
    if kind == "hint":
        return "fun f(x: " + "List<" * k + "Int" + ">" * k + ") {}"
    if kind == "funlit":
        return "fun() { " * k + "1" + " }" * k
    if kind == "match":
        return "match x { A => " * k + "1" + " }" * k
    if kind == "else_if":
        return "if x { 1 }" + " else if x { 1 }" * k + " else { 2 }"
    if kind == "unclosed_paren":
        return "(" * k
    if kind == "unclosed_brace":
        return "{" * k
    if kind == "unclosed_list":
        return "[" * k
    if kind == "closers":
        return rng.choice(")]}") * k
    if kind == "not_chain":
        return "x = " * k + "1"
    if kind == "assign":
        return "let x = " * k + "1"
    if kind == "let_chain":
        return "fun f() {\n" + "let x = x\n" * k + "}"
    if kind == "struct_lit":
        return "Foo{ x: " * k + "1" + " }" * k
    if kind == "dict":
        return "[1 => " * k + "1" + "]" * k
    if kind == "try":
        return "try { " * k + "1" + " } catch e { 2 }" * k
    if kind == "index":
        return "x" + "(1)" * k
    if kind == "long_line":
        return "let x = [" + ", ".join(["1"] * k) + "]"
    if kind == "many_items":
        return "".join("fun f%d() { %d }\n" % (i, i) for i in range(k))
    if kind == "many_args":
        return "fun f(" + ", ".join("a%d: Int" % i for i in range(k)) + ") {}"
    if kind == "many_comments":
        return "// c\n" * k + "1"
    if kind == "string_big":
        return '"' + "a\n" * k + '"'
    raise ValueError(kind)


# --------------------------------------------------------------------------- the mix

CLASSES = [
    (10, "soup"), (10, "token_soup"), (14, "corpus_mutation"), (8, "corpus_truncation"), (6, "corpus_unbalance"),
    (8, "corpus_nonascii"), (6, "corpus_unicode_ws"), (8, "corpus_multiline"), (8, "snippet"), (8, "snippet_mutation"),
    (3, "nest"), (3, "corpus_splice"), (3, "corpus_respace"), (2, "corpus_suffix"),
]


def one(rng, cls, corpus, max_len=6000):
    """One text of the given class. `corpus` is a list of (name, text)."""
    def pick():
        if not corpus:
            return snippet(rng)
        for _ in range(8):
            t = rng.choice(corpus)[1]
            if len(t) <= max_len * 4:
                break
        if len(t) > max_len:
            # a window that starts at a line start
            lines = t.splitlines(True)
            i = rng.randrange(len(lines))
            acc, n = [], 0
            while i < len(lines) and n < max_len:
                acc.append(lines[i])
                n += len(lines[i])
                i += 1
            t = "".join(acc)
        return t

    if cls == "soup":
        return soup(rng)
    if cls == "token_soup":
        return token_soup(rng)
    if cls == "snippet":
        return snippet(rng)
    if cls == "snippet_mutation":
        s = snippet(rng)
        f = rng.choice([mutate, truncate, unbalance, splice_nonascii, swap_whitespace, multiline_strings])
        return f(rng, s)
    if cls == "nest":
        k = _wchoice(rng, [(6, rng.randint(1, 20)), (4, rng.randint(20, 200))])
        s = nest(rng, k)
        if rng.random() < 0.3:
            s = mutate(rng, s, 1)
        return s
    src = pick()
    if cls == "corpus_mutation":
        return mutate(rng, src)
    if cls == "corpus_truncation":
        return truncate(rng, src)
    if cls == "corpus_unbalance":
        return unbalance(rng, src)
    if cls == "corpus_nonascii":
        return splice_nonascii(rng, src)
    if cls == "corpus_unicode_ws":
        return swap_whitespace(rng, src)
    if cls == "corpus_multiline":
        s = multiline_strings(rng, src)
        if rng.random() < 0.3:
            s = splice_nonascii(rng, s)
        return s
    if cls == "corpus_splice":
        other = pick()
        ta, tb = tokens(src), tokens(other)
        if not ta or not tb:
            return src + other
        return src[:rng.choice(ta)[0]] + other[rng.choice(tb)[0]:]
    if cls == "corpus_respace":
        return respace(rng, src, p=rng.choice([0.05, 0.3, 1.0]))
    if cls == "corpus_suffix":
        return suffix_cut(rng, src)
    raise ValueError(cls)


def texts(rng, n=None, corpus=None, classes=None, max_len=6000):
    """Yield (class, text) pairs: n of them, or endlessly when n is None."""
    if corpus is None:
        corpus = corpus_files()
    table = classes or CLASSES
    i = 0
    while n is None or i < n:
        cls = _wchoice(rng, table)
        try:
            t = one(rng, cls, corpus, max_len=max_len)
        except (IndexError, ValueError):
            t = soup(rng)
        yield cls, sanitize(t)
        i += 1
