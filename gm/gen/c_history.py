"""Request histories for the JSON session (C09): every request kind and every REPL command, in any state.

A history is a list of steps:
    {"k": "req",  "label": str, "body": dict}        one framed request answered by the evaluation thread
    {"k": "raw",  "label": str, "body": str}         a framed body that is not (valid) JSON / not a request
    {"k": "busy", "label": str, "body": dict}        a non-terminating evaluation followed at once by `interrupt`
    {"k": "interrupt", "label": "interrupt"}         `interrupt` while idle
    {"k": "junk", "label": "junk-line", "line": str} a line without a (well-formed) Content-Length header
    {"k": "rawbytes", "label": str, "hex": str}      a framed body that is not UTF-8
`@S@` stands for the scratch directory. Nothing here touches a path outside it and no input runs a process.
All evaluations terminate on their own except the `busy` ones.
"""
import random

DEFS = [
    "fun vf0() { throw(\"d1\") }",
    "fun vf1(x) { let vl1 = x vf0() }",
    "fun vf2(x) { let vl2 = x + 1 vf1(vl2) }",
    "fun vf3(x) { let vl3 = x * 2 vf2(vl3) + 1 }",
    "fun vok(x: Int): Int { x + 1 }",
    "fun vprint(s: String) { println(s) print(s) }",
    "struct VP { x: Int }",
    "enum VE { VA, VB(Int) }",
    "method vm(this: VP) { this.x }",
    "fun vok2(a: Int, b: Int, c: Int, d: Int): Int { a + d }",
    "struct VP2 { x: Int, y: Int, z: Int }",
    "let vg = 10",
    "import \"__fs.gdn\" as fs",
]

OK_EXPRS = ["1 + 2", "vg", "vok(1)", "\"a\" ^ \"b\"", "[1, 2].len()", "let vtop = 5", "vtop", "vprint(\"hi\")",
            "println(\"h\u00e9llo \u2603 \U0001F600\")", "\"\u00e9\u2603\".len()",
            "VP{ x: 1 }.vm()", "VB(2)", "if True { 1 } else { 2 }", "for vi in [1, 2] { println(string_repr(vi)) }",
            "{ let vb = 1 vb + 1 }", "Unit", "vg = vg + 1", "eprintln(\"e\")", "dbg(3)", "fun(x) { x }",
            "match Some(1) { Some(v) => v None => 0 }", "let vcount = 0 while vcount < 3 { vcount += 1 } vcount",
            "// just a comment", "", "   ", "\n\n", "1 2 3"]

ERR_D0 = ["print(1)", "1 + \"s\"", "vnosuch", "assert(1 == 2)", "if 1 { 2 }", "for vx in 1 { vx }", "match VA { VB(n) => n }",
          "throw(\"top\")", "[1].get(\"x\")", "let vh: Int = \"s\"", "VP{ y: 1 }", "1.x", "fs::vnosuch", "Dict[1 => 2]",
          "let (va, vb) = 1", "1 / 0", "vok(\"s\")", "vok()", "1(2)", "if True { let vin = 1 vnosuch }",
          "while True { let vw = 1 throw(\"w\") }", "for vi in [1, 2] { if vi == 2 { 1 + None } }",
          "match Some(1) { Some(vq) => { vq + \"s\" } None => 0 }", "[1, vnosuch, 3]", "vok(1 + vnosuch)",
          "None.or_throw()", "todo()", "\"\u00e9\u2603\" + 1", "let v\u00e9 = 1", "fun(): VNoTy { 1 }()", "return vnosuch"]
ERR_OPERANDS = ["vok2(10, 20, 1 + \"\", 30)", "[10, 20, vnosuch, 30]", "7 + (8 * (1 + \"s\"))", "VP2{ x: 1, y: 1 + \"\", z: 3 }",
                "vok2(1, \"s\", 3, 4)", "vok2(1, 2, 3, vf0())", "(1, 2, vnosuch)", "for vi in [1, 2] { vok2(vi, 2, 1 + \"\", 4) }",
                "[1, 2].map(fun(x) { vok2(x, 2, None + 1, 4) })", "\"a\".replace(\"b\", 1 + \"\")"]
ERR_D1 = ["vf0()", "vok(vf0())", "VP{ x: \"s\" }.vm()", "[1, 2].map(fun(x) { x + \"s\" })", "fun() { let vc = 1 vnosuch }()"]
ERR_D3 = ["vf2(1)", "vf3(2)", "1 + vf3(3)", "[vf3(1)]", "for vi in [1] { vf2(vi) }"]
PARSE_ERR = ["1 +", "fun (", "let = 3", "\"unterminated", "}", "(((", "fun f( { }", "\u00e9\u00e9 \u2603", "\u00a0", "'", "\\",
             "let x\u00a0= 1", "1 \U0001F600 2", "/* x", "::", "\"\\q\""]
NEW_DEFS = ["fun vnew%d() { %d }", "test vtn%d { assert(%d == %d) }", "struct VS%d { f: Int }", "enum VEn%d { VC%d }",
            "method vmn%d(this: Int) { this + %d }", "fun vok(x: Int): Int { x + %d }", "let vg%d = %d",
            "test vtbad%d { assert(%d == 0 - 1) }", "fun vrec%d(n) { if n < 1 { throw(\"deep\") } else { vrec%d(n - 1) } }"]
BUSY = ["while True {}", "let vloop = 0 while True { vloop += 1 }", "fun vspin() { while True { } } vspin()",
        "for vi in [1, 2, 3] { while True { } }"]

COMMANDS_NOARG = [":abort", ":doc", ":help", ":funs", ":load", ":locals", ":namespace", ":forget", ":forget_calls",
                  ":forget_local", ":fvalues", ":fstmts", ":globals", ":methods", ":namespaces", ":parse", ":replace",
                  ":resume", ":skip", ":stack", ":search", ":source", ":test", ":type", ":types", ":uptime", ":version"]
COMMAND_ARGS = {
    ":doc": ["print", "String::len", "vf1", "fs::read_file", "vnosuch", "VP", "Nosuch::x", "vg::x", "\u00e9"],
    ":help": [":doc", ":skip", ":nosuch", "print", ":trace", ":quit"],
    ":load": ["@S@/nosuch.gdn", "@S@/ok.gdn", "@S@/bad.gdn", "@S@", "\u00e9.gdn"],
    ":namespace": ["other.gdn", "@S@/ok.gdn", "__user.gdn", "\u00e9"],
    ":forget": ["vok", "vnosuch", "vg", "VA", "println", "\u00e9"],
    ":forget_local": ["vl1", "vl2", "vg", "vtop", "vnosuch", "x", "\u2603"],
    ":methods": ["Str", "vm", "zzz", ""],
    ":namespaces": ["x"],
    ":parse": ["1 + 2", "fun f() {}", "1 +", "\u00e9", "\"s", ""],
    ":replace": ["42", "\"s\"", "True", "vg", "vnosuch", "1 +", ")(", "[1]", "fun(x) { x }", "throw(\"r\")", "Some(1)", "\u00e9",
                 "VB(1)", "vf0()"],
    ":search": ["v", "print", "zzz", ""],
    ":source": ["vf1", "String::len", "String::nosuch", "Nosuch::x", "VP", "VE", "print", "vnosuch", "Int", "vg"],
    ":test": ["vt_pass", "vt_fail", "vt_throw", "vnosuch", "vt", "\u00e9"],
    ":type": ["1 + 2", "vg", "vnosuch", "1 +", "vf2(1)", "\"s\"", "throw(\"t\")", "println(\"p\")", "assert(False)", "\u00e9"],
    ":types": ["x"], ":abort": ["now"], ":resume": ["x"], ":skip": ["x"], ":stack": ["x"], ":locals": ["x"],
    ":uptime": ["x"], ":version": ["x"], ":globals": ["x"], ":funs": ["x"], ":fvalues": ["1"], ":fstmts": ["1"],
    ":forget_calls": ["x"],
}
# Loaded (not run) before DEFS, so that failing tests exist without leaving the session in an error state.
TESTS_SRC = "test vt_pass { assert(1 == 1) }\ntest vt_fail { let vtl = 1 assert(vtl == 2) }\ntest vt_throw { vf1(1) }\n"
EXCLUDED = [":quit", ":trace"]   # exits by design / switches stdout to a non-JSON expression trace by design


def run(src, rid=None, **kw):
    d = {"method": "run", "input": src}
    if rid is not None:
        d["id"] = rid
    d.update(kw)
    return d


def scratch_files():
    """name -> content, created in the scratch dir before a history runs."""
    return {"ok.gdn": "fun vloaded() { 1 }\npublic fun vloaded_pub() { 2 }\ntest vt_loaded { assert(True) }\n",
            "bad.gdn": "fun vbroken( {\nlet = \n\u00e9",
            "load_me.gdn": "fun vlm(x) { x }\nlet vlmtop = 3\nvlm(1)\n"}


class Gen:
    def __init__(self, rng):
        self.rng = rng
        self.n = 0
        self.queue = []

    def fresh(self):
        self.n += 1
        return self.n

    def command(self):
        r = self.rng
        name = r.choice(COMMANDS_NOARG)
        variant = r.random()
        label = "cmd:" + name
        if variant < 0.45 or name not in COMMAND_ARGS:
            src = name
        else:
            src = name + " " + r.choice(COMMAND_ARGS[name])
            label += "+arg"
        k = r.random()
        if k < 0.04:
            src = src.upper() if " " not in src else src.split(" ")[0].upper() + " " + src.split(" ", 1)[1]
        elif k < 0.08:
            src = "  " + src + "  "
        elif k < 0.10:
            src = src + " "
        return {"k": "req", "label": label, "body": run(src, self.fresh())}

    def step(self):
        r = self.rng
        if self.queue:
            return self.queue.pop(0)
        k = r.random()
        if k < 0.05:
            # error with operands pending -> idle interrupt -> something that evaluates -> :skip/:replace/:resume run
            first = {"k": "req", "label": "run:err-operands", "body": run(r.choice(ERR_OPERANDS), self.fresh())}
            q = [{"k": "interrupt", "label": "interrupt"}]
            ev = r.choice([":replace 5", ":resume", "1 + 2", ":test vt_pass", ":type vg", ":replace vnosuch"])
            q.append({"k": "req", "label": ("cmd:" + ev.split(" ")[0] + ("+arg" if " " in ev else "")) if ev.startswith(":") else "run:ok",
                      "body": run(ev, self.fresh())})
            for _ in range(r.randint(1, 3)):
                c = r.choice([":skip", ":skip", ":skip", ":replace 7", ":resume"])
                q.append({"k": "req", "label": "cmd:" + c.split(" ")[0] + ("+arg" if " " in c else ""), "body": run(c, self.fresh())})
            self.queue = q
            return first
        if k < 0.08:
            c = r.choice([":skip", ":skip", ":resume", ":replace 7"])
            self.queue = [{"k": "req", "label": "cmd:" + c.split(" ")[0] + ("+arg" if " " in c else ""), "body": run(c, self.fresh())}
                          for _ in range(r.randint(1, 2))]
            return {"k": "interrupt", "label": "interrupt"}
        k = r.random()
        if k < 0.05:
            return {"k": "req", "label": "cmd::test+arg", "body": run(":test " + r.choice(["vt_pass", "vt_pass", "vt_pass", "vt_loaded"]), self.fresh())}
        if k < 0.40:
            return self.command()
        if k < 0.50:
            return {"k": "req", "label": "run:ok", "body": run(r.choice(OK_EXPRS), self.fresh())}
        if k < 0.60:
            return {"k": "req", "label": "run:err-d0", "body": run(r.choice(ERR_D0), self.fresh())}
        if k < 0.64:
            return {"k": "req", "label": "run:err-d1", "body": run(r.choice(ERR_D1), self.fresh())}
        if k < 0.69:
            return {"k": "req", "label": "run:err-d3", "body": run(r.choice(ERR_D3), self.fresh())}
        if k < 0.72:
            return {"k": "req", "label": "run:parse-error", "body": run(r.choice(PARSE_ERR), self.fresh())}
        if k < 0.76:
            n = self.fresh()
            t = r.choice(NEW_DEFS)
            src = t % tuple([n] * t.count("%d"))
            if "vrec" in t:
                src += " vrec%d(%d)" % (n, r.choice([0, 2, 30]))
            return {"k": "req", "label": "run:def", "body": run(src, n)}
        if k < 0.79:
            return {"k": "busy", "label": "busy+interrupt", "body": run(r.choice(BUSY), self.fresh())}
        if k < 0.82:
            return {"k": "interrupt", "label": "interrupt"}
        if k < 0.86:
            return self.load()
        if k < 0.91:
            return self.eval_up_to()
        if k < 0.94:
            return self.run_with_span()
        if k < 0.975:
            return self.malformed()
        if r.random() < 0.3:
            return {"k": "rawbytes", "label": "malformed:non-utf8",
                    "hex": r.choice(["ff", "c328", "7b226d6574686f64223a2272756e222c22696e707574223a22ff227d",
                                     "7b226d6574686f64223a2272756e222c22696e707574223a2231202b2032227dfe", "e282"])}
        return {"k": "junk", "label": "junk-line", "line": r.choice(["hello", "Content-Type: x", "{\"method\":\"run\"}", "\u00e9\u2603",
                                                                     "Content-Length: abc", "Content-Length: -1", "Content-Length: 1.5",
                                                                     "Content-Length: 99999999999999999999999", "Content-Length: ",
                                                                     "content-length: 2"])}

    def load(self):
        r = self.rng
        src = r.choice(["fun vld%d() { 1 }" % self.fresh(), "fun vok(x: Int): Int { x + 2 }\nfun vld() { vok(1) }",
                        "let vtopl = 1\nfun vq() { 2 }", "1 + 2", "fun broken( {", "", "h\u00e9 \u2603", "test vtl { assert(True) }",
                        "import \"__fs.gdn\" as fs\nfun vuse() { fs::working_directory() }", "struct VLS { a: Int }\nmethod vlsm(this: VLS) { this.a }"])
        nbytes = len(src.encode("utf-8"))
        mode = r.random()
        if mode < 0.6:
            off, end = 0, nbytes
        elif mode < 0.8:
            off = r.randint(0, max(0, nbytes // 2))
            end = r.randint(off, nbytes)
        else:
            off, end = r.choice([(0, nbytes + 5), (nbytes, nbytes), (nbytes + 1, nbytes + 2), (3, 1), (1, nbytes)])
        path = r.choice(["@S@/ok.gdn", "@S@/virtual.gdn", "rel.gdn", "__user.gdn", "@S@/d\u00e9.gdn"])
        return {"k": "req", "label": "load" if mode < 0.6 else "load:span", "body": {"method": "load", "input": src, "path": path, "offset": off,
                                                                                      "end_offset": end, "id": self.fresh()}}

    def eval_up_to(self):
        r = self.rng
        src = r.choice(["fun vu(x) { let y = x + 1 y * 2 }\nvu(3)", "let vz = [1, 2]\nvz.len()", "1 + (2 * 3)", "vf2(1)",
                        "test vtu { let q = 1 assert(q == 1) }", "for vi in [1, 2] { vi + 1 }", "vnosuch + 1", "1 +", "",
                        "\"h\u00e9\".len()", "fun vu2() { vf1(1) }\nvu2()", "match Some(2) { Some(v) => v + 1 None => 0 }",
                        "fun vu3(a, b) { a + b }", "method vum(this: Int, o: Int) { this + o }\n1.vum(2)"])
        nbytes = len(src.encode("utf-8"))
        off = r.choice([0, nbytes, nbytes + 3, max(0, nbytes - 1)] + [r.randint(0, max(0, nbytes)) for _ in range(4)])
        body = {"method": "eval_up_to", "src": src, "offset": off, "id": self.fresh()}
        if r.random() < 0.5:
            body["path"] = r.choice(["@S@/ok.gdn", "@S@/virtual.gdn", "rel.gdn"])
        else:
            body["path"] = None
        return {"k": "req", "label": "eval_up_to", "body": body}

    def run_with_span(self):
        r = self.rng
        src = r.choice(["fun va() { 1 }\nfun vb() { 2 }\nva() + vb()", "let q1 = 1 let q2 = q1 + 1 q2", "h\u00e9 1 + 2", "1 + 2"])
        nbytes = len(src.encode("utf-8"))
        off = r.choice([0, 1, nbytes, nbytes + 2, r.randint(0, nbytes)])
        end = r.choice([nbytes, off, nbytes + 4, r.randint(0, nbytes)])
        kw = {}
        if r.random() < 0.8:
            kw["offset"] = off
        if r.random() < 0.8:
            kw["end_offset"] = end
        if r.random() < 0.6:
            kw["path"] = r.choice(["@S@/ok.gdn", "@S@/virtual.gdn", "rel.gdn"])
        return {"k": "req", "label": "run:span", "body": run(src, self.fresh(), **kw)}

    def malformed(self):
        r = self.rng
        body = r.choice(["{", "", " ", "not json", "[]", "null", "42", "\"run\"", "{\"method\":\"nosuch\"}", "{\"method\":\"run\"}",
                         "{\"method\":\"run\",\"input\":1}", "{\"method\":\"run\",\"input\":\"1\",\"id\":-1}",
                         "{\"method\":\"run\",\"input\":\"1\",\"id\":\"x\"}", "{\"method\":\"load\",\"input\":\"1\"}",
                         "{\"method\":\"eval_up_to\"}", "{\"method\":\"run\",\"input\":\"1\"}}", "{\"input\":\"1\"}",
                         "{\"method\":\"RUN\",\"input\":\"1\"}", "{\"method\":\"run\",\"input\":\"\u00e9\u2603\"",
                         "{\"method\":\"interrupt\",\"extra\":}", "\u00e9", "{\"method\":\"run\",\"input\":\"1\",\"offset\":-1}",
                         "{\"method\":\"run\",\"input\":\"1\",\"offset\":1e99}", "\n{\"method\":\"run\",\"input\":\"1\"}\n"])
        return {"k": "raw", "label": "malformed", "body": body}


def setup_steps(g):
    load = {"method": "load", "input": TESTS_SRC, "path": "@S@/session.gdn", "offset": 0,
            "end_offset": len(TESTS_SRC.encode("utf-8")), "id": g.fresh()}
    return [{"k": "req", "label": "run:def", "body": load, "setup": True}] + \
        [{"k": "req", "label": "run:def", "body": run(d, g.fresh()), "setup": True} for d in DEFS]


SCRIPTED = [
    # states named in the property / DESIGN: each command with nothing pending, after errors, after abort, repeated
    [":skip"], [":replace 1"], [":resume"], [":abort"], [":skip", ":skip"], [":replace 1", ":replace 2"],
    ["vf2(1)", ":skip", ":skip", ":skip", ":skip", ":skip", ":skip"],
    ["vf2(1)", ":replace 1", ":replace 2", ":replace 3", ":replace 4", ":replace 5"],
    ["if 1 { 2 }", ":abort", ":resume"], ["if 1 { 2 }", ":resume", ":replace True", ":resume"],
    ["if 1 { 2 } else { 3 }", ":resume", ":resume", ":replace False"],
    ["match VA { VB(n) => n }", ":resume", ":replace VB(1)"], ["for vx in 1 { vx }", ":replace [1, 2]", ":resume"],
    ["for (va, vb) in [1] { va }", ":resume", ":skip", ":resume"], ["vf3(1)", ":abort", ":abort", ":resume", ":skip"],
    ["vf3(1)", "vf3(1)", "vf3(1)", ":stack", ":abort"], ["vf2(1)", ":forget_local vl1", ":forget_local vl1", ":locals", ":resume"],
    ["vf2(1)", "vl1", "vl1 + 1", ":resume", ":resume"], ["vf2(1)", ":type vl1", ":type vnosuch", ":type vf2(1)", ":stack", ":resume"],
    ["vf2(1)", ":test vt_fail", ":test vt_pass", ":stack", ":abort"], [":test vt_fail", ":resume", ":skip", ":resume"],
    [":test vt_throw", ":skip", ":skip", ":skip", ":skip"], ["assert(1 == 2)", ":resume", ":replace True", ":resume"],
    ["assert(1 == 2)", ":skip", ":resume"], ["print(1)", ":replace \"s\"", ":resume"], ["1 + \"s\"", ":replace 2", ":resume"],
    ["vnosuch", ":replace 1"], ["vnosuch + 1", ":skip"], ["vok(\"s\")", ":replace 1", ":resume"], ["vok(\"s\")", ":skip", ":skip"],
    ["let vh: Int = \"s\"", ":replace 1", "vh"], ["[1, vnosuch, 3]", ":replace 2"], ["[1, vnosuch, 3]", ":skip"],
    ["vf2(1)", ":forget vf0", ":resume", ":forget vf1", ":resume"], ["vf2(1)", "fun vf0() { 7 }", ":resume"],
    ["test vtx { vnosuch }", ":resume", ":abort", ":test vtx", ":skip"], ["VP{ x: \"s\" }", ":resume", ":skip"],
    ["Dict[1 => 2]", ":resume", ":skip"], ["fun(): VNoTy { 1 }()", ":resume", ":skip", ":resume"],
    ["verif_none()", ":replace fun() { 1 }", ":resume"], ["return vnosuch", ":resume", ":skip"],
    ["for vi in [1, 2] { let vk = vi vok.vnosuch(1) }", ":skip", ":skip", ":skip"],
    ["for vi in [1, 2] { vok(vi, 1) }", ":skip", ":resume", ":skip"], ["[vf0(), 1]", ":skip", ":skip"],
    # an error that leaves several evaluated operands on the value stack, then an idle interrupt, then a command that
    # evaluates (and is interrupted at its first step), then :skip / :replace / :resume
    ["vok2(10, 20, 1 + \"\", 30)", "@interrupt", ":replace 5", ":skip", ":skip", "1 + 2"],
    ["vok2(10, 20, 1 + \"\", 30)", "@interrupt", ":resume", ":skip", ":skip", ":skip", "1 + 2"],
    ["[10, 20, vnosuch, 30]", "@interrupt", ":replace 5", ":skip", ":skip", ":resume", "vg"],
    ["[10, 20, 1 + None, 30]", "@interrupt", "1 + 2", ":skip", ":skip", ":skip"],
    ["7 + (8 * (1 + \"s\"))", "@interrupt", ":replace 1", ":skip", ":replace 2", ":skip", ":resume"],
    ["VP2{ x: 1, y: 1 + \"\", z: 3 }", "@interrupt", ":resume", ":skip", ":skip", "vg"],
    ["VP2{ x: 1, y: \"s\", z: 3 }", "@interrupt", ":replace 5", ":skip", ":skip", ":skip"],
    ["vok2(1, 2, 3, vf0())", "@interrupt", ":resume", ":skip", ":skip", ":skip", ":skip"],
    ["vok2(1, \"s\", 3, 4)", "@interrupt", ":test vt_pass", ":skip", ":skip", ":resume"],
    ["print(1)", "@interrupt", ":replace \"s\"", ":skip", ":skip"], ["assert(1 == 2)", "@interrupt", ":resume", ":skip", ":skip", ":skip"],
    ["for vi in [1, 2] { vok2(vi, 2, 1 + \"\", 4) }", "@interrupt", ":replace 5", ":skip", ":skip", ":skip", ":resume"],
    ["vok2(10, 20, 1 + \"\", 30)", "@interrupt", "@interrupt", ":replace 5", ":resume", ":skip", ":skip"],
    ["Dict[\"a\" => 1, 2 => 3]", "@interrupt", ":type vg", ":skip", ":skip"],
    # repeated :test at the toplevel (each finished test frame hands its value to the toplevel value stack)
    [":test vt_pass", ":test vt_pass"], [":test vt_pass", ":test vt_pass", ":test vt_pass", ":test vt_pass", "1 + 2"],
    [":test vt_pass", "1 + 2", "let vafter = 3", ":test vt_pass", "vafter", ":test vt_pass", ":resume"],
    [":test vt_pass", ":test vt_fail", ":abort", ":test vt_pass", ":test vt_pass", ":fvalues"],
    [":test vt_fail", ":abort", ":test vt_pass", ":test vt_pass", ":test vt_throw", ":abort", ":test vt_pass", ":test vt_pass"],
    ["test vtq { assert(2 == 2) }", ":test vtq", ":test vtq", ":test vtq"], [":abort", ":test vt_pass", ":abort", ":test vt_pass", ":test vt_pass"],
    [":test vt_pass", ":skip", ":test vt_pass", ":replace 1", ":test vt_pass", ":test vt_pass"],
    ["while True { let vw = 1 throw(\"w\") }", ":skip", ":abort", "vw"], ["vf2(1)", ":namespace other.gdn", "vf2(1)", ":abort", "vg"],
]


def scripted_history(i):
    g = Gen(random.Random(i))
    steps = setup_steps(g)
    for src in SCRIPTED[i]:
        if src == "@interrupt":
            steps.append({"k": "interrupt", "label": "interrupt"})
            continue
        label = ("cmd:" + src.split(" ")[0] + ("+arg" if " " in src else "")) if src.startswith(":") else "run"
        steps.append({"k": "req", "label": label, "body": run(src, g.fresh())})
    return steps


def random_history(seed, length):
    rng = random.Random(seed)
    g = Gen(rng)
    steps = setup_steps(g) if rng.random() < 0.9 else []
    for _ in range(length):
        steps.append(g.step())
    return steps
