"""Syscall-trace oracle and traced runner for the sandbox properties (C24, C25).

Nothing here knows how Garden implements its sandbox: the policy is written from the property text
("no program can create, modify, delete or read files through the filesystem API, start processes, or
read standard input") in terms of Linux system calls.

run(...)      starts `garden ARGS` (optionally under `strace -f`), stdin = a pipe whose write end stays
              open and is never written, polls /proc to decide *blocked* vs *runnable*, enforces a watchdog.
parse_log     turns an strace -f -o log into a list of events (unfinished/resumed lines are merged).
judge         applies the policy to the events -> list of violations + observations.
"""
import os
import re
import signal
import subprocess
import time

from .. import core

# ----------------------------------------------------------------------------------------- running

SYS_READLIKE = {"x86_64": {0: "read", 19: "readv", 17: "pread64", 295: "preadv", 327: "preadv2"},
                "aarch64": {63: "read", 65: "readv", 67: "pread64", 69: "preadv", 286: "preadv2"}}
# syscalls in which a thread may legitimately sleep forever without being "blocked by the program":
# none for the main thread. (The signal thread of the ctrlc handler sleeps in read(pipe).)


class Traced:
    __slots__ = ("run", "log_text", "events", "blocked", "state_at_kill", "pid", "wall")

    def __init__(self):
        self.run = None
        self.log_text = ""
        self.events = []
        self.blocked = None       # None | {"syscall":..., "fd":..., "tid":...}
        self.state_at_kill = None  # proc state letter of the main thread when the watchdog fired
        self.pid = None
        self.wall = 0.0


def _children(pid):
    try:
        with open("/proc/%d/task/%d/children" % (pid, pid)) as f:
            return [int(x) for x in f.read().split()]
    except (OSError, ValueError):
        return []


def _main_thread_state(pid):
    """-> (state letter, syscall nr or None, first arg or None) of the thread whose tid == pid."""
    st = None
    try:
        with open("/proc/%d/stat" % pid) as f:
            s = f.read()
        st = s[s.rindex(")") + 2]
    except (OSError, ValueError, IndexError):
        return None, None, None
    nr = a0 = None
    try:
        with open("/proc/%d/syscall" % pid) as f:
            parts = f.read().split()
        if parts and parts[0] not in ("running", "-1"):
            nr = int(parts[0])
            a0 = int(parts[1], 16)
    except (OSError, ValueError, IndexError):
        pass
    return st, nr, a0


def run(args, cwd, logdir, env=None, timeout=10.0, trace=True, stdin="open-pipe", tag="t", extra_rlimit_as=None,
        stack_bytes=None):
    """Run garden. stdin: "open-pipe" (never written, never closed while the child lives) | "eof" | "devnull".
    Returns Traced. Blocked = main thread asleep in read-like syscall on fd 0 at two polls 0.25 s apart."""
    import platform
    readlike = SYS_READLIKE.get(platform.machine(), SYS_READLIKE["x86_64"])
    t = Traced()
    e = dict(core.BASE_ENV)
    if env:
        e.update(env)
    log = os.path.join(logdir, "%s.strace" % tag)
    cmd = [core.GARDEN] + list(args)
    if trace:
        cmd = ["strace", "-f", "-qq", "-e", "trace=file,process,desc", "-o", log] + cmd
    rfd = wfd = None
    if stdin == "devnull":
        sin = subprocess.DEVNULL
    else:
        rfd, wfd = os.pipe()
        sin = rfd

    def pre():
        core._preexec()
        import resource
        if extra_rlimit_as:
            resource.setrlimit(resource.RLIMIT_AS, (extra_rlimit_as, extra_rlimit_as))
        if stack_bytes:
            hard = resource.getrlimit(resource.RLIMIT_STACK)[1]
            resource.setrlimit(resource.RLIMIT_STACK, (stack_bytes, hard))
            # no address-space randomisation: the depth at which the native stack overflows is then a
            # function of the program alone, so differential runs near the threshold agree
            try:
                import ctypes
                ctypes.CDLL(None).personality(0x0040000)
            except Exception:
                pass
        if wfd is not None:
            os.close(wfd)

    t0 = time.time()
    try:
        p = subprocess.Popen(cmd, cwd=cwd, env=e, stdin=sin, stdout=subprocess.PIPE, stderr=subprocess.PIPE,
                             preexec_fn=pre)
    except OSError as ex:
        raise core.HarnessError("cannot start %s: %s" % (cmd[0], ex))
    if rfd is not None:
        os.close(rfd)
    if stdin == "eof" and wfd is not None:
        os.close(wfd)
        wfd = None
    timed_out = False
    out = err = b""
    seen_block = 0
    last_sig = None
    deadline = t0 + timeout
    step = 0.05
    try:
        while True:
            try:
                out, err = p.communicate(timeout=step)
                break
            except subprocess.TimeoutExpired:
                pass
            step = min(0.25, step * 1.5)
            gpid = p.pid
            if trace:
                ch = _children(p.pid)
                gpid = ch[0] if ch else None
            if gpid:
                t.pid = gpid
                st, nr, a0 = _main_thread_state(gpid)
                cur = (nr, a0)
                if st == "S" and nr in readlike and a0 == 0:
                    if last_sig == cur:
                        seen_block += 1
                    else:
                        seen_block = 1
                    last_sig = cur
                    if seen_block >= 3 and step >= 0.25:
                        t.blocked = {"syscall": readlike[nr], "fd": 0, "tid": gpid}
                else:
                    seen_block = 0
                    last_sig = cur
                if t.blocked or time.time() > deadline:
                    t.state_at_kill = st
            if t.blocked or time.time() > deadline:
                timed_out = t.blocked is None
                try:
                    os.killpg(p.pid, signal.SIGKILL)
                except ProcessLookupError:
                    pass
                out, err = p.communicate()
                break
    finally:
        if wfd is not None:
            os.close(wfd)
    t.wall = time.time() - t0
    rc = p.returncode
    if t.blocked is not None:
        rc = -signal.SIGKILL
    t.run = core.Run(rc, out.decode("utf-8", "replace"), err.decode("utf-8", "replace"), timed_out, t.wall)
    if trace:
        try:
            with open(log, "r", errors="replace") as f:
                t.log_text = f.read()
        except OSError:
            t.log_text = ""
        t.events = parse_log(t.log_text)
        try:
            os.unlink(log)
        except OSError:
            pass
    return t


# ----------------------------------------------------------------------------------------- parsing

LINE_RE = re.compile(r"^(\d+)\s+(.*)$")
RESUMED_RE = re.compile(r"^<\.\.\. (\w+) resumed>(.*)$")
CALL_RE = re.compile(r"^(\w+)\((.*)$", re.S)
STR_RE = re.compile(r'"((?:[^"\\]|\\.)*)"')
EXIT_RE = re.compile(r"^\+\+\+ (exited with (\d+)|killed by (\w+)).*\+\+\+$")
SIG_RE = re.compile(r"^--- (\w+) ")


def _unescape(s):
    try:
        return bytes(s, "latin-1").decode("unicode_escape").encode("latin-1").decode("utf-8", "replace")
    except Exception:
        return s


def parse_log(text):
    """-> list of {"pid","name","args","ret","paths":[...],"unfinished":bool} / {"pid","exit":..}/{"pid","signal":..}"""
    pending = {}
    ev = []
    for raw in text.split("\n"):
        m = LINE_RE.match(raw)
        if not m:
            continue
        pid, rest = int(m.group(1)), m.group(2)
        mm = EXIT_RE.match(rest)
        if mm:
            ev.append({"pid": pid, "exit": int(mm.group(2)) if mm.group(2) is not None else mm.group(3)})
            continue
        mm = SIG_RE.match(rest)
        if mm:
            ev.append({"pid": pid, "signal": mm.group(1)})
            continue
        mm = RESUMED_RE.match(rest)
        if mm:
            head = pending.pop(pid, mm.group(1) + "(")
            rest = head + mm.group(2)
        if rest.endswith("<unfinished ...>"):
            pending[pid] = rest[:-len("<unfinished ...>")].rstrip()
            continue
        c = CALL_RE.match(rest)
        if not c:
            continue
        name, tail = c.group(1), c.group(2)
        k = tail.rfind(") = ")
        if k >= 0:
            args, ret = tail[:k], tail[k + 4:].strip()
        else:
            args, ret = tail, "?"
        ev.append({"pid": pid, "name": name, "args": args, "ret": ret, "unfinished": False})
    for pid, head in pending.items():
        c = CALL_RE.match(head)
        if c:
            ev.append({"pid": pid, "name": c.group(1), "args": c.group(2), "ret": "?", "unfinished": True})
    return ev


# ----------------------------------------------------------------------------------------- policy

DATA_CALLS = {"read", "write", "readv", "writev", "pread64", "pwrite64", "preadv", "pwritev", "preadv2", "pwritev2",
              "sendto", "recvfrom", "sendmsg", "recvmsg", "getdents", "getdents64", "getcwd", "ioctl", "poll",
              "ppoll", "select", "pselect6", "mmap", "close", "fcntl", "dup", "dup2", "dup3", "pipe", "pipe2",
              "lseek", "fstat", "epoll_wait", "epoll_ctl", "epoll_create1", "eventfd2", "wait4", "waitid", "exit",
              "exit_group"}
MUTATORS = {"unlink", "unlinkat", "mkdir", "mkdirat", "rmdir", "rename", "renameat", "renameat2", "link", "linkat",
            "symlink", "symlinkat", "chmod", "fchmod", "fchmodat", "fchmodat2", "chown", "fchown", "lchown",
            "fchownat", "truncate", "ftruncate", "utime", "utimes", "utimensat", "futimesat", "mknod", "mknodat",
            "setxattr", "lsetxattr", "fsetxattr", "removexattr", "lremovexattr", "fremovexattr", "fallocate",
            "copy_file_range", "sendfile", "mount", "umount2", "chroot", "pivot_root"}
OPENERS = {"open", "openat", "openat2", "creat"}
WRITE_FLAGS = ("O_WRONLY", "O_RDWR", "O_CREAT", "O_TRUNC", "O_APPEND")
STDIN_READS = {"read", "readv", "pread64", "preadv", "preadv2"}
# read-only opens that the process itself (dynamic loader, Rust runtime) makes; anything else opened for
# reading must be the program file named on the command line.
READ_OK_PREFIX = ("/etc/ld.so.", "/lib/", "/lib64/", "/usr/lib/", "/usr/lib64/", "/usr/local/lib/", "/proc/self/",
                  "/sys/fs/cgroup", "/sys/devices/system/cpu", "/dev/", "/proc/sys/", "/proc/stat",
                  "/proc/cpuinfo", "/proc/meminfo")


def judge(events, canary_tokens, own_files=(), allow_write_paths=(), count_first_exec=False, import_tokens=()):
    """Apply the sandbox policy. canary_tokens: substrings that only occur in paths/commands the PROGRAM
    supplied. own_files: absolute or relative paths garden itself is told to read (the source file).
    import_tokens: substrings of FILE NAMES that only occur as the target of an `import` (also inside a snippet given
    to reflect::check_snippet). Import resolution reads files but is not the filesystem API of the property: a
    read-only open / stat of such a file is an observation wherever the resolver looks for it (the directory it is
    resolved against may itself be a program-supplied canary path). Writes and mutations stay violations.
    -> (violations, observations); each a list of {"kind","syscall","detail"}."""
    viol, obs = [], []
    first_exec = not count_first_exec
    own = set(own_files)
    own_base = {os.path.basename(x) for x in own_files}

    def add(lst, kind, e, detail=None):
        lst.append({"kind": kind, "syscall": e["name"], "detail": (detail or e["args"])[:300]})

    for e in events:
        if "name" not in e:
            continue
        n, a = e["name"], e["args"]
        if n in ("execve", "execveat"):
            if first_exec:
                first_exec = False
                continue
            add(viol, "exec", e)
            continue
        if n in ("fork", "vfork"):
            add(viol, "fork", e)
            continue
        if n in ("clone", "clone3"):
            if "CLONE_THREAD" not in a:
                add(viol, "fork", e)
            continue
        if n in STDIN_READS:
            fd = a.split(",", 1)[0].strip()
            if fd == "0":
                add(viol, "stdin-read", e)
            continue
        if n in DATA_CALLS:
            continue
        paths = [_unescape(x) for x in STR_RE.findall(a)]
        imported = [p for p in paths if any(tok in os.path.basename(p.rstrip("/")) for tok in import_tokens)]
        touched = [p for p in paths if p not in imported and any(tok in p for tok in canary_tokens)]
        if n in MUTATORS:
            add(viol, "mutate", e)
            continue
        if n in OPENERS:
            path = paths[0] if paths else ""
            wr = [f for f in WRITE_FLAGS if f in a]
            if n == "creat":
                wr = ["O_CREAT"]
            if wr and not path.startswith("/dev/") and path not in allow_write_paths:
                add(viol, "write-open", e)
                continue
            if touched:
                add(viol, "canary-touch", e)
                continue
            if imported:
                add(obs, "import-read", e)
                continue
            if not wr and path and not path.startswith(READ_OK_PREFIX) and path not in own \
                    and os.path.basename(path) not in own_base:
                add(obs, "other-read-open", e)
            continue
        if touched:
            add(viol, "canary-touch", e)
            continue
        if imported:
            add(obs, "import-read", e)
            continue
        if n in ("chdir", "fchdir"):
            add(obs, "chdir", e)
    return viol, obs


def exit_info(events, pid=None):
    """Exit record of the first traced process (the garden process)."""
    first = None
    for e in events:
        if first is None and "name" in e:
            first = e["pid"]
        if "exit" in e and (e["pid"] == (pid or first)):
            return e["exit"]
    return None


def segments(events, marker_re):
    """Split events at write(1, "<marker>...") lines. -> {marker_id: [events]} for the events AFTER each marker
    up to the next one. marker_re must have one group = id."""
    segs = {}
    cur = None
    for e in events:
        if e.get("name") == "write" and e["args"].startswith("1,"):
            m = marker_re.search(e["args"])
            if m:
                cur = m.group(1)
                segs.setdefault(cur, [])
                continue
        if cur is not None:
            segs[cur].append(e)
    return segs
