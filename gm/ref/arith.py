"""Reference arithmetic for Garden's Int (i64) and Float (IEEE double) operators.

Written from website/operator:*.md and the property statements (C04), not from the Rust code.
Results: ("int", n) | ("bool", b) | ("float", x) | ("exc",) for a Garden exception.
"""
import decimal
import math
import struct

MIN = -(1 << 63)
MAX = (1 << 63) - 1

INT_OPS = ["+", "-", "*", "/", "%", "**", "<", "<=", ">", ">=", "==", "!=", "&", "|"]
FLOAT_OPS = ["+.", "-.", "*.", "/."]


def wrap(n):
    n &= (1 << 64) - 1
    return n - (1 << 64) if n >= (1 << 63) else n


def rep(n):
    return MIN <= n <= MAX


def int_op(op, a, b):
    if op == "+":
        return ("int", wrap(a + b))
    if op == "-":
        return ("int", wrap(a - b))
    if op == "*":
        return ("int", wrap(a * b))
    if op == "/":
        if b == 0:
            return ("exc",)
        q = abs(a) // abs(b)
        if (a < 0) != (b < 0):
            q = -q
        return ("int", q) if rep(q) else ("exc",)
    if op == "%":
        if b == 0:
            return ("exc",)
        r = a % abs(b)          # python: result has the sign of the divisor -> non-negative
        return ("int", r)
    if op == "**":
        if b < 0:
            return ("exc",)
        if a in (0, 1):
            return ("int", a if b > 0 or a == 1 else 1)
        if a == -1:
            return ("int", 1 if b % 2 == 0 else -1)
        if b > 64:
            return ("exc",)
        p = a ** b
        return ("int", p) if rep(p) else ("exc",)
    if op == "<":
        return ("bool", a < b)
    if op == "<=":
        return ("bool", a <= b)
    if op == ">":
        return ("bool", a > b)
    if op == ">=":
        return ("bool", a >= b)
    if op == "==":
        return ("bool", a == b)
    if op == "!=":
        return ("bool", a != b)
    if op == "&":
        return ("int", wrap(a & b))
    if op == "|":
        return ("int", wrap(a | b))
    raise ValueError(op)


def float_op(op, a, b):
    try:
        if op == "+.":
            return ("float", a + b)
        if op == "-.":
            return ("float", a - b)
        if op == "*.":
            return ("float", a * b)
        if op == "/.":
            if b == 0.0:
                return ("exc",)
            return ("float", a / b)
    except OverflowError:
        return ("float", math.inf)
    raise ValueError(op)


def float_lit(x):
    """Exact decimal literal (no exponent) for a finite double."""
    d = decimal.Decimal(x)
    s = format(d, "f")
    if "." not in s:
        s += ".0"
    if x == 0 and math.copysign(1.0, x) < 0 and not s.startswith("-"):
        s = "-" + s
    return s


def bits(x):
    return struct.unpack("<Q", struct.pack("<d", x))[0]


def show(res):
    if res[0] == "int":
        return str(res[1])
    if res[0] == "bool":
        return "True" if res[1] else "False"
    return None
