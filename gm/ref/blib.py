"""Reference implementations of the prelude string and list functions (C32).

Written from the doc comments (and the `test` examples next to them) in src/__prelude.gdn, NOT from
the Garden / Rust bodies. Strings are Python str (indexed by code point, as the doc comments say:
"character offsets, not bytes"). Values use the abstract form of gm.ref.bval.

Every function returns
    ("exact", abstract_value)   the documentation determines the result
    ("weak",)                   the documentation is silent for these arguments: the call only has to
                                terminate with a value or a Garden error
"""
from . import bval

MIN, MAX = bval.MIN, bval.MAX
WEAK = ("weak",)


def S(s):
    return ["str", s]


def I(n):
    return ["int", n]


def B(b):
    return ["enum", "True" if b else "False", None]


def L(items):
    return ["list", list(items)]


def SOME(v):
    return ["enum", "Some", v]


NONE = ["enum", "None", None]


def exact(v):
    return ("exact", v)


# documented notion of whitespace: the doc comments say "whitespace" and only ever show " ".
# Other white characters are outside the documented domain.
OTHER_WHITE = set("\t\n\r\x0b\x0c\x85\xa0\u1680\u2000\u2001\u2002\u2003\u2004\u2005\u2006\u2007\u2008"
                  "\u2009\u200a\u2028\u2029\u202f\u205f\u3000\ufeff")


def _white_domain(s):
    return not any(c in OTHER_WHITE for c in s)


# ------------------------------------------------------------------ string methods

def starts_with(this, s):
    return exact(B(this.startswith(s)))


def ends_with(this, s):
    return exact(B(this.endswith(s)))


def replace(this, before, after):
    if before == "":
        return WEAK          # "all occurrences" of the empty string: the documentation is silent
    return exact(S(this.replace(before, after)))


def split_once(this, needle):
    if needle == "":
        return WEAK
    i = this.find(needle)
    if i < 0:
        return exact(NONE)
    return exact(SOME(["tuple", [S(this[:i]), S(this[i + len(needle):])]]))


def join(this, items):
    return exact(S(this.join(items)))


def contains(this, sub):
    return exact(B(sub in this))


def trim_left(this):
    if not _white_domain(this):
        return WEAK
    return exact(S(this.lstrip(" ")))


def trim_right(this):
    if not _white_domain(this):
        return WEAK
    return exact(S(this.rstrip(" ")))


def trim(this):
    if not _white_domain(this):
        return WEAK
    return exact(S(this.strip(" ")))


def strip_suffix(this, suffix):
    if suffix != "" and this.endswith(suffix):
        return exact(S(this[:len(this) - len(suffix)]))
    return exact(S(this))


def strip_prefix(this, prefix):
    if this.startswith(prefix):
        return exact(S(this[len(prefix):]))
    return exact(S(this))


def split(this, needle):
    if needle == "":
        return WEAK
    if this == "":
        return exact(L([]))
    return exact(L(S(p) for p in this.split(needle)))


def chars(this):
    return exact(L(S(c) for c in this))


def str_len(this):
    return exact(I(len(this)))


def lines(this):
    if "\r" in this:
        return WEAK
    parts = this.split("\n")
    if parts[-1] == "":
        parts.pop()
    return exact(L(S(p) for p in parts))


def substring(this, i, j):
    if 0 <= i <= j:
        return exact(S(this[i:j]))
    return WEAK


def str_index_of(this, needle):
    i = this.find(needle)
    return exact(NONE if i < 0 else SOME(I(i)))


# ------------------------------------------------------------------ list methods (items: python lists of abstract values)

def _eq(a, b):
    return bval.equal(a, b)


def list_get(items, i):
    if 0 <= i < len(items):
        return exact(SOME(items[i]))
    return exact(NONE)


def list_len(items):
    return exact(I(len(items)))


def first(items):
    return exact(SOME(items[0]) if items else NONE)


def last(items):
    return exact(SOME(items[-1]) if items else NONE)


def concat(a, b):
    return exact(L(list(a) + list(b)))


def list_contains(items, x):
    return exact(B(any(_eq(x, y) for y in items)))


def list_index_of(items, x):
    for i, y in enumerate(items):
        if _eq(x, y):
            return exact(SOME(I(i)))
    return exact(NONE)


def append(items, x):
    return exact(L(list(items) + [x]))


def list_slice(items, i, j):
    n = len(items)
    jj = j if j >= 0 else n + j
    if 0 <= i <= jj <= n:
        return exact(L(items[i:jj]))
    return WEAK


def enumerate_(items):
    return exact(L(["tuple", [I(k), x]] for k, x in enumerate(items)))


def is_empty(items):
    return exact(B(len(items) == 0))


def is_non_empty(items):
    return exact(B(len(items) != 0))


# integer functions usable as arguments of map / filter: name -> (garden source, python function)
def _wrap(n):
    n &= (1 << 64) - 1
    return n - (1 << 64) if n >= (1 << 63) else n


MAP_FUNS = {
    "inc": ("fun(x: Int) { x + 1 }", lambda x: I(_wrap(x + 1))),
    "dbl": ("fun(x: Int) { x * 2 }", lambda x: I(_wrap(x * 2))),
    "neg": ("fun(x: Int) { 0 - x }", lambda x: I(_wrap(0 - x))),
    "pair": ("fun(x: Int) { (x, [x]) }", lambda x: ["tuple", [I(x), L([I(x)])]]),
    "const": ("fun(_: Int) { \"k\" }", lambda x: S("k")),
    "some": ("fun(x: Int) { Some(x) }", lambda x: SOME(I(x))),
}
FILTER_FUNS = {
    "pos": ("fun(x: Int) { x > 0 }", lambda x: x > 0),
    "neg": ("fun(x: Int) { x < 0 }", lambda x: x < 0),
    "all": ("fun(_: Int) { True }", lambda x: True),
    "none": ("fun(_: Int) { False }", lambda x: False),
    "odd": ("fun(x: Int) { x % 2 == 1 }", lambda x: x % 2 == 1),
    "ne1": ("fun(x: Int) { x != 1 }", lambda x: x != 1),
}


def list_map(ints, fname):
    f = MAP_FUNS[fname][1]
    return exact(L(f(x) for x in ints))


def list_filter(ints, fname):
    f = FILTER_FUNS[fname][1]
    return exact(L(I(x) for x in ints if f(x)))


# ------------------------------------------------------------------ functions

RANGE_CAP = 400


def range_(i, j):
    if j - i > RANGE_CAP:
        return None          # too large to run; the generator does not produce these
    return exact(L(I(k) for k in range(i, j)))


def sort_nums(ints):
    return exact(L(I(x) for x in sorted(ints)))


def max_(x, y):
    return exact(I(max(x, y)))


def min_(x, y):
    return exact(I(min(x, y)))
