"""Reference interpreter for gm.gen.prog programs (DESIGN Appendix C).

Conventional lexical block scoping, written from the documentation - not from src/eval.rs.
run(prog) -> {"stdout": str, "outcome": ("ok",) | ("exc", message|None), "steps": n}
"""
import sys

from . import arith

sys.setrecursionlimit(20000)


class Unit:
    def __repr__(self):
        return "Unit"


UNITV = Unit()


class GardenError(Exception):
    def __init__(self, msg):
        self.msg = msg


class Budget(Exception):
    pass


class Break(Exception):
    pass


class Continue(Exception):
    pass


class Return(Exception):
    def __init__(self, v):
        self.v = v


class Closure:
    def __init__(self, node, scopes):
        self.node = node
        self.scopes = scopes


def esc(s):
    return '"' + s.replace("\\", "\\\\").replace('"', '\\"').replace("\n", "\\n") + '"'


def show(v):
    if v is UNITV:
        return "Unit"
    if isinstance(v, bool):
        return "True" if v else "False"
    if isinstance(v, int):
        return str(v)
    if isinstance(v, str):
        return esc(v)
    if isinstance(v, list):
        return "[" + ", ".join(show(x) for x in v) + "]"
    if isinstance(v, tuple):
        tag = v[0]
        if tag == "T":
            items = v[1]
            if len(items) == 1:
                return "(" + show(items[0]) + ",)"
            return "(" + ", ".join(show(x) for x in items) + ")"
        if tag in ("Some", "Ok", "Err"):
            return "%s(%s)" % (tag, show(v[1]))
        if tag == "None":
            return "None"
        if tag == "V":
            return v[1] if len(v) == 2 else "%s(%s)" % (v[1], show(v[2]))
        if tag == "S":
            return "%s{ %s }" % (v[1], ", ".join("%s: %s" % (f, show(x)) for f, x in v[2]))
    if isinstance(v, Closure):
        return "<closure>"
    raise ValueError(v)


class Interp:
    def __init__(self, prog, budget=200000):
        self.prog = prog
        self.funs = {f["name"]: f for f in prog["funs"]}
        self.out = []
        self.steps = 0
        self.budget = budget
        self.trace = None       # optional: id(node) -> first value, for C27

    # ------------------------------------------------------------ scopes
    def lookup(self, scopes, name):
        for sc in reversed(scopes):
            if name in sc:
                return sc[name]
        raise GardenError("No such variable `%s`." % name)

    def assign(self, scopes, name, v):
        for sc in reversed(scopes):
            if name in sc:
                sc[name] = v
                return
        raise GardenError("`%s` is not bound" % name)

    # ------------------------------------------------------------ evaluation
    def tick(self):
        self.steps += 1
        if self.steps > self.budget:
            raise Budget()

    def block(self, stmts, scopes, binds=None):
        """Run a block in a fresh scope; value of the block = value of its last statement."""
        scopes.append(dict(binds) if binds else {})
        try:
            v = UNITV
            for s in stmts:
                v = self.stmt(s, scopes)
            return v
        finally:
            scopes.pop()

    def stmt(self, s, scopes):
        self.tick()
        k = s["k"]
        if k == "expr":
            return self.expr(s["e"], scopes)
        if k == "let":
            v = self.expr(s["e"], scopes)
            if s["name"] != "_":
                scopes[-1][s["name"]] = v
            return UNITV
        if k == "letd":
            v = self.expr(s["e"], scopes)
            for (n, _), x in zip(s["dest"], v[1]):
                if n != "_":
                    scopes[-1][n] = x
            return UNITV
        if k == "assign":
            v = self.expr(s["e"], scopes)
            self.assign(scopes, s["name"], v)
            return UNITV
        if k == "upd":
            v = self.expr(s["e"], scopes)
            cur = self.lookup(scopes, s["name"])
            self.assign(scopes, s["name"], arith.wrap(cur + v if s["op"] == "+" else cur - v))
            return UNITV
        if k == "while":
            while True:
                c = self.expr(s["cond"], scopes)
                if not c:
                    break
                try:
                    self.block(s["body"], scopes)
                except Break:
                    break
                except Continue:
                    continue
            return UNITV
        if k == "for":
            lst = self.expr(s["e"], scopes)
            d = s["dest"]
            for item in lst:
                if "v" in d:
                    binds = {d["v"][0]: item} if d["v"][0] != "_" else {}
                else:
                    binds = {n: x for (n, _), x in zip(d["d"], item[1]) if n != "_"}
                try:
                    # the loop variable lives in its own scope around the body's scope
                    scopes.append(binds)
                    try:
                        self.block(s["body"], scopes)
                    finally:
                        scopes.pop()
                except Break:
                    break
                except Continue:
                    continue
            return UNITV
        if k == "break":
            raise Break()
        if k == "continue":
            raise Continue()
        if k == "return":
            raise Return(self.expr(s["e"], scopes) if s.get("e") is not None else UNITV)
        if k == "assert":
            v = self.expr(s["e"], scopes)
            if not v:
                raise GardenError(None)
            return UNITV
        raise ValueError(k)

    def call_fun(self, f, args):
        scopes = [{p[0]: a for p, a in zip(f["params"], args) if p[0] != "_"}]
        try:
            return self.block(f["body"], scopes)
        except Return as r:
            return r.v

    def call_closure(self, c, args):
        scopes = [dict(sc) for sc in c.scopes]
        scopes.append({p[0]: a for p, a in zip(c.node["params"], args) if p[0] != "_"})
        try:
            return self.block(c.node["body"], scopes)
        except Return as r:
            return r.v

    def expr(self, e, scopes):
        v = self.expr_(e, scopes)
        if self.trace is not None and id(e) not in self.trace:
            self.trace[id(e)] = v
        return v

    def expr_(self, e, scopes):
        self.tick()
        k = e["k"]
        if k in ("int", "bool", "str"):
            return e["v"]
        if k == "unit":
            return UNITV
        if k == "paren":
            return self.expr(e["e"], scopes)
        if k == "var":
            return self.lookup(scopes, e["name"])
        if k == "bin":
            l = self.expr(e["l"], scopes)
            r = self.expr(e["r"], scopes)
            op = e["op"]
            if op == "^":
                return l + r
            if op == "&&":
                return l and r
            if op == "||":
                return l or r
            if op in ("==", "!=") and not isinstance(l, int):
                return (l == r) if op == "==" else (l != r)
            res = arith.int_op(op, l, r)
            if res[0] == "exc":
                if r == 0 and op == "/":
                    raise GardenError("Tried to divide %s by zero." % show(l))
                if r == 0 and op == "%":
                    raise GardenError("Tried to calculate the remainder of dividing %s by zero." % show(l))
                raise GardenError(None)
            return res[1]
        if k == "list":
            return [self.expr(x, scopes) for x in e["items"]]
        if k == "tuple":
            return ("T", [self.expr(x, scopes) for x in e["items"]])
        if k == "some":
            return ("Some", self.expr(e["e"], scopes))
        if k == "none":
            return ("None",)
        if k == "ok":
            return ("Ok", self.expr(e["e"], scopes))
        if k == "err":
            return ("Err", self.expr(e["e"], scopes))
        if k == "variant":
            if e["e"] is None:
                return ("V", e["variant"])
            return ("V", e["variant"], self.expr(e["e"], scopes))
        if k == "structlit":
            return ("S", e["name"], [(f, self.expr(x, scopes)) for f, x in e["fields"]])
        if k == "field":
            v = self.expr(e["e"], scopes)
            return dict(v[2])[e["f"]]
        if k == "call":
            args = [self.expr(a, scopes) for a in e["args"]]
            fn = e["fn"]
            if e.get("builtin"):
                if fn == "println":
                    self.out.append(args[0] + "\n")
                    return UNITV
                if fn == "string_repr":
                    return show(args[0])
                if fn == "not":
                    return not args[0]
                if fn == "min":
                    return min(args)
                if fn == "max":
                    return max(args)
                if fn == "range":
                    return list(range(args[0], args[1]))
                if fn == "verif_id":
                    return args[0]
                raise ValueError(fn)
            return self.call_fun(self.funs[fn], args)
        if k == "callv":
            c = self.expr(e["f"], scopes)
            args = [self.expr(a, scopes) for a in e["args"]]
            return self.call_closure(c, args)
        if k == "mcall":
            recv = self.expr(e["recv"], scopes)
            args = [self.expr(a, scopes) for a in e["args"]]
            m = e["m"]
            if e.get("user"):
                f = self.funs[m]
                sc = [{p[0]: a for p, a in zip(f["params"], args) if p[0] != "_"}]
                sc[0]["this"] = recv
                try:
                    return self.block(f["body"], sc)
                except Return as r:
                    return r.v
            if m == "len":
                return len(recv)
            if m == "append":
                return recv + [args[0]]
            if m == "map":
                return [self.call_closure(args[0], [x]) for x in recv]
            if m == "filter":
                return [x for x in recv if self.call_closure(args[0], [x])]
            if m == "get":
                i = args[0]
                return ("Some", recv[i]) if 0 <= i < len(recv) else ("None",)
            if m == "or_throw":
                if recv[0] == "Some":
                    return recv[1]
                if recv[0] == "None":
                    raise GardenError("Called `or_throw` on a `None` value.")
                if recv[0] == "Ok":
                    return recv[1]
                raise GardenError("Called `or_throw()` on an `Err`. " + show(recv[1]))
            raise ValueError(m)
        if k == "if":
            c = self.expr(e["cond"], scopes)
            if e["els"] is None:
                # `if` without `else` evaluates to Unit whatever the branch produced
                if c:
                    self.block(e["then"], scopes)
                return UNITV
            if c:
                return self.block(e["then"], scopes)
            return self.block(e["els"], scopes)
        if k == "match":
            v = self.expr(e["scrut"], scopes)
            tag = v[1] if v[0] == "V" else v[0]
            for a in e["arms"]:
                if a["variant"] == tag or a["variant"] == "_":
                    binds = {}
                    if a["bind"] is not None and a["variant"] != "_" and a["bind"][0] != "_":
                        binds[a["bind"][0]] = v[2] if v[0] == "V" else v[1]
                    return self.block(a["body"], scopes, binds)
            raise GardenError(None)
        if k == "lambda":
            return Closure(e, [dict(sc) for sc in scopes])
        if k == "throw":
            raise GardenError(self.expr(e["msg"], scopes))
        raise ValueError(k)

    def run(self):
        scopes = [{}]
        outcome = ("ok",)
        try:
            for s in self.prog["main"]:
                self.stmt(s, scopes)
        except GardenError as ex:
            outcome = ("exc", ex.msg)
        except Return:
            outcome = ("ok",)
        except RecursionError:
            raise Budget()
        return {"stdout": "".join(self.out), "outcome": outcome, "steps": self.steps}


def run(prog, budget=200000, trace=False):
    it = Interp(prog, budget)
    if trace:
        it.trace = {}
    r = it.run()
    if trace:
        r["trace"] = it.trace
    return r
