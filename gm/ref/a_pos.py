"""Reference predicate for source positions (C23), written from the property statement only.

A position is [start_offset, end_offset, line_number, end_line_number, column, end_column] with byte offsets
into the UTF-8 text, zero-based lines (a line ends at '\\n'), and columns in bytes from the start of the line.

  inside the file          0 <= start <= end <= len(text)
  character boundaries     neither offset points into the middle of a UTF-8 sequence
  line / column            line == number of '\\n' before start;  column == start - start of that line
  end line / end column    end_line == the line containing the end offset, end_column == end - start of that line.
                           Because the end offset is exclusive, a position that ends right after a '\\n' may
                           equally name the line of its last byte (end - 1); both readings are accepted, but the
                           end column must agree with whichever line is named.
"""
import bisect


class Text:
    __slots__ = ("b", "n", "starts")

    def __init__(self, text):
        self.b = text.encode("utf-8") if isinstance(text, str) else bytes(text)
        self.n = len(self.b)
        starts = [0]
        find = self.b.find
        i = find(b"\n")
        while i >= 0:
            starts.append(i + 1)
            i = find(b"\n", i + 1)
        self.starts = starts

    def boundary(self, off):
        return off == self.n or (0 <= off < self.n and (self.b[off] & 0xC0) != 0x80)

    def line_of(self, off):
        return bisect.bisect_right(self.starts, off) - 1

    def slice(self, a, b):
        return self.b[a:b].decode("utf-8", "replace")


def pos_problems(t, p):
    """-> list of defect-class strings (empty = consistent). `t` is a Text, `p` the six numbers."""
    try:
        start, end, line, end_line, col, end_col = [int(x) for x in p]
    except (TypeError, ValueError):
        return ["malformed"]
    out = []
    if not (0 <= start <= end <= t.n):
        if start > end:
            out.append("start-after-end")
        if end > t.n or start > t.n:
            out.append("outside-file")
        if start < 0 or end < 0:
            out.append("negative")
        return out or ["outside-file"]
    if not t.boundary(start):
        out.append("start-not-char-boundary")
    if not t.boundary(end):
        out.append("end-not-char-boundary")
    l0 = t.line_of(start)
    if line != l0:
        out.append("line-of-start")
    elif col != start - t.starts[l0]:
        out.append("column-of-start")
    l1 = t.line_of(end)
    ok_lines = {l1}
    if end > start:
        ok_lines.add(t.line_of(end - 1))
    if end_line not in ok_lines:
        out.append("end-line")
    elif end_col != end - t.starts[end_line]:
        out.append("end-column")
    return out


def pos_ok(text, p):
    t = text if isinstance(text, Text) else Text(text)
    return not pos_problems(t, p)


def line_col_problems(t, line1, col, end_line1, end_col):
    """Sanity of a 1-based line / byte column pair without offsets (`check --json`): the line exists, the
    column is within the line (the newline itself counts as inside, for positions that end after it) and
    falls on a character boundary; the end is not before the start."""
    out = []
    for which, ln, c in (("start", line1, col), ("end", end_line1, end_col)):
        if not isinstance(ln, int) or not isinstance(c, int) or ln < 1 or c < 0:
            out.append(which + "-malformed")
            continue
        if ln - 1 >= len(t.starts):
            out.append(which + "-line-outside-file")
            continue
        ls = t.starts[ln - 1]
        le = t.starts[ln] if ln < len(t.starts) else t.n
        if ls + c > le:
            out.append(which + "-column-outside-line")
        elif not t.boundary(ls + c):
            out.append(which + "-column-not-char-boundary")
    if not out and (end_line1, end_col) < (line1, col):
        out.append("end-before-start")
    return out
