"""Reference visibility model and project generator for C34.

Documentation used (website/keyword:import.md, keyword:public.md):
  * `import "./f.gdn" as ns` makes the definitions of f.gdn available as `ns::name`;
    `import "./f.gdn"` loads "all the definitions into the current file";
  * "If a function or method does not have `public`, it can only be used in the current file where it is
    defined"; with `public` it "can be used anywhere".
The documentation says nothing about the visibility of enum variants and struct types, so projects contain
them (public and private) only as ballast; accesses to them are never judged.

Model. A project is a list of files; file i has import edges (target j, alias or None) and definitions
(kind in {fun, method}, name, public?). For an access written in file F:
  * own definition of F (public or not)                      -> reachable
  * `ns::g` where ns aliases file G != F... (G may equal F) -> reachable iff g is a fun defined in G and public
  * unqualified `g()` for a fun g of G != F                  -> reachable iff F imports G without alias and g is public
  * `1.m()` for a method m of a directly imported G          -> reachable iff m is public
  * anything of a file H that F does not import directly (only reachable through G's own imports):
    functions -> not reachable (G does not mark them public; they are H's definitions)
  * a function name defined twice in one file (public then private, private then public): the last definition
    is the definition (labels private-after-public / public-after-private)
Every function returns a distinct constant, so "reachable" also means "evaluates to that constant".
"""
import random

SHAPES = ("single", "chain", "triangle", "cycle2", "cycle3", "self", "self_plus", "cycle2_tail", "fan", "mutual_all")


def shape_edges(shape):
    """-> (number of files, list of (src, dst))"""
    if shape == "single":
        return 2, [(0, 1)]
    if shape == "chain":
        return 3, [(0, 1), (1, 2)]
    if shape == "triangle":            # diamond folded onto three files: 0 reaches 2 directly and through 1
        return 3, [(0, 1), (0, 2), (1, 2)]
    if shape == "cycle2":
        return 2, [(0, 1), (1, 0)]
    if shape == "cycle3":
        return 3, [(0, 1), (1, 2), (2, 0)]
    if shape == "self":
        return 1, [(0, 0)]
    if shape == "self_plus":
        return 2, [(0, 0), (0, 1), (1, 1)]
    if shape == "cycle2_tail":
        return 3, [(0, 1), (1, 0), (1, 2)]
    if shape == "fan":
        return 3, [(0, 1), (0, 2)]
    if shape == "mutual_all":
        return 3, [(0, 1), (1, 0), (1, 2), (2, 1), (0, 2), (2, 0)]
    raise ValueError(shape)


def gen_project(rng, shape=None, alias_mode=None, redefs=False):
    shape = shape or rng.choice(SHAPES)
    n, edges = shape_edges(shape)
    alias_mode = alias_mode or rng.choice(("as", "plain", "mixed", "mixed", "both"))
    files = []
    const = [100]

    def k():
        const[0] += 1
        return const[0]

    for i in range(n):
        L = "abc"[i]
        defs = []
        for kind in ("fun", "method"):
            # always at least one public and one private of each kind, plus random extras
            vis = [True, False] + [rng.random() < 0.5 for _ in range(rng.randint(0, 2))]
            rng.shuffle(vis)
            for q, pub in enumerate(vis):
                defs.append({"kind": kind, "name": "%s_%s%d_%s" % (L, "f" if kind == "fun" else "m", q,
                                                                    "pub" if pub else "priv"),
                             "public": pub, "value": k()})
        # a function name defined twice in the file: the last definition is the one that exists afterwards
        # (`garden check` only warns "already defined in this file"), so its visibility and value decide
        for q, (first_pub, last_pub) in enumerate(((True, False), (False, True))):
            if redefs or rng.random() < 0.5:
                defs.append({"kind": "fun", "name": "%s_r%d_%s" % (L, q, "pubpriv" if first_pub else "privpub"),
                             "public": last_pub, "value": k(),
                             "label": "private-after-public" if first_pub else "public-after-private",
                             "earlier": {"public": first_pub, "value": k(), "gap": rng.random() < 0.5}})
        rng.shuffle(defs)
        ballast = {"enum_public": rng.random() < 0.5, "struct_public": rng.random() < 0.5}
        imps = []
        for (s, d) in edges:
            if s != i:
                continue
            if alias_mode == "as":
                styles = ["as"]
            elif alias_mode == "plain":
                styles = ["plain"]
            elif alias_mode == "both":
                styles = ["as", "plain"]
            else:
                styles = [rng.choice(("as", "plain"))]
            for st in styles:
                imps.append({"to": d, "alias": ("ns_%s" % "abc"[d]) if st == "as" else None})
        rng.shuffle(imps)
        files.append({"name": "%s.gdn" % L, "defs": defs, "imports": imps, "ballast": ballast,
                      "imports_last": rng.random() < 0.25})
    return {"shape": shape, "alias_mode": alias_mode, "files": files}


def vis_of(d):
    return d.get("label") or ("public" if d["public"] else "private")


def accesses(project, fi):
    """Accesses to write into file `fi`: list of dicts
    {"expr", "expect": True|False|None (None = not judged), "value", "what": label for signatures}"""
    files = project["files"]
    F = files[fi]
    out = []
    for d in F["defs"]:
        expr = "%s()" % d["name"] if d["kind"] == "fun" else "1.%s()" % d["name"]
        out.append({"expr": expr, "expect": True, "value": d["value"],
                    "what": "own:%s:%s" % (d["kind"], vis_of(d))})
    direct_plain = {imp["to"] for imp in F["imports"] if imp["alias"] is None}
    direct = {imp["to"] for imp in F["imports"]}
    seen_method_targets = set()
    for imp in F["imports"]:
        G = files[imp["to"]]
        gi = imp["to"]
        for d in G["defs"]:
            vis = vis_of(d)
            if d["kind"] == "fun":
                if imp["alias"]:
                    # a private function reached through an alias of the file's own name is "in the current
                    # file" and "through an import" at once: the documentation does not decide, not judged
                    exp = d["public"] if (gi != fi or d["public"]) else None
                    out.append({"expr": "%s::%s()" % (imp["alias"], d["name"]), "expect": exp,
                                "value": d["value"], "what": "%s:fun:%s" % ("qualified" if gi != fi else "self-alias", vis)})
                elif gi != fi:
                    out.append({"expr": "%s()" % d["name"], "expect": d["public"], "value": d["value"],
                                "what": "unqualified:fun:%s" % vis})
                if imp["alias"] and gi != fi and gi not in direct_plain:
                    # an `as` import must not also dump the names into the current file
                    out.append({"expr": "%s()" % d["name"], "expect": False, "value": d["value"],
                                "what": "unqualified-without-plain-import:fun:%s" % vis})
            else:
                if gi != fi and gi not in seen_method_targets:
                    out.append({"expr": "1.%s()" % d["name"], "expect": d["public"], "value": d["value"],
                                "what": "method:%s" % vis})
        seen_method_targets.add(gi)
        # ballast: never judged
        L = "abc"[gi]
        if gi != fi:
            if imp["alias"]:
                out.append({"expr": "%s::%s_VarA" % (imp["alias"], L.upper()), "expect": None, "value": None,
                            "what": "ballast:variant"})
            else:
                out.append({"expr": "%s_VarA" % L.upper(), "expect": None, "value": None, "what": "ballast:variant"})
            out.append({"expr": "%s_Rec{ x: 1 }" % L.upper(), "expect": None, "value": None,
                        "what": "ballast:struct"})
        # transitive: definitions of files that G imports but F does not
        for imp2 in G["imports"]:
            hi = imp2["to"]
            if hi == fi or hi in direct or hi == gi:
                continue
            H = files[hi]
            for d in H["defs"]:
                if d["kind"] != "fun":
                    continue
                vis = vis_of(d)
                if imp["alias"]:
                    out.append({"expr": "%s::%s()" % (imp["alias"], d["name"]), "expect": False,
                                "value": d["value"], "what": "transitive-qualified:fun:%s" % vis})
                    if imp2["alias"]:
                        out.append({"expr": "%s::%s" % (imp["alias"], imp2["alias"]), "expect": False,
                                    "value": None, "what": "transitive-namespace"})
                out.append({"expr": "%s()" % d["name"], "expect": False, "value": d["value"],
                            "what": "transitive-unqualified:fun:%s" % vis})
    # de-duplicate identical expressions (e.g. `both` import style), keeping the first
    uniq, seen = [], set()
    for a in out:
        if a["expr"] in seen:
            continue
        seen.add(a["expr"])
        uniq.append(a)
    return uniq


def render_defs(F, fi):
    L = "abc"[fi]
    lines = []
    b = F["ballast"]
    lines.append("%senum %s_Enum { %s_VarA, %s_VarB(Int) }" % ("public " if b["enum_public"] else "", L.upper(),
                                                               L.upper(), L.upper()))
    lines.append("%sstruct %s_Rec { x: Int }" % ("public " if b["struct_public"] else "", L.upper()))
    for d in F["defs"]:
        e = d.get("earlier")
        if e and e["gap"]:
            lines.insert(2, "%sfun %s(): Int { %d }" % ("public " if e["public"] else "", d["name"], e["value"]))
    for d in F["defs"]:
        pub = "public " if d["public"] else ""
        e = d.get("earlier")
        if e and not e["gap"]:
            lines.append("%sfun %s(): Int { %d }" % ("public " if e["public"] else "", d["name"], e["value"]))
        if d["kind"] == "fun":
            lines.append("%sfun %s(): Int { %d }" % (pub, d["name"], d["value"]))
        else:
            lines.append("%smethod %s(this: Int): Int { this - 1 + %d }" % (pub, d["name"], d["value"]))
    return lines


def render_imports(F, files):
    return ["import \"./%s\"%s" % (files[imp["to"]]["name"], (" as " + imp["alias"]) if imp["alias"] else "")
            for imp in F["imports"]]


def render_file(project, fi):
    """-> (source, [(line_number, test_name, access)])"""
    files = project["files"]
    F = files[fi]
    imps = render_imports(F, files)
    defs = render_defs(F, fi)
    lines = ["// generated by gm/ref/dvisibility.py: %s" % F["name"]]
    if F["imports_last"]:
        lines += defs + imps
    else:
        lines += imps + defs
    table = []
    for k, a in enumerate(accesses(project, fi)):
        name = "acc_%s_%02d" % ("abc"[fi], k)
        if a["value"] is not None and a["expect"] is not False:
            body = "assert(%s == %d)" % (a["expr"], a["value"])
        else:
            body = "let _ = %s" % a["expr"]
        lines.append("test %s { %s }" % (name, body))
        table.append((len(lines), name, a))
    return "\n".join(lines) + "\n", table


def render_run_file(project, fi, picks):
    """A root file with the imports of file `fi` and top-level accesses `picks` (in order), then a marker."""
    files = project["files"]
    F = files[fi]
    lines = render_imports(F, files)
    for a in picks:
        if a["value"] is not None and a["expect"]:
            lines.append("assert(%s == %d)" % (a["expr"], a["value"]))
        else:
            lines.append("let _ = %s" % a["expr"])
    lines.append("println(\"DV-DONE\")")
    return "\n".join(lines) + "\n"
