"""Apply LSP TextEdits / WorkspaceEdits as LSP 3.17 defines (independent of Garden's code).

Specification facts used ("TextEdit", "TextEdit[]", "WorkspaceEdit"):
  * all ranges of a TextEdit[] refer to the ORIGINAL document, never to an intermediate state;
  * ranges must never overlap (same start for several inserts is allowed; they are inserted in
    array order; an insert at the start of a replaced range comes before the replacement);
  * a range's positions are interpreted with the position rules of gm.ref.lsppos (a character past
    the line length is the line length);
  * WorkspaceEdit.changes maps a document URI to a TextEdit[]; WorkspaceEdit.documentChanges is a
    list of TextDocumentEdit {textDocument:{uri}, edits}.
"""
from . import lsppos


class EditError(Exception):
    pass


def _pos(d, what):
    if not isinstance(d, dict):
        raise EditError("%s is not a position object: %r" % (what, d))
    ln, ch = d.get("line"), d.get("character")
    if not (isinstance(ln, int) and isinstance(ch, int)) or isinstance(ln, bool) or isinstance(ch, bool) \
            or ln < 0 or ch < 0:
        raise EditError("%s has ill-typed line/character: %r" % (what, d))
    return ln, ch


def resolve(doc, edit, end_line_clamp=False):
    """-> (start_byte, end_byte, new_text). Raises EditError where the specification gives no meaning."""
    if not isinstance(edit, dict) or "range" not in edit or not isinstance(edit.get("newText"), str):
        raise EditError("not a TextEdit: %r" % (edit,))
    r = edit["range"]
    s = _pos(r.get("start"), "range.start")
    e = _pos(r.get("end"), "range.end")
    if e < s:
        raise EditError("range end before start: %r" % (r,))
    so = doc.offset_of(*s)
    eo = doc.offset_of(*e)
    if so is None or eo is None:
        raise EditError("range addresses a line past the end of the document (%d lines): %r" % (doc.line_count(), r))
    if len(so) != 1 or len(eo) != 1:
        raise EditError("range splits a surrogate pair: %r" % (r,))
    return next(iter(so)), next(iter(eo)), edit["newText"]


def apply_text_edits(text, edits, eol=lsppos.EOL_LSP):
    """Apply a TextEdit[] to text -> new text. Raises EditError on overlap / invalid ranges."""
    doc = lsppos.Doc(text, eol)
    rs = [resolve(doc, e) + (i,) for i, e in enumerate(edits)]
    rs.sort(key=lambda t: (t[0], t[1] != t[0], t[3]))     # inserts at a point before a replacement starting there
    raw = text.encode("utf-8")
    out = []
    cur = 0
    for s, e, new, _ in rs:
        if s < cur:
            raise EditError("overlapping edits at byte %d" % s)
        out.append(raw[cur:s])
        out.append(new.encode("utf-8"))
        cur = e
    out.append(raw[cur:])
    return b"".join(out).decode("utf-8")


def edits_for_uri(workspace_edit, uri):
    """All TextEdits a WorkspaceEdit holds for uri (and the set of other uris it touches)."""
    if not isinstance(workspace_edit, dict):
        raise EditError("not a WorkspaceEdit: %r" % (workspace_edit,))
    mine, others = [], set()
    ch = workspace_edit.get("changes")
    if isinstance(ch, dict):
        for u, es in ch.items():
            if u == uri:
                mine.extend(es)
            else:
                others.add(u)
    dc = workspace_edit.get("documentChanges")
    if isinstance(dc, list):
        for d in dc:
            u = (d.get("textDocument") or {}).get("uri") if isinstance(d, dict) else None
            if u == uri:
                mine.extend(d.get("edits") or [])
            elif u is not None:
                others.add(u)
    return mine, others
