"""Reference model of Garden's types: subtyping, join/meet, universes, display parser.

Written from the property text of C14/C15 and the doc comments of the `Type` enum
("The top type, which includes all values", "A type parameter is only a subtype of itself",
"Values in Garden are nominally typed", "all user-defined types have covariant arguments",
"Functions are contravariant in their arguments ... covariant in their return types"); it is a
declarative rule system over hashable terms, not a transcription of `is_subtype`.

Term representation (hashable, used by the model):
    ("any",)                      Any
    ("tp", name)                  type parameter
    ("ud", name, (args...))       nominal type (NoValue, Unit, Bool, Int, String, List, ...)
    ("tuple", (items...))
    ("fun", (params...), ret)

JSON representation (what the `types` op of `garden verif-batch` reads and writes):
    "Any" | {"tp": N} | {"ud": {"kind","name","args"}} | {"tuple": [...]} | {"fun": {"params": [...], "ret": T}}
"""
import random

ANY = ("any",)
ENUMS = {"NoValue", "Unit", "Bool", "Option", "Result"}     # `kind` of the well-known nominal types
ARITY = {"NoValue": 0, "Unit": 0, "Bool": 0, "Int": 0, "String": 0, "Float": 0,
         "List": 1, "Option": 1, "Dict": 1, "Box": 1, "Result": 2}
TYPE_PARAMS = ("T", "U")


def ud(name, *args):
    return ("ud", name, tuple(args))


NOVALUE = ud("NoValue")
UNIT, BOOL, INT, STRING = ud("Unit"), ud("Bool"), ud("Int"), ud("String")
ATOMS = [ANY, NOVALUE, UNIT, BOOL, INT, STRING, ("tp", "T"), ("tp", "U")]


def tup(*items):
    return ("tuple", tuple(items))


def fun(params, ret):
    return ("fun", tuple(params), ret)


# ------------------------------------------------------------------ JSON <-> term

def to_json(t):
    k = t[0]
    if k == "any":
        return "Any"
    if k == "tp":
        return {"tp": t[1]}
    if k == "ud":
        return {"ud": {"kind": "enum" if t[1] in ENUMS else "struct", "name": t[1],
                       "args": [to_json(a) for a in t[2]]}}
    if k == "tuple":
        return {"tuple": [to_json(a) for a in t[1]]}
    if k == "fun":
        return {"fun": {"params": [to_json(a) for a in t[1]], "ret": to_json(t[2])}}
    raise ValueError(t)


def from_json(j):
    """-> term, or None for an error type / anything unparseable."""
    if j == "Any":
        return ANY
    if not isinstance(j, dict):
        return None
    if "tp" in j:
        return ("tp", j["tp"])
    if "ud" in j:
        args = [from_json(a) for a in j["ud"].get("args", [])]
        if any(a is None for a in args):
            return None
        return ("ud", j["ud"]["name"], tuple(args))
    if "tuple" in j:
        items = [from_json(a) for a in j["tuple"]]
        if any(a is None for a in items):
            return None
        return ("tuple", tuple(items))
    if "fun" in j:
        ps = [from_json(a) for a in j["fun"]["params"]]
        r = from_json(j["fun"]["ret"])
        if r is None or any(a is None for a in ps):
            return None
        return ("fun", tuple(ps), r)
    return None


def show(t):
    """Garden's surface syntax for a type (also what the checker prints)."""
    k = t[0]
    if k == "any":
        return "Any"
    if k == "tp":
        return t[1]
    if k == "ud":
        return t[1] if not t[2] else "%s<%s>" % (t[1], ", ".join(show(a) for a in t[2]))
    if k == "tuple":
        return "(%s)" % ", ".join(show(a) for a in t[1])
    return "Fun<(%s), %s>" % (", ".join(show(a) for a in t[1]), show(t[2]))


def hint(t):
    """Source-level type hint. One-element tuples need a trailing comma to be a tuple hint."""
    k = t[0]
    if k == "ud" and t[2]:
        return "%s<%s>" % (t[1], ", ".join(hint(a) for a in t[2]))
    if k == "tuple":
        if len(t[1]) == 1:
            return "(%s,)" % hint(t[1][0])
        return "(%s)" % ", ".join(hint(a) for a in t[1])
    if k == "fun":
        ps = t[1]
        inner = "(%s,)" % hint(ps[0]) if len(ps) == 1 else "(%s)" % ", ".join(hint(a) for a in ps)
        return "Fun<%s, %s>" % (inner, hint(t[2]))
    return show(t)


def depth(t):
    k = t[0]
    if k in ("any", "tp"):
        return 0
    if k == "ud":
        return 0 if not t[2] else 1 + max(depth(a) for a in t[2])
    if k == "tuple":
        return 1 + max([depth(a) for a in t[1]] or [0])
    return 1 + max([depth(a) for a in t[1]] + [depth(t[2])])


def head(t):
    k = t[0]
    if k == "any":
        return "Any"
    if k == "tp":
        return "tp"
    if k == "ud":
        return t[1]
    if k == "tuple":
        return "tuple%d" % len(t[1])
    return "fun%d" % len(t[1])


def children(t):
    k = t[0]
    if k == "ud":
        return list(t[2])
    if k == "tuple":
        return list(t[1])
    if k == "fun":
        return list(t[1]) + [t[2]]
    return []


def subterms(t, acc=None):
    acc = set() if acc is None else acc
    if t in acc:
        return acc
    acc.add(t)
    for c in children(t):
        subterms(c, acc)
    return acc


def well_formed(t):
    k = t[0]
    if k == "ud":
        if t[1] not in ARITY or ARITY[t[1]] != len(t[2]):
            return False
    if k == "tp" and t[1] not in TYPE_PARAMS:
        return False
    return all(well_formed(c) for c in children(t))


# ------------------------------------------------------------------ the relation

_SUB = {}


def subtype(a, b):
    """a <: b by the documented rules."""
    key = (a, b)
    r = _SUB.get(key)
    if r is None:
        r = _subtype(a, b)
        if len(_SUB) > 2_000_000:
            _SUB.clear()
        _SUB[key] = r
    return r


def _subtype(a, b):
    if b == ANY:                      # Any is the top type
        return True
    if a == NOVALUE:                  # NoValue is the bottom type
        return True
    if a == ANY:                      # top is below nothing else
        return False
    if a[0] != b[0]:                  # different constructors are unrelated
        return False
    k = a[0]
    if k == "tp":                     # a type parameter is only a subtype of itself
        return a[1] == b[1]
    if k == "ud":                     # nominal, covariant in every argument
        return a[1] == b[1] and len(a[2]) == len(b[2]) and all(subtype(x, y) for x, y in zip(a[2], b[2]))
    if k == "tuple":                  # covariant, same arity
        return len(a[1]) == len(b[1]) and all(subtype(x, y) for x, y in zip(a[1], b[1]))
    # function: contravariant parameters, covariant result
    return (len(a[1]) == len(b[1]) and all(subtype(y, x) for x, y in zip(a[1], b[1]))
            and subtype(a[2], b[2]))


def equivalent(a, b):
    return subtype(a, b) and subtype(b, a)


def join(a, b):
    """Least upper bound in the model (always exists: Any is top)."""
    if subtype(a, b):
        return b
    if subtype(b, a):
        return a
    if a[0] != b[0]:
        return ANY
    k = a[0]
    if k == "ud" and a[1] == b[1] and len(a[2]) == len(b[2]):
        return ("ud", a[1], tuple(join(x, y) for x, y in zip(a[2], b[2])))
    if k == "tuple" and len(a[1]) == len(b[1]):
        return ("tuple", tuple(join(x, y) for x, y in zip(a[1], b[1])))
    if k == "fun" and len(a[1]) == len(b[1]):
        ps = [meet(x, y) for x, y in zip(a[1], b[1])]
        if any(p is None for p in ps):
            return ANY
        return ("fun", tuple(ps), join(a[2], b[2]))
    return ANY


def meet(a, b):
    """Greatest lower bound in the model (always exists: NoValue is bottom)."""
    if subtype(a, b):
        return a
    if subtype(b, a):
        return b
    if a[0] != b[0]:
        return NOVALUE
    k = a[0]
    if k == "ud" and a[1] == b[1] and len(a[2]) == len(b[2]):
        return ("ud", a[1], tuple(meet(x, y) for x, y in zip(a[2], b[2])))
    if k == "tuple" and len(a[1]) == len(b[1]):
        return ("tuple", tuple(meet(x, y) for x, y in zip(a[1], b[1])))
    if k == "fun" and len(a[1]) == len(b[1]):
        return ("fun", tuple(join(x, y) for x, y in zip(a[1], b[1])), meet(a[2], b[2]))
    return NOVALUE


# ------------------------------------------------------------------ universes

UNARY = ("List", "Option", "Dict", "Box")


def apply_all(pool):
    """Every constructor of the signature applied to every tuple of `pool`."""
    out = []
    for n in UNARY:
        for a in pool:
            out.append(ud(n, a))
    for a in pool:
        for b in pool:
            out.append(ud("Result", a, b))
    out.append(tup())
    for a in pool:
        out.append(tup(a))
    for a in pool:
        for b in pool:
            out.append(tup(a, b))
    for r in pool:
        out.append(fun((), r))
    for a in pool:
        for r in pool:
            out.append(fun((a,), r))
    for a in pool:
        for b in pool:
            for r in pool:
                out.append(fun((a, b), r))
    return out


def depth1_universe():
    """All types of depth <= 1 over the signature (761 types)."""
    return list(ATOMS) + apply_all(ATOMS)


def rand_type(rng, d, atoms=ATOMS):
    """A random well-formed type of depth <= d."""
    if d <= 0 or rng.random() < 0.18:
        return rng.choice(atoms)
    k = rng.random()
    sub = lambda: rand_type(rng, d - 1, atoms)  # noqa: E731
    if k < 0.30:
        return ud(rng.choice(UNARY), sub())
    if k < 0.42:
        return ud("Result", sub(), sub())
    if k < 0.65:
        return tup(*[sub() for _ in range(rng.choice((0, 1, 1, 2, 2, 2)))])
    return fun([sub() for _ in range(rng.choice((0, 1, 1, 2, 2)))], sub())


def perturb(rng, t, p=0.35):
    """A variant of `t` with some subterms replaced by related types (NoValue / Any / a sibling atom),
    so that a family of variants contains many comparable pairs and near misses."""
    if rng.random() < p * 0.5:
        return rng.choice((NOVALUE, ANY, NOVALUE, ANY, INT, ("tp", "T"), ("tp", "U"), UNIT))
    k = t[0]
    if k == "ud" and t[2]:
        return ("ud", t[1], tuple(perturb(rng, a, p) for a in t[2]))
    if k == "tuple":
        return ("tuple", tuple(perturb(rng, a, p) for a in t[1]))
    if k == "fun":
        return ("fun", tuple(perturb(rng, a, p) for a in t[1]), perturb(rng, t[2], p))
    if rng.random() < p:
        return rng.choice(ATOMS)
    return t


def family_universe(rng, size, d):
    """A subterm-closed universe of exactly `size` types: the 8 atoms, then families of perturbed
    variants of random skeletons of depth <= d (with all their subterms)."""
    seen = set(ATOMS)
    order = list(ATOMS)

    def add(t):
        for s in sorted(subterms(t), key=lambda x: (depth(x), repr(x))):
            if s not in seen:
                seen.add(s)
                order.append(s)

    guard = 0
    while len(order) < size and guard < 10000:
        guard += 1
        base = rand_type(rng, d)
        if depth(base) == 0:
            continue
        fam = [base] + [perturb(rng, base) for _ in range(rng.randint(3, 9))]
        for t in fam:
            if len(order) + len(subterms(t) - seen) > size:
                continue
            add(t)
        if size - len(order) < 3:
            # fill the tail with shallow types
            for t in apply_all(ATOMS):
                if len(order) >= size:
                    break
                if t not in seen:
                    seen.add(t)
                    order.append(t)
    return order[:size]


# ------------------------------------------------------------------ parsing the checker's display form

class ParseError(Exception):
    pass


def parse_display(s, type_params=TYPE_PARAMS):
    """Parse `List<(Int, Fun<(T), Unit>)>` as printed by the checker (hover, messages)."""
    s = s.strip()
    pos = [0]

    def ws():
        while pos[0] < len(s) and s[pos[0]] in " \t\n":
            pos[0] += 1

    def eat(ch):
        ws()
        if pos[0] < len(s) and s[pos[0]] == ch:
            pos[0] += 1
            return True
        return False

    def lst(close):
        items = []
        ws()
        if eat(close):
            return items
        while True:
            items.append(ty())
            ws()
            if eat(","):
                ws()
                if eat(close):
                    return items
                continue
            if eat(close):
                return items
            raise ParseError("expected , or %s at %d in %r" % (close, pos[0], s))

    def ty():
        ws()
        if eat("("):
            return ("tuple", tuple(lst(")")))
        st = pos[0]
        while pos[0] < len(s) and (s[pos[0]].isalnum() or s[pos[0]] == "_"):
            pos[0] += 1
        name = s[st:pos[0]]
        if not name:
            raise ParseError("expected a type at %d in %r" % (pos[0], s))
        args = []
        if eat("<"):
            args = lst(">")
        if name == "Any" and not args:
            return ANY
        if name in type_params and not args:
            return ("tp", name)
        if name == "Fun":
            if len(args) != 2 or args[0][0] != "tuple":
                raise ParseError("odd Fun in %r" % s)
            return ("fun", args[0][1], args[1])
        if name.startswith("__ERROR") or name == "_":
            raise ParseError("error type in %r" % s)
        return ("ud", name, tuple(args))

    t = ty()
    ws()
    if pos[0] != len(s):
        raise ParseError("trailing input at %d in %r" % (pos[0], s))
    return t


# ------------------------------------------------------------------ universes rich in joinable pairs (C15)

def rand_nominal(rng, d, leaves):
    """Random type whose upper levels are nominal constructors (the only ones the checker's join descends
    into), with arbitrary shallow types at the leaves."""
    if d <= 0 or rng.random() < 0.12:
        return rng.choice(leaves)
    k = rng.random()
    if k < 0.7:
        return ud(rng.choice(UNARY), rand_nominal(rng, d - 1, leaves))
    return ud("Result", rand_nominal(rng, d - 1, leaves), rand_nominal(rng, d - 1, leaves))


def nominal_family_universe(rng, size, d):
    """Subterm-closed universe of `size` types: families of variants of nominal skeletons whose leaves are
    replaced by NoValue / Any / siblings, so that many pairs are joinable at depth."""
    shallow = list(ATOMS) + [tup(), tup(INT), tup(INT, STRING), tup(NOVALUE, INT), fun((), INT), fun((INT,), NOVALUE),
                             fun((ANY,), INT), fun((INT, INT), UNIT), ud("List", INT), ud("Option", ("tp", "T"))]
    seen = set(ATOMS)
    order = list(ATOMS)

    def add(t):
        for s in sorted(subterms(t), key=lambda x: (depth(x), repr(x))):
            if s not in seen:
                seen.add(s)
                order.append(s)

    guard = 0
    while len(order) < size and guard < 20000:
        guard += 1
        base = rand_nominal(rng, d, shallow)
        if base[0] != "ud" or not base[2]:
            continue
        for t in [base] + [perturb(rng, base, 0.45) for _ in range(rng.randint(4, 10))]:
            if len(order) + len(subterms(t) - seen) <= size:
                add(t)
        if size - len(order) < 3:
            for t in apply_all(ATOMS):
                if len(order) >= size:
                    break
                if t not in seen:
                    seen.add(t)
                    order.append(t)
    return order[:size]


def has_any(t):
    return t == ANY or any(has_any(c) for c in children(t))
