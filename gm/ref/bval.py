"""Abstract Garden values with literal syntax: source emitter, independent reader, structural equality.

Written from the documentation (website/manual.md, the doc comments of the prelude types, the four
documented string escapes) and the statements of C12/C13 - not from src/values.rs or the parser.

Abstract value (JSON-able):
    ["int", n] | ["float", x] | ["str", s] | ["list", [v...]] | ["tuple", [v...]]
    | ["dict", [[key, v]...]]            (written order; a later duplicate key wins)
    | ["enum", Name, payload-or-None]     (True, False, Unit, None, Some(v), Ok(v), Err(v), user enums)
    | ["struct", Name, [[field, v]...]]   (fields in definition order)
"""
import math

MIN = -(1 << 63)
MAX = (1 << 63) - 1


# ----------------------------------------------------------------------------- canonical form / equality

def canon(v):
    """Hashable canonical form: two abstract values denote the same Garden value iff canon() is equal."""
    t = v[0]
    if t == "int":
        return ("int", v[1])
    if t == "float":
        return ("float", float(v[1]))
    if t == "str":
        return ("str", v[1])
    if t == "list":
        return ("list", tuple(canon(x) for x in v[1]))
    if t == "tuple":
        return ("tuple", tuple(canon(x) for x in v[1]))
    if t == "dict":
        d = {}
        for k, x in v[1]:
            d[k] = canon(x)
        return ("dict", tuple(sorted(d.items())))
    if t == "enum":
        return ("enum", v[1], None if v[2] is None else canon(v[2]))
    if t == "struct":
        return ("struct", v[1], tuple((f, canon(x)) for f, x in v[2]))
    raise ValueError(v)


def equal(a, b):
    return canon(a) == canon(b)


def has_float(v):
    t = v[0]
    if t == "float":
        return True
    if t in ("list", "tuple"):
        return any(has_float(x) for x in v[1])
    if t == "dict":
        return any(has_float(x) for _, x in v[1])
    if t == "enum":
        return v[2] is not None and has_float(v[2])
    if t == "struct":
        return any(has_float(x) for _, x in v[2])
    return False


def depth(v):
    t = v[0]
    if t in ("list", "tuple"):
        return 1 + max([depth(x) for x in v[1]] or [0])
    if t == "dict":
        return 1 + max([depth(x) for _, x in v[1]] or [0])
    if t == "enum":
        return 0 if v[2] is None else 1 + depth(v[2])
    if t == "struct":
        return 1 + max([depth(x) for _, x in v[2]] or [0])
    return 0


def kind(v):
    """Short shape descriptor used in coverage keys."""
    t = v[0]
    if t == "int":
        n = v[1]
        return "int:" + ("0" if n == 0 else ("edge" if abs(n) >= MAX - 1 else ("neg" if n < 0 else "pos")))
    if t == "float":
        x = v[1]
        return "float:" + ("int" if x == int(x) and abs(x) < 1e15 else ("tiny" if abs(x) < 1e-5 else ("huge" if abs(x) > 1e15 else "frac")))
    if t == "str":
        s = v[1]
        cls = []
        if s == "":
            cls.append("empty")
        if "\\" in s:
            cls.append("bs")
        if s.endswith("\\"):
            cls.append("endbs")
        if '"' in s:
            cls.append("q")
        if "\n" in s:
            cls.append("nl")
        if "\t" in s:
            cls.append("tab")
        if "\r" in s:
            cls.append("cr")
        if any(ord(c) > 127 for c in s):
            cls.append("u")
        return "str:" + "+".join(cls)
    if t in ("list", "tuple"):
        return "%s%d" % (t, min(len(v[1]), 3))
    if t == "dict":
        return "dict%d" % min(len(v[1]), 3)
    if t == "enum":
        return "enum:" + v[1]
    return "struct:" + v[1]


def shape(v, d=2):
    t = v[0]
    if d == 0 or t in ("int", "float", "str"):
        return kind(v)
    if t in ("list", "tuple"):
        return "%s[%s]" % (t, ",".join(sorted(set(shape(x, d - 1) for x in v[1]))))
    if t == "dict":
        return "dict[%s]" % ",".join(sorted(set(shape(x, d - 1) for _, x in v[1])))
    if t == "enum":
        return v[1] if v[2] is None else "%s(%s)" % (v[1], shape(v[2], d - 1))
    return "%s{%s}" % (v[1], ",".join(shape(x, d - 1) for _, x in v[2]))


# ----------------------------------------------------------------------------- source emitter

def float_src(x):
    """Plain decimal literal that Rust's (correctly rounded) float parser maps back to x."""
    import decimal
    if not math.isfinite(x):
        raise ValueError("no literal for %r" % x)
    r = repr(float(x))
    if "e" in r or "E" in r or "inf" in r or "nan" in r:
        d = decimal.Decimal(r)
        r = format(d, "f")
    if "." not in r:
        r += ".0"
    return r


def str_src(s, style=0, safe=True):
    """Garden expression that evaluates to the string s.

    style 0: escapes for newline/tab; style 1: raw newline/tab inside the literal.
    safe: never emit a literal whose last character before the closing quote is a backslash
    (the construct C12 is about); use `"...\\\\x".substring(0, n)` instead.
    """
    out = []
    for c in s:
        if c == '"':
            out.append('\\"')
        elif c == "\\":
            out.append("\\\\")
        elif c == "\n" and style == 0:
            out.append("\\n")
        elif c == "\t" and style == 0:
            out.append("\\t")
        else:
            out.append(c)
    body = "".join(out)
    if safe and s.endswith("\\"):
        return '"%sx".substring(0, %d)' % (body, len(s))
    return '"%s"' % body


def src(v, style=0, safe=True):
    t = v[0]
    if t == "int":
        return str(v[1])
    if t == "float":
        return float_src(v[1])
    if t == "str":
        return str_src(v[1], style, safe)
    if t == "list":
        return "[" + ", ".join(src(x, style, safe) for x in v[1]) + "]"
    if t == "tuple":
        items = v[1]
        if len(items) == 1:
            return "(" + src(items[0], style, safe) + ",)"
        return "(" + ", ".join(src(x, style, safe) for x in items) + ")"
    if t == "dict":
        return "Dict[" + ", ".join("%s => %s" % (str_src(k, style, safe), src(x, style, safe)) for k, x in v[1]) + "]"
    if t == "enum":
        if v[2] is None:
            return v[1]
        return "%s(%s)" % (v[1], src(v[2], style, safe))
    if t == "struct":
        return "%s{ %s }" % (v[1], ", ".join("%s: %s" % (f, src(x, style, safe)) for f, x in v[2]))
    raise ValueError(v)


# ----------------------------------------------------------------------------- reader

class ReadError(Exception):
    pass


class Reader:
    """Recursive-descent reader for Garden literal syntax (iterative enough for depth <= ~500)."""

    def __init__(self, text, structs=None):
        self.t = text
        self.i = 0
        self.structs = structs or {}

    def err(self, msg):
        raise ReadError("%s at %d: %r" % (msg, self.i, self.t[self.i:self.i + 20]))

    def ws(self):
        t, n = self.t, len(self.t)
        while self.i < n and t[self.i] in " \t\n\r":
            self.i += 1

    def peek(self):
        return self.t[self.i] if self.i < len(self.t) else ""

    def eat(self, s):
        self.ws()
        if self.t.startswith(s, self.i):
            self.i += len(s)
            return True
        return False

    def expect(self, s):
        if not self.eat(s):
            self.err("expected %r" % s)

    def string(self):
        t = self.t
        if self.peek() != '"':
            self.err("expected string")
        self.i += 1
        out = []
        n = len(t)
        while True:
            if self.i >= n:
                self.err("unterminated string")
            c = t[self.i]
            if c == '"':
                self.i += 1
                return "".join(out)
            if c == "\\":
                if self.i + 1 >= n:
                    self.err("dangling backslash")
                e = t[self.i + 1]
                if e == "n":
                    out.append("\n")
                elif e == "t":
                    out.append("\t")
                elif e == "\\":
                    out.append("\\")
                elif e == '"':
                    out.append('"')
                else:
                    self.err("undocumented escape")
                self.i += 2
                continue
            out.append(c)
            self.i += 1

    def number(self):
        t, n = self.t, len(self.t)
        j = self.i
        if j < n and t[j] == "-":
            j += 1
        k = j
        while k < n and (t[k].isdigit() and t[k] in "0123456789" or t[k] == "_"):
            k += 1
        if k == j:
            self.err("expected number")
        is_float = False
        if k + 1 < n and t[k] == "." and t[k + 1] in "0123456789":
            is_float = True
            k += 1
            while k < n and (t[k] in "0123456789_"):
                k += 1
        lit = t[self.i:k].replace("_", "")
        self.i = k
        if is_float:
            return ["float", float(lit)]
        v = int(lit)
        if not (MIN <= v <= MAX):
            self.err("integer out of range")
        return ["int", v]

    def ident(self):
        t, n = self.t, len(self.t)
        j = self.i
        if j < n and (t[j].isascii() and (t[j].isalpha() or t[j] == "_")):
            j += 1
            while j < n and t[j].isascii() and (t[j].isalnum() or t[j] == "_"):
                j += 1
        if j == self.i:
            self.err("expected value")
        s = t[self.i:j]
        self.i = j
        return s

    def value(self):
        self.ws()
        c = self.peek()
        if c == '"':
            return ["str", self.string()]
        if c == "-" or (c and c in "0123456789"):
            return self.number()
        if c == "[":
            self.i += 1
            return ["list", self.seq("]")[0]]
        if c == "(":
            self.i += 1
            items, trailing = self.seq(")")
            if len(items) == 1 and not trailing:
                # parenthesised expression, not a tuple
                return items[0]
            return ["tuple", items]
        name = self.ident()
        if name == "Dict" and self.peek() == "[":
            self.i += 1
            items = []
            while True:
                if self.eat("]"):
                    break
                self.ws()
                k = self.string()
                self.expect("=>")
                items.append([k, self.value()])
                if self.eat(","):
                    continue
                self.expect("]")
                break
            return ["dict", items]
        if not name[0].isupper():
            self.err("not a literal")
        # `Name{` only when adjacent or separated by spaces: struct literal
        save = self.i
        self.ws()
        c = self.peek()
        if c == "(" and save == self.i:
            self.i += 1
            items, trailing = self.seq(")")
            if len(items) != 1:
                self.err("enum payload must be one value")
            return ["enum", name, items[0]]
        if c == "{":
            self.i += 1
            fields = []
            while True:
                if self.eat("}"):
                    break
                self.ws()
                f = self.ident()
                self.expect(":")
                fields.append([f, self.value()])
                if self.eat(","):
                    continue
                self.expect("}")
                break
            return ["struct", name, fields]
        self.i = save
        return ["enum", name, None]

    def seq(self, close):
        items = []
        trailing = False
        while True:
            if self.eat(close):
                return items, trailing
            items.append(self.value())
            trailing = False
            if self.eat(","):
                trailing = True
                continue
            self.expect(close)
            return items, trailing


def read(text, structs=None):
    """Parse one literal; raises ReadError when text is not exactly one literal."""
    import sys
    r = Reader(text, structs)
    old = sys.getrecursionlimit()
    if old < 20000:
        sys.setrecursionlimit(20000)
    v = r.value()
    r.ws()
    if r.i != len(text):
        r.err("trailing text")
    return v
