"""LSP 3.17 position algebra, written from the specification text (not from Garden's code).

Specification facts used (LSP 3.17, "Text Documents" / "Position"):
  * a position is (line, character), both zero based; `character` counts UTF-16 code units when the
    negotiated position encoding is utf-16 (the default and what `garden lsp` announces);
  * lines end at '\\n', '\\r\\n' or '\\r' (`EOL: string[] = ['\\n', '\\r\\n', '\\r']`);
  * "If the character value is greater than the line length it defaults back to the line length."
The specification is silent about a line number past the last line, about a character that falls in
the middle of a surrogate pair and about an offset between the CR and the LF of a CRLF (no position
denotes it). The functions below return None / a set of candidates for those so that callers can
weaken their verdicts instead of guessing.

Offsets are UTF-8 byte offsets (Garden's unit); texts are Python str.
"""

EOL_LSP = "lsp"   # \n, \r\n and lone \r end a line (the specification)
EOL_LF = "lf"     # only \n ends a line (used only to classify an observed deviation)


def u16len(s):
    return sum(2 if ord(c) > 0xFFFF else 1 for c in s)


def u8len(s):
    return len(s.encode("utf-8"))


class Doc:
    """Line table of a text under one of the two line-terminator conventions."""

    def __init__(self, text, eol=EOL_LSP):
        self.text = text
        self.eol = eol
        self.nbytes = u8len(text)
        # lines: list of (start_byte, content, term) with term the terminator string ('' on the last line)
        self.lines = []
        start = 0
        cur = []
        i, n = 0, len(text)
        b = 0
        while i < n:
            c = text[i]
            term = None
            if c == "\n":
                term = "\n"
            elif c == "\r" and eol == EOL_LSP:
                term = "\r\n" if i + 1 < n and text[i + 1] == "\n" else "\r"
            if term is None:
                cur.append(c)
                b += len(c.encode("utf-8"))
                i += 1
                continue
            self.lines.append((start, "".join(cur), term))
            b += len(term)
            i += len(term)
            start = b
            cur = []
        self.lines.append((start, "".join(cur), ""))

    # ---------------------------------------------------------------- offset -> position
    def position_of(self, offset):
        """(line, character) of a byte offset on a character boundary; None when no position denotes
        it (strictly inside a CRLF) or when it is not a boundary / out of range."""
        if offset < 0 or offset > self.nbytes:
            return None
        # binary search would be faster; documents are small
        lo, hi = 0, len(self.lines) - 1
        while lo < hi:
            mid = (lo + hi + 1) // 2
            if self.lines[mid][0] <= offset:
                lo = mid
            else:
                hi = mid - 1
        start, content, term = self.lines[lo]
        rel = offset - start
        cb = content.encode("utf-8")
        if rel > len(cb):
            # inside the terminator: only possible for CRLF (rel == len+1)
            return None
        try:
            prefix = cb[:rel].decode("utf-8")
        except UnicodeDecodeError:
            return None
        return (lo, u16len(prefix))

    def all_positions(self):
        """[(offset, (line, character) | None)] for every character-boundary offset, ascending."""
        out = []
        for li, (start, content, term) in enumerate(self.lines):
            b = start
            col = 0
            for c in content:
                out.append((b, (li, col)))
                b += len(c.encode("utf-8"))
                col += 2 if ord(c) > 0xFFFF else 1
            out.append((b, (li, col)))
            if term == "\r\n":
                out.append((b + 1, None))
        return out

    def end_position(self):
        start, content, _ = self.lines[-1]
        return (len(self.lines) - 1, u16len(content))

    # ---------------------------------------------------------------- position -> offset
    def offset_of(self, line, character):
        """Set of acceptable byte offsets for a position.

        One element wherever the specification decides; two when `character` splits a surrogate pair
        (either side); for a line past the end the specification says nothing: returns None."""
        if line < 0 or character < 0:
            return None
        if line >= len(self.lines):
            return None
        start, content, _ = self.lines[line]
        b = start
        col = 0
        for c in content:
            if col == character:
                return {b}
            w = 2 if ord(c) > 0xFFFF else 1
            if col < character < col + w:
                return {b, b + len(c.encode("utf-8"))}
            b += len(c.encode("utf-8"))
            col += w
        return {b}   # at or past the end of the line: the line length

    def line_count(self):
        return len(self.lines)


def has_lone_cr(text):
    n = len(text)
    for i, c in enumerate(text):
        if c == "\r" and not (i + 1 < n and text[i + 1] == "\n"):
            return True
    return False


def byte_col_to_u16(line_text, col_bytes):
    """UTF-16 column of a byte column within one line; None if not on a character boundary."""
    b = line_text.encode("utf-8")
    if col_bytes < 0 or col_bytes > len(b):
        return None
    try:
        return u16len(b[:col_bytes].decode("utf-8"))
    except UnicodeDecodeError:
        return None
