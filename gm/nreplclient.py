"""Bencode codec, nREPL server launcher and a transcript-recording client (used by C30 / C31).

Python stdlib only.  One `Conn` = one TCP connection with a reader thread that records the ordered
transcript of decoded messages; every send records the transcript position at send time, so that
"the client held X when it sent Y" is decidable offline from the recorded history.
"""
import json
import os
import signal
import socket
import subprocess
import threading
import time

from . import core


# --------------------------------------------------------------------------- bencode

class BencodeError(Exception):
    pass


def bencode(x):
    if isinstance(x, bool):
        x = int(x)
    if isinstance(x, int):
        return b"i%de" % x
    if isinstance(x, str):
        x = x.encode("utf-8")
    if isinstance(x, (bytes, bytearray)):
        return b"%d:%s" % (len(x), bytes(x))
    if isinstance(x, (list, tuple)):
        return b"l" + b"".join(bencode(i) for i in x) + b"e"
    if isinstance(x, dict):
        items = []
        for k, v in x.items():
            kb = k.encode("utf-8") if isinstance(k, str) else bytes(k)
            items.append((kb, v))
        items.sort(key=lambda kv: kv[0])
        return b"d" + b"".join(bencode(k) + bencode(v) for k, v in items) + b"e"
    raise BencodeError("cannot encode %r" % (x,))


class _Need(Exception):
    """More bytes needed."""


def _dec(buf, i):
    n = len(buf)
    if i >= n:
        raise _Need()
    c = buf[i:i + 1]
    if c == b"i":
        j = buf.find(b"e", i)
        if j < 0:
            if n - i > 32:
                raise BencodeError("unterminated integer")
            raise _Need()
        try:
            return int(buf[i + 1:j]), j + 1
        except ValueError:
            raise BencodeError("bad integer %r" % buf[i:j + 1])
    if c == b"l":
        out = []
        i += 1
        while True:
            if i >= n:
                raise _Need()
            if buf[i:i + 1] == b"e":
                return out, i + 1
            v, i = _dec(buf, i)
            out.append(v)
    if c == b"d":
        out = {}
        i += 1
        while True:
            if i >= n:
                raise _Need()
            if buf[i:i + 1] == b"e":
                return out, i + 1
            k, i = _dec(buf, i)
            if not isinstance(k, bytes):
                raise BencodeError("dict key is not a string")
            v, i = _dec(buf, i)
            out[k.decode("utf-8", "replace")] = v
    if c.isdigit():
        j = buf.find(b":", i)
        if j < 0:
            if n - i > 24:
                raise BencodeError("unterminated length")
            raise _Need()
        try:
            ln = int(buf[i:j])
        except ValueError:
            raise BencodeError("bad length %r" % buf[i:j])
        if j + 1 + ln > n:
            raise _Need()
        return bytes(buf[j + 1:j + 1 + ln]), j + 1 + ln
    raise BencodeError("unexpected byte %r at %d" % (c, i))


def bdecode_prefix(buf):
    """Decode one value from the start of buf -> (value, consumed) or None when incomplete."""
    try:
        return _dec(buf, 0)
    except _Need:
        return None


def textify(v):
    """bytes -> str (utf-8, replace) recursively, for JSON-able transcripts."""
    if isinstance(v, bytes):
        return v.decode("utf-8", "replace")
    if isinstance(v, list):
        return [textify(i) for i in v]
    if isinstance(v, dict):
        return {k: textify(x) for k, x in v.items()}
    return v


# --------------------------------------------------------------------------- server

class Server:
    """`garden nrepl --port 0` with cwd = a scratch dir; port from `.nrepl-port`."""

    def __init__(self, scratch_dir, delays=None, event_log=True, extra_env=None):
        self.dir = scratch_dir
        self.event_log = os.path.join(scratch_dir, "events.jsonl") if event_log else None
        self.stderr_path = os.path.join(scratch_dir, "server.stderr")
        env = dict(core.BASE_ENV)
        env["HOME"] = scratch_dir
        env["TMPDIR"] = scratch_dir
        env["RUST_BACKTRACE"] = "0"
        if self.event_log:
            env["GDN_VERIF_EVENT_LOG"] = self.event_log
        if delays:
            env["GDN_VERIF_DELAYS"] = delays
        if extra_env:
            env.update(extra_env)
        port_file = os.path.join(scratch_dir, ".nrepl-port")
        if os.path.exists(port_file):
            os.unlink(port_file)
        self._err = open(self.stderr_path, "wb")
        try:
            self.p = subprocess.Popen([core.GARDEN, "nrepl", "--port", "0"], cwd=scratch_dir, env=env,
                                      stdin=subprocess.DEVNULL, stdout=subprocess.DEVNULL, stderr=self._err,
                                      preexec_fn=core._preexec)
        except OSError as ex:
            raise core.HarnessError("cannot start garden nrepl: %s" % ex)
        self.port = None
        t0 = time.time()
        while time.time() - t0 < 20:
            if self.p.poll() is not None:
                break
            try:
                s = open(port_file).read().strip()
                if s.isdigit():
                    self.port = int(s)
                    break
            except OSError:
                pass
            time.sleep(0.005)

    def ok(self):
        return self.port is not None and self.p.poll() is None

    def stderr(self):
        try:
            return open(self.stderr_path, "rb").read().decode("utf-8", "replace")
        except OSError:
            return ""

    def stderr_has_panic(self):
        try:
            return b"panicked at" in open(self.stderr_path, "rb").read()
        except OSError:
            return False

    def events(self):
        out = []
        if not self.event_log or not os.path.exists(self.event_log):
            return out
        for line in open(self.event_log, encoding="utf-8", errors="replace"):
            try:
                out.append(json.loads(line))
            except ValueError:
                pass
        return out

    def stop(self):
        if self.p.poll() is None:
            try:
                os.killpg(self.p.pid, signal.SIGKILL)
            except ProcessLookupError:
                pass
        try:
            self.p.wait(timeout=5)
        except Exception:
            pass
        self._err.close()


# --------------------------------------------------------------------------- client

class Conn:
    def __init__(self, port, name="c0", connect_timeout=10):
        self.name = name
        self.sock = socket.create_connection(("127.0.0.1", port), timeout=connect_timeout)
        self.sock.settimeout(None)
        self.sock.setsockopt(socket.IPPROTO_TCP, socket.TCP_NODELAY, 1)
        self.msgs = []          # decoded messages (textified), in arrival order
        self.times = []         # arrival time of each
        self.sent = []          # {"req": dict, "pos": transcript length at send, "t": time}
        self.cv = threading.Condition()
        self.eof = False
        self.error = None
        self.t = threading.Thread(target=self._reader, daemon=True)
        self.t.start()

    def _reader(self):
        buf = bytearray()
        try:
            while True:
                try:
                    chunk = self.sock.recv(65536)
                except OSError as ex:
                    with self.cv:
                        if not self.eof:
                            self.error = "recv: %s" % ex
                    break
                if not chunk:
                    break
                buf += chunk
                while buf:
                    r = bdecode_prefix(bytes(buf))
                    if r is None:
                        break
                    v, used = r
                    del buf[:used]
                    with self.cv:
                        self.msgs.append(textify(v))
                        self.times.append(time.time())
                        self.cv.notify_all()
        except BencodeError as ex:
            with self.cv:
                self.error = "bencode: %s" % ex
        finally:
            with self.cv:
                self.eof = True
                if buf and not self.error:
                    self.error = "eof inside a message (%d bytes pending)" % len(buf)
                self.cv.notify_all()

    def send(self, req):
        data = bencode(req)
        with self.cv:
            self.sent.append({"req": req, "pos": len(self.msgs), "t": time.time()})
        try:
            self.sock.sendall(data)
        except OSError as ex:
            with self.cv:
                self.error = self.error or ("send: %s" % ex)
            return False
        return True

    def send_raw(self, data):
        try:
            self.sock.sendall(data)
            return True
        except OSError:
            return False

    def wait(self, pred, timeout, start=0):
        """Wait until some message at index >= start satisfies pred; -> index or None."""
        deadline = time.time() + timeout
        i = start
        with self.cv:
            while True:
                while i < len(self.msgs):
                    if pred(self.msgs[i]):
                        return i
                    i += 1
                if self.eof:
                    return None
                left = deadline - time.time()
                if left <= 0:
                    return None
                self.cv.wait(left)

    def wait_done(self, rid, timeout):
        return self.wait(lambda m: m.get("id") == rid and is_done(m), timeout)

    def wait_out(self, rid, timeout):
        return self.wait(lambda m: m.get("id") == rid and "out" in m, timeout)

    def snapshot(self):
        with self.cv:
            return list(self.msgs), list(self.sent)

    def close(self):
        with self.cv:
            self.eof = True
        try:
            self.sock.shutdown(socket.SHUT_RDWR)
        except OSError:
            pass
        try:
            self.sock.close()
        except OSError:
            pass
        self.t.join(timeout=2)


def status_of(m):
    s = m.get("status")
    if isinstance(s, list):
        return [x for x in s if isinstance(x, str)]
    if isinstance(s, str):
        return [s]
    return []


def is_done(m):
    return "done" in status_of(m)
