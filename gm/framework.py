"""Driver shared by all monitors: case generation -> parallel batches -> verdicts -> evidence.

A monitor is a python module `gm.mon.cNN` with:

    ID       = "C04"
    LEVEL    = "exploration"
    RULE     = "how cases are generated and what makes one distinct and non-trivial"
    ASSUME   = ["what the check trusts"]
    BATCH    = 100                       # cases handed to one worker call
    FLOOR    = {"quick": 50, "thorough": 500}   # minimum distinct non-trivial cases, else harness error
    def gen_cases(tier, seed):           # generator of JSON-able case dicts; may yield
                                         # {"_marker": "name"} after finishing an exhaustive sub-space
    def run_batch(cases):                # -> list of results, same order; executed in a worker process
        result = {"status": "held"|"violated"|"inconclusive",
                  "key":   str|None,     # coverage key; distinct non-None keys are counted
                  "keys":  [str],        # optional: several coverage keys reached by this one case
                  "sig":   str,          # violated only: signature matched against known_findings.txt
                  "detail": {...}}       # violated / inconclusive: expected vs observed
    def replay(case):                    # optional; default = run_batch([case])[0]

gen_cases is consumed lazily until the tier's time budget is used up (VERIF_BUDGET_S overrides);
cases before the first budget check are always run, so small exhaustive spaces always complete.
"""
import concurrent.futures as cf
import itertools
import json
import os
import random
import sys
import time
import traceback

from . import core
from . import findings

BUDGET = {"quick": 45.0, "thorough": 900.0}


def budget_for(mod, tier):
    if os.environ.get("VERIF_BUDGET_S"):
        return float(os.environ["VERIF_BUDGET_S"])
    b = getattr(mod, "BUDGET", None)
    if b and tier in b:
        return float(b[tier])
    return BUDGET[tier]


def _run_batch(modname, cases):
    import importlib
    mod = importlib.import_module(modname)
    try:
        res = mod.run_batch(cases)
        if len(res) != len(cases):
            raise core.HarnessError("%s.run_batch returned %d results for %d cases" % (modname, len(res), len(cases)))
        return res
    except core.HarnessError:
        raise
    except Exception:
        tb = traceback.format_exc()
        return [{"status": "inconclusive", "key": None, "detail": {"harness_exception": tb[-1500:]}} for _ in cases]


def drive(mod, tier, seed, out=sys.stdout):
    t0 = time.time()
    core.build()
    if hasattr(mod, "prepare"):
        mod.prepare(tier, seed)
    budget = budget_for(mod, tier)
    deadline = time.time() + budget          # the (re)build does not eat into the exploration budget
    known = findings.load(mod.ID)
    batch_n = getattr(mod, "BATCH", 50)
    workers = getattr(mod, "WORKERS", core.NCPU)

    n_cases = 0
    keys = set()
    counts = {"held": 0, "violated": 0, "inconclusive": 0}
    samples = []
    viol = {}          # sig -> [count, first (case, detail)]
    inconcl = []
    markers_seen = []   # (marker name, index of last case before marker)
    markers_done = []
    completed_upto = [0]
    rng = random.Random(seed)
    pending = {}
    submitted = 0
    gen = mod.gen_cases(tier, seed)
    exhausted = False
    stop_submitting = False
    modname = mod.__name__

    def consume(fut):
        nonlocal n_cases
        cases = pending.pop(fut)
        res = fut.result()
        for case, r in zip(cases, res):
            n_cases += 1
            st = r.get("status", "inconclusive")
            counts[st] = counts.get(st, 0) + 1
            k = r.get("key")
            if k is not None:
                keys.add(k if isinstance(k, str) else json.dumps(k, sort_keys=True))
            for k2 in r.get("keys") or ():
                keys.add(k2 if isinstance(k2, str) else json.dumps(k2, sort_keys=True))
            if st == "violated":
                sig = r.get("sig") or "unspecified"
                ent = viol.setdefault(sig, [0, None])
                ent[0] += 1
                if ent[1] is None:
                    ent[1] = (r.get("case", case), r.get("detail", {}))
            elif st == "inconclusive":
                if len(inconcl) < 10:
                    inconcl.append({"case": _clip(case), "detail": _clip(r.get("detail", {}))})
            if len(samples) < 4 or (len(samples) < 12 and rng.random() < 0.002):
                samples.append({"case": _clip(case), "status": st, "key": k})

    with cf.ProcessPoolExecutor(max_workers=workers) as ex:
        cur = []
        first_round = True
        while True:
            # submit
            while not exhausted and not stop_submitting and len(pending) < workers + 4:
                try:
                    c = next(gen)
                except StopIteration:
                    exhausted = True
                    break
                if isinstance(c, dict) and "_marker" in c:
                    if cur:
                        pending[ex.submit(_run_batch, modname, cur)] = cur
                        submitted += len(cur)
                        cur = []
                    markers_seen.append((c["_marker"], submitted, c))
                    continue
                cur.append(c)
                if len(cur) >= batch_n:
                    pending[ex.submit(_run_batch, modname, cur)] = cur
                    submitted += len(cur)
                    cur = []
            if (exhausted or stop_submitting) and cur:
                pending[ex.submit(_run_batch, modname, cur)] = cur
                submitted += len(cur)
                cur = []
            if not pending:
                break
            done, _ = cf.wait(list(pending), timeout=1.0, return_when=cf.FIRST_COMPLETED)
            for f in done:
                consume(f)
            if time.time() > deadline and not first_round and not stop_submitting:
                stop_submitting = True
                # batches that have not started yet are dropped (as if never generated)
                for f in list(pending):
                    if f.cancel():
                        submitted -= len(pending.pop(f))
            first_round = False
            if time.time() > deadline + max(420.0, budget):
                # hard watchdog on the whole check: abandon what is still running
                for f in list(pending):
                    f.cancel()
                break
    # exhaustive markers: a marker counts when generation reached it (all earlier cases were submitted
    # and, since we drained `pending`, completed).
    for name, upto, c in markers_seen:
        markers_done.append(dict(c, cases_before=upto))

    wall = time.time() - t0
    # ---- verdicts
    new_viol, known_hits = [], []
    for sig, (cnt, (case, detail)) in sorted(viol.items()):
        rec = {"property": mod.ID, "tier": tier, "seed": seed, "sig": sig, "count": cnt,
               "case": case, "detail": detail}
        path = findings.write_replay(mod.ID, rec)
        kf = findings.match(known, sig)
        if kf is not None:
            known_hits.append((kf, cnt, path))
        else:
            new_viol.append((sig, cnt, path, detail))

    for kf, cnt, path in known_hits:
        out.write("KNOWN-FINDING: property=%s %s (sig=%s, %d cases, replay=%s)\n" % (mod.ID, kf["text"], kf["sig"], cnt, path))
    for sig, cnt, path, detail in new_viol[:25]:
        out.write("VIOLATION property=%s replay=%s\n" % (mod.ID, path))
        out.write("  sig=%s cases=%d detail=%s\n" % (sig, cnt, json.dumps(_clip(detail))[:700]))

    floor = getattr(mod, "FLOOR", {}).get(tier, 2)
    ev = {
        "property_id": mod.ID, "tier": tier, "seed": seed, "level": getattr(mod, "LEVEL", "exploration"),
        "coverage": {
            "evaluations": n_cases,
            "distinct_nontrivial": len(keys),
            "rule": mod.RULE,
            "samples": samples or [{"note": "no cases ran"}],
            "exhaustive": bool(markers_done) and exhausted and getattr(mod, "ALL_EXHAUSTIVE", False),
            "exhaustive_subspaces": markers_done,
            "held": counts.get("held", 0), "violated_cases": counts.get("violated", 0),
            "inconclusive": counts.get("inconclusive", 0),
            "inconclusive_samples": inconcl,
            "distinct_violation_signatures": len(viol),
            "known_finding_signatures": [k[0]["sig"] for k in known_hits],
            "new_violation_signatures": [v[0] for v in new_viol],
            "generator_exhausted": exhausted,
            "budget_s": budget,
            "key_samples": sorted(keys)[:40],
        },
        "assumptions": getattr(mod, "ASSUME", []),
        "wall_s": round(wall, 2),
        "violations": len(new_viol),
    }
    if hasattr(mod, "extra_evidence"):
        try:
            ev["coverage"].update(mod.extra_evidence())
        except Exception:
            pass
    findings.write_evidence(mod.ID, ev)

    out.write("[%s %s seed=%d] cases=%d distinct_nontrivial=%d held=%d violated=%d inconclusive=%d new_sigs=%d known_sigs=%d wall=%.1fs\n" % (
        mod.ID, tier, seed, n_cases, len(keys), counts.get("held", 0), counts.get("violated", 0),
        counts.get("inconclusive", 0), len(new_viol), len(known_hits), wall))
    if new_viol:
        return 1
    if len(keys) < 2 or n_cases == 0:
        out.write("HARNESS-ERROR property=%s observed only %d distinct non-trivial cases: the run observed nothing\n" % (mod.ID, len(keys)))
        return 2
    if len(keys) < floor:
        # a slow or loaded machine explores less in the same budget: reported, never an alarm
        out.write("WARNING property=%s observed %d distinct non-trivial cases, below the usual floor %d (machine loaded?)\n" % (mod.ID, len(keys), floor))
    if counts.get("inconclusive", 0) > max(5, 0.05 * n_cases):
        out.write("WARNING property=%s %d of %d cases inconclusive\n" % (mod.ID, counts["inconclusive"], n_cases))
    return 0


def _clip(x, n=1200):
    s = json.dumps(x, default=str)
    if len(s) <= n:
        return x
    return {"clipped": s[:n]}


def replay(mod, path, out=sys.stdout):
    core.build()
    rec = json.load(open(path))
    case = rec["case"]
    if hasattr(mod, "prepare"):
        mod.prepare(rec.get("tier", "quick"), rec.get("seed", 0))
    if hasattr(mod, "replay"):
        r = mod.replay(case)
    else:
        r = mod.run_batch([case])[0]
    out.write(json.dumps({"case": case, "recorded": {"sig": rec.get("sig"), "detail": rec.get("detail")},
                          "now": r}, indent=1, default=str)[:20000] + "\n")
    if r.get("status") == "violated":
        known = findings.load(mod.ID)
        kf = findings.match(known, r.get("sig"))
        if kf is not None:
            out.write("KNOWN-FINDING: property=%s %s\n" % (mod.ID, kf["text"]))
            return 0
        out.write("VIOLATION property=%s replay=%s\n" % (mod.ID, path))
        return 1
    return 0
